"""Seams through which the harness owns nondeterminism (installed from outside numqi; no hooks in /repo).

* StubGenerator  : numpy Generator whose choice()/integers() answers come from a harness list (environment answers)
* StubRandom     : random.Random whose randint()/randrange()/getrandbits() answers come from a harness list
* EntropySeam    : context manager; every construction of a generator *without a seed* anywhere (np.random.default_rng(),
                   default_rng(None), random.Random(), SeedSequence()) is logged and answered with a harness-chosen stream.
* clear_numqi_caches : cache_clear() on every lru_cache reachable from the numqi modules
"""
import random
import sys

import numpy as np

_real_default_rng = np.random.default_rng
_real_Random = random.Random


class StubExhausted(Exception):
    pass


class StubGenerator(np.random.Generator):
    """Generator accepted by numqi.random.get_numpy_rng (isinstance check) whose discrete draws are harness answers."""

    def __init__(self, answers=(), fallback_seed=12345):
        super().__init__(np.random.PCG64(fallback_seed))
        self.answers = list(answers)
        self.log = []

    def _next(self):
        if not self.answers:
            raise StubExhausted('no harness answer left')
        return self.answers.pop(0)

    def choice(self, a, size=None, replace=True, p=None, axis=0, shuffle=True):
        self.log.append(('choice', a if isinstance(a, int) else len(a), None if p is None else np.array(p, dtype=np.float64).copy(), size))
        ans = self._next()
        if size is not None:
            return np.asarray(ans)
        return ans

    def integers(self, low, high=None, size=None, dtype=np.int64, endpoint=False):
        self.log.append(('integers', low, high, size))
        ans = self._next()
        if size is None:
            return ans
        return np.asarray(ans, dtype=dtype).reshape(size)


class StubRandom(_real_Random):
    def __init__(self, answers=(), fallback_seed=12345):
        super().__init__(fallback_seed)
        self.answers = list(answers)
        self.log = []

    def _next(self, what, *args):
        self.log.append((what,) + args)
        if not self.answers:
            raise StubExhausted('no harness answer left')
        return self.answers.pop(0)

    def randint(self, a, b):
        return self._next('randint', a, b)

    def randrange(self, start, stop=None, step=1):
        return self._next('randrange', start, stop, step)

    def getrandbits(self, k):
        return self._next('getrandbits', k)


class EntropySeam:
    """While active, unseeded generator constructions are logged in self.hits and seeded with `stream`."""

    def __init__(self, stream=0):
        self.stream = int(stream)
        self.hits = []
        self._count = 0

    def _site(self):
        f = sys._getframe(2)
        while f is not None:
            fn = f.f_code.co_filename.replace('\\', '/')
            if '/numqi/' in fn and not fn.endswith('random/_public.py'):
                return '%s:%s' % (fn.split('/numqi/', 1)[1], f.f_code.co_name)
            f = f.f_back
        return 'outside-numqi'

    def __enter__(self):
        seam = self

        def default_rng(seed=None):
            if seed is None:
                seam.hits.append(('np.random.default_rng', seam._site()))
                seam._count += 1
                return _real_default_rng([777, seam.stream, seam._count])
            return _real_default_rng(seed)

        class _Meta(type):
            def __instancecheck__(cls, inst):  # real Random objects made outside the seam stay Random objects
                return isinstance(inst, _real_Random)

        class Random(_real_Random, metaclass=_Meta):
            def __init__(self, x=None):
                if x is None:
                    seam.hits.append(('random.Random', seam._site()))
                    seam._count += 1
                    x = 777000 + 1000 * seam.stream + seam._count
                super().__init__(x)
        self._saved = (np.random.default_rng, random.Random)
        np.random.default_rng = default_rng
        random.Random = Random
        return self

    def __exit__(self, *exc):
        np.random.default_rng, random.Random = self._saved
        return False


def clear_numqi_caches():
    n = 0
    for name, mod in list(sys.modules.items()):
        if not (name == 'numqi' or name.startswith('numqi.')) or mod is None:
            continue
        for attr in list(vars(mod).values()):
            cc = getattr(attr, 'cache_clear', None)
            if callable(cc):
                try:
                    cc()
                    n += 1
                except Exception:
                    pass
    try:
        import numqi.sim.clifford as _c
        _c._basic_clifford_dagger_f2_cache.clear()
    except Exception:
        pass
    return n


def reset_global_rngs(seed=0):
    import torch
    np.random.seed(seed)
    random.seed(seed)
    torch.manual_seed(seed)


class ImmutabilityGuard:
    """Oracle 'a public numqi function does not modify the arrays it is given', installed from outside the package.

    Every plain function defined in the selected numqi modules is replaced (in every numqi module namespace where the same
    function object is bound) by a wrapper that, for calls coming from the harness (call depth 0), snapshots ndarray / tensor
    arguments and compares them after the call. Library-internal calls (depth > 0) are passed through unchecked: internal
    helpers may use scratch buffers by design. Violations are collected in self.events and drained by the engine per case."""

    def __init__(self, prefixes, exclude=(), layout_prefixes=()):
        self.prefixes = tuple(prefixes)
        self.exclude = set(exclude)
        self.layout_prefixes = tuple(layout_prefixes)
        self.depth = 0
        self.events = []
        self.installed = 0

    # ---- memory-layout metamorphic oracle: the result of a deterministic function must not depend on whether its array
    # arguments are C-contiguous, Fortran-ordered or strided views (opt-in per module prefix)
    @staticmethod
    def _relayout(x):
        if isinstance(x, np.ndarray) and x.ndim >= 2 and 1 < x.size <= 65536 and x.dtype.kind in 'biufc':
            return np.asfortranarray(x) if x.flags['C_CONTIGUOUS'] else np.ascontiguousarray(x)
        if hasattr(x, 'detach') and hasattr(x, 'is_contiguous') and getattr(x, 'ndim', 0) >= 2 and 1 < x.numel() <= 65536 and not x.requires_grad:
            if x.is_contiguous():
                return x.transpose(-1, -2).contiguous().transpose(-1, -2)
            return x.contiguous()
        return None

    @staticmethod
    def _flat_numeric(r):
        """list of float64/complex128 arrays of a result, or None if it contains something that cannot be compared"""
        if isinstance(r, np.ndarray):
            return [r] if r.dtype.kind in 'biufc' else None
        if hasattr(r, 'detach') and hasattr(r, 'shape'):
            return [r.detach().cpu().numpy()]
        if isinstance(r, (bool, int, float, complex, np.generic)):
            return [np.asarray(r)]
        if isinstance(r, (tuple, list)):
            out = []
            for y in r:
                z = ImmutabilityGuard._flat_numeric(y)
                if z is None:
                    return None
                out += z
            return out
        return None

    def _layout_check(self, f, qual, a, kw, r):
        import inspect
        try:
            if 'seed' in inspect.signature(f).parameters:
                return
        except (TypeError, ValueError):
            return
        alt_a = [self._relayout(x) for x in a]
        alt_kw = {k: self._relayout(v) for k, v in kw.items()}
        if all(x is None for x in alt_a) and all(v is None for v in alt_kw.values()):
            return
        ref_ = self._flat_numeric(r)
        if ref_ is None:
            return
        a2 = [x if y is None else y for x, y in zip(a, alt_a)]
        kw2 = {k: (kw[k] if alt_kw[k] is None else alt_kw[k]) for k in kw}
        self.depth += 1
        try:
            try:
                r2 = f(*a2, **kw2)
            except Exception as e:
                self.events.append((qual, 'layout:raises %s: %s' % (type(e).__name__, str(e)[:120])))
                return
        finally:
            self.depth -= 1
        got = self._flat_numeric(r2)
        if got is None or len(got) != len(ref_):
            return
        for x, y in zip(ref_, got):
            if x.shape != y.shape:
                self.events.append((qual, 'layout:shape %s vs %s' % (x.shape, y.shape)))
                return
            if x.size and x.dtype.kind in 'fc' or y.dtype.kind in 'fc':
                with np.errstate(all='ignore'):
                    d = np.abs(x.astype(np.complex128) - y.astype(np.complex128))
                    sc = max(1.0, float(np.nanmax(np.abs(x))) if x.size else 1.0)
                    bad = np.isfinite(x).all() and (not np.isfinite(y).all() or float(d.max() if d.size else 0.0) > 1e-6 * sc)  # 1e-6: square roots at a spectrum edge amplify eps to ~1e-8
            else:
                bad = not np.array_equal(x, y)
            if bad:
                self.events.append((qual, 'layout:value differs'))
                return

    @staticmethod
    def _snap(x):
        if isinstance(x, np.ndarray):
            return x.copy()
        if hasattr(x, 'detach') and hasattr(x, 'clone') and hasattr(x, 'shape'):
            return x.detach().clone()
        return None

    @staticmethod
    def _changed(x, b):
        try:
            if tuple(x.shape) != tuple(b.shape):
                return True
            if isinstance(x, np.ndarray):
                if x.dtype != b.dtype:
                    return True
                return x.tobytes() != b.tobytes() if x.dtype.kind != 'O' else False
            import torch
            return not bool(torch.equal(x.detach(), b)) and not bool(torch.isnan(b).any() if b.is_floating_point() or b.is_complex() else False)
        except Exception:
            return False

    def _wrap(self, f, qual):
        import functools
        guard = self

        @functools.wraps(f)
        def wrapper(*a, **kw):
            if guard.depth > 0:
                return f(*a, **kw)
            before = [(i, x, guard._snap(x)) for i, x in enumerate(a)] + [(k, x, guard._snap(x)) for k, x in kw.items()]
            guard.depth += 1
            try:
                r = f(*a, **kw)
            finally:
                guard.depth -= 1
            for i, x, b in before:
                if b is not None and guard._changed(x, b):
                    guard.events.append((qual, i))
            if guard.layout_prefixes and any(qual.startswith(p) for p in guard.layout_prefixes):
                guard._layout_check(f, qual, a, kw, r)
            return r
        wrapper.__immutability_guard__ = True
        return wrapper

    def install(self):
        import types
        mods = [(n, m) for n, m in list(sys.modules.items()) if m is not None and (n == 'numqi' or n.startswith('numqi.'))]
        wrappers = {}
        for n, m in mods:
            if not any(n == p or n.startswith(p + '.') or n.startswith(p) for p in self.prefixes):
                continue
            for k, v in list(vars(m).items()):
                if isinstance(v, types.FunctionType) and (v.__module__ or '').startswith('numqi') and not k.startswith('_') \
                        and not getattr(v, '__immutability_guard__', False):
                    qual = '%s.%s' % (v.__module__, v.__name__)
                    if qual in self.exclude or v.__name__.endswith('_'):
                        continue
                    if id(v) not in wrappers:
                        wrappers[id(v)] = self._wrap(v, qual)
        for n, m in mods:
            for k, v in list(vars(m).items()):
                w = wrappers.get(id(v))
                if w is not None:
                    try:
                        setattr(m, k, w)
                    except Exception:
                        pass
        self.installed = len(wrappers)
        return self

    def drain(self):
        ev, self.events = self.events, []
        return ev


class UninitSeam:
    """Uninitialised memory is an environment answer: while active, np.empty / np.empty_like / torch.empty / torch.empty_like
    (looked up through the module namespaces, as numqi does) return buffers filled with a harness-chosen value instead of
    whatever the allocator recycles. Code that fully overwrites its buffers is unaffected; code whose result depends on
    uninitialised memory becomes deterministic and visible (NaN, or a difference between two fills)."""

    def __init__(self, fill=float('nan'), int_fill=-(2**31) + 12345):
        self.fill = fill
        self.int_fill = int_fill
        self.calls = 0

    def _fill_np(self, a):
        if a.size and a.dtype.kind in 'fc':
            a[...] = self.fill
        elif a.size and a.dtype.kind in 'iu':
            a[...] = self.int_fill if a.dtype.kind == 'i' and a.dtype.itemsize >= 4 else 113
        return a

    def __enter__(self):
        import torch
        seam = self
        self._saved = (np.empty, np.empty_like, torch.empty, torch.empty_like)
        r_empty, r_empty_like, t_empty, t_empty_like = self._saved

        def empty(*a, **k):
            seam.calls += 1
            return seam._fill_np(r_empty(*a, **k))

        def empty_like(*a, **k):
            seam.calls += 1
            return seam._fill_np(r_empty_like(*a, **k))

        def _fill_t(t):
            if t.numel() and (t.is_floating_point() or t.is_complex()):
                t.fill_(seam.fill)
            elif t.numel() and t.dtype != torch.bool:
                t.fill_(113)
            return t

        def tempty(*a, **k):
            seam.calls += 1
            return _fill_t(t_empty(*a, **k))

        def tempty_like(*a, **k):
            seam.calls += 1
            return _fill_t(t_empty_like(*a, **k))
        np.empty, np.empty_like, torch.empty, torch.empty_like = empty, empty_like, tempty, tempty_like
        return self

    def __exit__(self, *exc):
        import torch
        np.empty, np.empty_like, torch.empty, torch.empty_like = self._saved
        return False
