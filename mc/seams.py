"""Seams through which the harness owns nondeterminism (installed from outside numqi; no hooks in /repo).

* StubGenerator  : numpy Generator whose choice()/integers() answers come from a harness list (environment answers)
* StubRandom     : random.Random whose randint()/randrange()/getrandbits() answers come from a harness list
* EntropySeam    : context manager; every construction of a generator *without a seed* anywhere (np.random.default_rng(),
                   default_rng(None), random.Random(), SeedSequence()) is logged and answered with a harness-chosen stream.
* clear_numqi_caches : cache_clear() on every lru_cache reachable from the numqi modules
"""
import functools
import random
import sys
import time

import numpy as np

_real_default_rng = np.random.default_rng
_real_Random = random.Random


class StubExhausted(Exception):
    pass


class StubGenerator(np.random.Generator):
    """Generator accepted by numqi.random.get_numpy_rng (isinstance check) whose discrete draws are harness answers."""

    def __init__(self, answers=(), fallback_seed=12345):
        super().__init__(np.random.PCG64(fallback_seed))
        self.answers = list(answers)
        self.log = []

    def _next(self):
        if not self.answers:
            raise StubExhausted('no harness answer left')
        return self.answers.pop(0)

    def choice(self, a, size=None, replace=True, p=None, axis=0, shuffle=True):
        self.log.append(('choice', a if isinstance(a, int) else len(a), None if p is None else np.array(p, dtype=np.float64).copy(), size))
        ans = self._next()
        if size is not None:
            return np.asarray(ans)
        return ans

    def integers(self, low, high=None, size=None, dtype=np.int64, endpoint=False):
        self.log.append(('integers', low, high, size))
        ans = self._next()
        if size is None:
            return ans
        return np.asarray(ans, dtype=dtype).reshape(size)


class StubRandom(_real_Random):
    def __init__(self, answers=(), fallback_seed=12345):
        super().__init__(fallback_seed)
        self.answers = list(answers)
        self.log = []

    def _next(self, what, *args):
        self.log.append((what,) + args)
        if not self.answers:
            raise StubExhausted('no harness answer left')
        return self.answers.pop(0)

    def randint(self, a, b):
        return self._next('randint', a, b)

    def randrange(self, start, stop=None, step=1):
        return self._next('randrange', start, stop, step)

    def getrandbits(self, k):
        return self._next('getrandbits', k)


ENTROPY_DRAWS = [0]  # total number of unseeded generator constructions answered by any seam (read by the ownership oracle)


def rng_fingerprint():
    """cheap fingerprint of every source of randomness a 'pure' call must not touch"""
    st = np.random.get_state(legacy=True)
    fp = [ENTROPY_DRAWS[0], int(st[2]), int(st[1][0]), int(st[1][-1]), hash(random.getstate()[1][-1:] + random.getstate()[1][:2])]
    try:
        import torch
        t = torch.get_rng_state()
        fp.append(bytes(t[:24].numpy().tobytes()) + bytes(t[-16:].numpy().tobytes()))
    except Exception:
        pass
    return fp


class EntropySeam:
    """While active, unseeded generator constructions are logged in self.hits and seeded with `stream`."""

    def __init__(self, stream=0):
        self.stream = int(stream)
        self.hits = []
        self._count = 0

    def _site(self):
        f = sys._getframe(2)
        while f is not None:
            fn = f.f_code.co_filename.replace('\\', '/')
            if '/numqi/' in fn and not fn.endswith('random/_public.py'):
                return '%s:%s' % (fn.split('/numqi/', 1)[1], f.f_code.co_name)
            f = f.f_back
        return 'outside-numqi'

    def __enter__(self):
        seam = self

        def default_rng(seed=None):
            if seed is None:
                seam.hits.append(('np.random.default_rng', seam._site()))
                seam._count += 1
                ENTROPY_DRAWS[0] += 1
                return _real_default_rng([777, seam.stream, seam._count])
            return _real_default_rng(seed)

        class _Meta(type):
            def __instancecheck__(cls, inst):  # real Random objects made outside the seam stay Random objects
                return isinstance(inst, _real_Random)

        class Random(_real_Random, metaclass=_Meta):
            def __init__(self, x=None):
                if x is None:
                    seam.hits.append(('random.Random', seam._site()))
                    seam._count += 1
                    ENTROPY_DRAWS[0] += 1
                    x = 777000 + 1000 * seam.stream + seam._count
                super().__init__(x)
        self._saved = (np.random.default_rng, random.Random)
        np.random.default_rng = default_rng
        random.Random = Random
        return self

    def __exit__(self, *exc):
        np.random.default_rng, random.Random = self._saved
        return False


def clear_numqi_caches():
    n = 0
    for name, mod in list(sys.modules.items()):
        if not (name == 'numqi' or name.startswith('numqi.')) or mod is None:
            continue
        for attr in list(vars(mod).values()):
            cc = getattr(attr, 'cache_clear', None)
            if callable(cc):
                try:
                    cc()
                    n += 1
                except Exception:
                    pass
    try:
        import numqi.sim.clifford as _c
        _c._basic_clifford_dagger_f2_cache.clear()
    except Exception:
        pass
    return n


def reset_global_rngs(seed=0):
    import torch
    np.random.seed(seed)
    random.seed(seed)
    torch.manual_seed(seed)


# Public numqi functions that return a shared, cached array by design of the pinned tree (functools.lru_cache on a function
# that returns an ndarray). Writing into such a result corrupts later calls; this exists on the unchanged tree, lies outside
# the quantifiers of the properties concerned (inputs, not mutation histories) and is documented in DESIGN.md 9.3 as a known
# limit: the result-aliasing oracle skips exactly these functions (the overwritten-by-a-later-call oracle still applies).
SHARED_RESULT_FUNCTIONS = {
    'numqi.gellmann.all_gellmann_matrix',
    'numqi.group._symmetric.get_sym_group_num_irrep',
    'numqi.group._symmetric.get_symmetric_group_cayley_table',
    'numqi.matrix_space._clebsch_gordan.get_clebsch_gordan_coeffient',
    # error / operator lists whose entries are the module-level constants numqi.gate.X / Y / Z themselves
    'numqi.qec._qecc.parse_simple_pauli',
    'numqi.qec._internal.make_error_list',
    'numqi.qec._internal.make_asymmetric_error_set',
    # public functions decorated directly with functools.lru_cache that return arrays (or containers of arrays)
    'numqi.gate._pauli.get_pauli_group',
    'numqi.matrix_space._hierarchy.get_antisymmetric_basis',
    'numqi.matrix_space._hierarchy.get_symmetric_basis',
    'numqi.matrix_space._hierarchy.naive_antisym_sym_projector',
    'numqi.matrix_space._hierarchy.get_antisymmetric_basis_index',
    'numqi.matrix_space._hierarchy.get_symmetric_basis_index',
    'numqi.entangle.symext.get_symmetric_extension_index_list',
    'numqi.entangle.symext.get_cvxpy_transpose0213_indexing',
}


class ImmutabilityGuard:
    """Oracle 'a public numqi function does not modify the arrays it is given', installed from outside the package.

    Every plain function defined in the selected numqi modules is replaced (in every numqi module namespace where the same
    function object is bound) by a wrapper that, for calls coming from the harness (call depth 0), snapshots ndarray / tensor
    arguments and compares them after the call. Library-internal calls (depth > 0) are passed through unchecked: internal
    helpers may use scratch buffers by design. Violations are collected in self.events and drained by the engine per case."""

    def __init__(self, prefixes, exclude=(), layout_prefixes=(), own_exclude=(), own=True):
        self.prefixes = tuple(prefixes)
        self.exclude = set(exclude)
        self.layout_prefixes = tuple(layout_prefixes)
        self.own = own                      # result-ownership oracles (see _own_check)
        self.own_exclude = set(own_exclude)  # functions documented / known to return shared (cached) arrays
        self.last = {}                      # qual -> arrays of the previous depth-0 result (strong references)
        self.own_stats = {'recalled': 0, 'skipped_impure': 0, 'skipped_slow': 0, 'skipped_view_of_argument': 0, 'clobber_checked': 0}
        self._sig = {}
        self._fp = None
        self._own_seen = {}
        self.depth = 0
        self.events = []
        self.installed = 0

    # ---- memory-layout metamorphic oracle: the result of a deterministic function must not depend on whether its array
    # arguments are C-contiguous, Fortran-ordered or strided views (opt-in per module prefix)
    @staticmethod
    def _relayout(x):
        if isinstance(x, np.ndarray) and x.ndim >= 2 and 1 < x.size <= 65536 and x.dtype.kind in 'biufc':
            return np.asfortranarray(x) if x.flags['C_CONTIGUOUS'] else np.ascontiguousarray(x)
        if isinstance(x, np.ndarray) and x.ndim == 1 and 1 < x.size <= 65536 and x.dtype.kind in 'biufc':
            return x[::-1].copy()[::-1]  # same values, negative stride (index lists, vectors)
        if hasattr(x, 'detach') and hasattr(x, 'is_contiguous') and getattr(x, 'ndim', 0) >= 2 and 1 < x.numel() <= 65536 and not x.requires_grad:
            if x.is_contiguous():
                return x.transpose(-1, -2).contiguous().transpose(-1, -2)
            return x.contiguous()
        return None

    @staticmethod
    def _flat_numeric(r):
        """list of float64/complex128 arrays of a result, or None if it contains something that cannot be compared"""
        if isinstance(r, np.ndarray):
            return [r] if r.dtype.kind in 'biufc' else None
        if hasattr(r, 'detach') and hasattr(r, 'shape'):
            return [r.detach().cpu().numpy()]
        if isinstance(r, (bool, int, float, complex, np.generic)):
            return [np.asarray(r)]
        if isinstance(r, (tuple, list)):
            out = []
            for y in r:
                z = ImmutabilityGuard._flat_numeric(y)
                if z is None:
                    return None
                out += z
            return out
        return None

    def _layout_check(self, f, qual, a, kw, r):
        import inspect
        try:
            if 'seed' in inspect.signature(f).parameters:
                return
        except (TypeError, ValueError):
            return
        alt_a = [self._relayout(x) for x in a]
        alt_kw = {k: self._relayout(v) for k, v in kw.items()}
        if all(x is None for x in alt_a) and all(v is None for v in alt_kw.values()):
            return
        ref_ = self._flat_numeric(r)
        if ref_ is None:
            return
        a2 = [x if y is None else y for x, y in zip(a, alt_a)]
        kw2 = {k: (kw[k] if alt_kw[k] is None else alt_kw[k]) for k in kw}
        self.depth += 1
        try:
            try:
                r2 = f(*a2, **kw2)
            except Exception as e:
                self.events.append((qual, 'layout:raises %s: %s' % (type(e).__name__, str(e)[:120])))
                return
        finally:
            self.depth -= 1
        got = self._flat_numeric(r2)
        if got is None or len(got) != len(ref_):
            return
        # 1e-6 for double precision (square roots at a spectrum edge amplify eps to ~1e-8); single-precision data: summation order
        # alone moves a cancelling sum of D terms by D*eps32, so the bound scales with the lowest precision among arguments and results
        rel = 1e-6
        for x in list(a) + list(kw.values()) + list(ref_):
            dt = getattr(x, 'dtype', None)
            if dt is not None and str(dt).replace('torch.', '') in ('float32', 'complex64', 'float16', 'bfloat16'):
                rel = 1e4 * float(np.finfo(np.float32).eps)
        for x, y in zip(ref_, got):
            if x.shape != y.shape:
                self.events.append((qual, 'layout:shape %s vs %s' % (x.shape, y.shape)))
                return
            if x.size and x.dtype.kind in 'fc' or y.dtype.kind in 'fc':
                with np.errstate(all='ignore'):
                    d = np.abs(x.astype(np.complex128) - y.astype(np.complex128))
                    sc = max(1.0, float(np.nanmax(np.abs(x))) if x.size else 1.0)
                    bad = np.isfinite(x).all() and (not np.isfinite(y).all() or float(d.max() if d.size else 0.0) > rel * sc)
            else:
                bad = not np.array_equal(x, y)
            if bad:
                self.events.append((qual, 'layout:value differs'))
                return

    # ---- result-ownership oracles. What a public function returns belongs to the caller:
    #  (a) a later call of the same function must not change an earlier result (a scratch / output buffer hoisted to module
    #      scope, a result written into a shared table), and
    #  (b) writing into a result must not change what the same call returns next time (a cache or a module-level table
    #      handed out by reference). (b) is decided by: copy the result, overwrite it in place, repeat the call with the same
    #      (pure) arguments, compare with the copy, restore. Results that are views of an *argument* are the caller's own
    #      memory and are skipped; functions that draw unseeded randomness or receive stateful objects are skipped.
    @staticmethod
    def _arrays_of(r, acc=None, depth=0):
        acc = [] if acc is None else acc
        if isinstance(r, np.ndarray):
            if r.dtype.kind in 'biufc' and r.size:
                acc.append(r)
        elif hasattr(r, 'detach') and hasattr(r, 'untyped_storage'):
            if r.numel():
                acc.append(r)
        elif isinstance(r, (tuple, list)) and depth < 3:
            for y in r:
                ImmutabilityGuard._arrays_of(y, acc, depth + 1)
        elif isinstance(r, dict) and depth < 3:
            for y in r.values():
                ImmutabilityGuard._arrays_of(y, acc, depth + 1)
        return acc

    @staticmethod
    def _pure(x, depth=0):
        if x is None or isinstance(x, (bool, int, float, complex, str, bytes, np.generic)):
            return True
        if isinstance(x, np.ndarray):
            return x.dtype.kind in 'biufcUS'
        if hasattr(x, 'detach') and hasattr(x, 'untyped_storage'):
            return not x.requires_grad
        if isinstance(x, (tuple, list, set, frozenset)) and depth < 4:
            return all(ImmutabilityGuard._pure(y, depth + 1) for y in x)
        if isinstance(x, dict) and depth < 4:
            return all(ImmutabilityGuard._pure(y, depth + 1) for y in x.values())
        return False

    @staticmethod
    def _shares(x, y):
        try:
            if isinstance(x, np.ndarray) and isinstance(y, np.ndarray):
                return bool(np.may_share_memory(x, y))
            if hasattr(x, 'untyped_storage') and hasattr(y, 'untyped_storage'):
                return x.untyped_storage().data_ptr() == y.untyped_storage().data_ptr()
            # numpy view of a tensor or the other way round
            if hasattr(x, 'untyped_storage') and isinstance(y, np.ndarray):
                x, y = y, x
            if isinstance(x, np.ndarray) and hasattr(y, 'untyped_storage') and not y.requires_grad:
                return bool(np.may_share_memory(x, y.detach().numpy()))
        except Exception:
            pass
        return False

    @staticmethod
    def _val(x):
        return x if isinstance(x, np.ndarray) else x.detach().cpu().numpy()

    @staticmethod
    def _differs(x, y):
        """x: reference copy, y: value to compare (numpy arrays)"""
        if x.shape != y.shape:
            return True
        if x.dtype.kind in 'fc' or y.dtype.kind in 'fc':
            with np.errstate(all='ignore'):
                if not np.isfinite(x).all():
                    return False
                if not np.isfinite(y).all():
                    return True
                d = np.abs(x.astype(np.complex128) - y.astype(np.complex128))
                sc = max(1.0, float(np.abs(x).max()) if x.size else 1.0)
                return bool(d.size and float(d.max()) > 1e-6 * sc)
        return not np.array_equal(x, y)

    OWN_PER_SIGNATURE = 4

    @staticmethod
    def _argsig(x, depth=0):
        if isinstance(x, np.ndarray):
            return ('a', x.shape, x.dtype.str, x.flags.c_contiguous)
        if hasattr(x, 'untyped_storage'):
            return ('t', tuple(x.shape), str(x.dtype), bool(x.requires_grad))
        if x is None or isinstance(x, (bool, str)):
            return x
        if isinstance(x, (int, np.integer)):
            return ('i', int(x)) if -8 <= x <= 8 else ('i',)
        if isinstance(x, (float, complex, np.floating, np.complexfloating)):
            return (type(x).__name__,)
        if isinstance(x, (tuple, list, set, frozenset)) and depth < 2:
            return (type(x).__name__, len(x)) + tuple(ImmutabilityGuard._argsig(y, depth + 1) for y in list(x)[:4])
        return (type(x).__name__,)

    def _own_due(self, qual, a, kw):
        """the ownership oracles are structural (which buffer a result lives in depends on the code path, i.e. on shapes,
        dtypes and options, not on values): they are applied to the first OWN_PER_SIGNATURE depth-0 calls of every
        (function, argument signature) of each case; the counters are reset when the engine drains the guard"""
        try:
            key = (qual, tuple(self._argsig(x) for x in a), tuple((k, self._argsig(v)) for k, v in sorted(kw.items())))
            n = self._own_seen.get(key, 0)
        except TypeError:
            return True
        self._own_seen[key] = n + 1
        return n < self.OWN_PER_SIGNATURE

    def _seed_unseeded(self, f, a, kw):
        import inspect
        if f not in self._sig:
            try:
                self._sig[f] = inspect.signature(f)
            except (TypeError, ValueError):
                self._sig[f] = None
        sig = self._sig[f]
        if sig is None:
            return True
        if 'seed' not in sig.parameters:
            return False
        try:
            b = sig.bind(*a, **kw)
            b.apply_defaults()
        except TypeError:
            return True
        sd = b.arguments.get('seed')
        return not isinstance(sd, (int, np.integer)) or isinstance(sd, bool)

    def _clobber_before(self, qual):
        prev = self.last.get(qual)
        if not prev:
            return None
        return [(x, self._val(x).copy()) for x in prev]

    def _clobber_after(self, qual, snaps):
        if snaps is None:
            return
        self.own_stats['clobber_checked'] += 1
        for x, b in snaps:
            try:
                now = self._val(x)
            except Exception:
                continue
            if now.shape != b.shape or now.tobytes() != b.tobytes():
                self.events.append((qual, 'own:clobber'))
                return

    def _own_check(self, f, qual, a, kw, r, dt):
        arrs = self._arrays_of(r)
        # remember this result for (a); bounded size
        if arrs and sum(int(np.prod(x.shape)) for x in arrs) <= 4_000_000:
            self.last[qual] = arrs
        else:
            self.last.pop(qual, None)
        if not arrs or qual in self.own_exclude:
            return
        if dt > 0.05:
            self.own_stats['skipped_slow'] += 1
            return
        if not (all(self._pure(x) for x in a) and all(self._pure(v) for v in kw.values())) or self._seed_unseeded(f, a, kw):
            self.own_stats['skipped_impure'] += 1
            return
        argarrs = self._arrays_of(list(a) + list(kw.values()))
        todo = []
        for x in arrs:
            if isinstance(x, np.ndarray):
                if not x.flags.writeable:
                    continue
            elif x.requires_grad or x.grad_fn is not None:
                continue
            if any(self._shares(x, y) for y in argarrs):
                self.own_stats['skipped_view_of_argument'] += 1
                continue
            todo.append(x)
        if not todo:
            return
        snaps = [self._val(x).copy() for x in todo]
        try:
            for x in todo:
                if isinstance(x, np.ndarray):
                    x[...] = (np.nan if x.dtype.kind in 'fc' else (not bool(x.flat[0]) if x.dtype.kind == 'b' else 113))
                else:
                    import torch
                    with torch.no_grad():
                        if x.is_floating_point() or x.is_complex():
                            x.fill_(float('nan'))
                        elif x.dtype == torch.bool:
                            x.fill_(not bool(x.reshape(-1)[0]))
                        else:
                            x.fill_(113)
            self.depth += 1
            try:
                try:
                    r2 = f(*a, **kw)
                except Exception as e:
                    self.events.append((qual, 'own:recall_raises %s: %s' % (type(e).__name__, str(e)[:100])))
                    return
            finally:
                self.depth -= 1
            self.own_stats['recalled'] += 1
            arrs2 = self._arrays_of(r2)
            idx = {id(x): i for i, x in enumerate(arrs)}
            for x, b in zip(todo, snaps):
                i = idx[id(x)]
                if i >= len(arrs2):
                    continue
                if self._differs(b, self._val(arrs2[i])):
                    self.events.append((qual, 'own:alias'))
                    break
        finally:
            for x, b in zip(todo, snaps):
                try:
                    if isinstance(x, np.ndarray):
                        x[...] = b
                    else:
                        import torch
                        with torch.no_grad():
                            x.copy_(torch.from_numpy(b))
                except Exception:
                    pass

    @staticmethod
    def _snap(x):
        if isinstance(x, np.ndarray):
            return x.copy()
        if hasattr(x, 'detach') and hasattr(x, 'clone') and hasattr(x, 'shape'):
            return x.detach().clone()
        return None

    @staticmethod
    def _changed(x, b):
        try:
            if tuple(x.shape) != tuple(b.shape):
                return True
            if isinstance(x, np.ndarray):
                if x.dtype != b.dtype:
                    return True
                return x.tobytes() != b.tobytes() if x.dtype.kind != 'O' else False
            import torch
            return not bool(torch.equal(x.detach(), b)) and not bool(torch.isnan(b).any() if b.is_floating_point() or b.is_complex() else False)
        except Exception:
            return False

    def _wrap(self, f, qual):
        import functools
        guard = self

        @functools.wraps(f)
        def wrapper(*a, **kw):
            if guard.depth > 0:
                return f(*a, **kw)
            before = [(i, x, guard._snap(x)) for i, x in enumerate(a)] + [(k, x, guard._snap(x)) for k, x in kw.items()]
            own = guard.own and guard._own_due(qual, a, kw)
            prev = guard._clobber_before(qual) if own else None
            # fingerprint before the call = the one taken after the previous wrapped call (if the harness drew from a global
            # generator in between, the call merely looks impure and the repetition is skipped: the safe direction)
            fp0 = (guard._fp if guard._fp is not None else rng_fingerprint()) if own else None
            guard.depth += 1
            t0 = time.perf_counter()
            try:
                r = f(*a, **kw)
            finally:
                guard.depth -= 1
            dt = time.perf_counter() - t0
            for i, x, b in before:
                if b is not None and guard._changed(x, b):
                    guard.events.append((qual, i))
            if not own:
                guard._fp = None
            else:
                guard._clobber_after(qual, prev)
                guard._fp = rng_fingerprint()
                if guard._fp == fp0:
                    guard._own_check(f, qual, a, kw, r, dt)
                else:
                    guard.own_stats['skipped_impure'] += 1  # the call consumed randomness: repeating it is not a repetition
                    guard.last.pop(qual, None)
            if guard.layout_prefixes and any(qual.startswith(p) for p in guard.layout_prefixes):
                guard._layout_check(f, qual, a, kw, r)
            return r
        wrapper.__immutability_guard__ = True
        for attr in ('cache_clear', 'cache_info', 'cache_parameters'):  # keep the lru_cache interface (clear_numqi_caches looks for it)
            if hasattr(f, attr):
                setattr(wrapper, attr, getattr(f, attr))
        return wrapper

    def install(self):
        import types
        mods = [(n, m) for n, m in list(sys.modules.items()) if m is not None and (n == 'numqi' or n.startswith('numqi.'))]
        wrappers = {}
        for n, m in mods:
            if not any(n == p or n.startswith(p + '.') or n.startswith(p) for p in self.prefixes):
                continue
            for k, v in list(vars(m).items()):
                # plain functions and functions decorated directly with functools.lru_cache
                if isinstance(v, (types.FunctionType, functools._lru_cache_wrapper)) and (getattr(v, '__module__', '') or '').startswith('numqi') \
                        and not k.startswith('_') and not getattr(v, '__immutability_guard__', False):
                    qual = '%s.%s' % (v.__module__, v.__name__)
                    if qual in self.exclude or v.__name__.endswith('_'):
                        continue
                    if id(v) not in wrappers:
                        wrappers[id(v)] = self._wrap(v, qual)
        for n, m in mods:
            for k, v in list(vars(m).items()):
                w = wrappers.get(id(v))
                if w is not None:
                    try:
                        setattr(m, k, w)
                    except Exception:
                        pass
        self.installed = len(wrappers)
        return self

    def drain(self):
        self._own_seen = {}
        self.last = {}
        ev, self.events = self.events, []
        return ev


class UninitSeam:
    """Uninitialised memory is an environment answer: while active, np.empty / np.empty_like / torch.empty / torch.empty_like
    (looked up through the module namespaces, as numqi does) return buffers filled with a harness-chosen value instead of
    whatever the allocator recycles. Code that fully overwrites its buffers is unaffected; code whose result depends on
    uninitialised memory becomes deterministic and visible (NaN, or a difference between two fills)."""

    def __init__(self, fill=float('nan'), int_fill=-(2**31) + 12345):
        self.fill = fill
        self.int_fill = int_fill
        self.calls = 0

    def _fill_np(self, a):
        if a.size and a.dtype.kind in 'fc':
            a[...] = self.fill
        elif a.size and a.dtype.kind in 'iu':
            a[...] = self.int_fill if a.dtype.kind == 'i' and a.dtype.itemsize >= 4 else 113
        return a

    def __enter__(self):
        import torch
        seam = self
        self._saved = (np.empty, np.empty_like, torch.empty, torch.empty_like)
        r_empty, r_empty_like, t_empty, t_empty_like = self._saved

        def empty(*a, **k):
            seam.calls += 1
            return seam._fill_np(r_empty(*a, **k))

        def empty_like(*a, **k):
            seam.calls += 1
            return seam._fill_np(r_empty_like(*a, **k))

        def _fill_t(t):
            if t.numel() and (t.is_floating_point() or t.is_complex()):
                t.fill_(seam.fill)
            elif t.numel() and t.dtype != torch.bool:
                t.fill_(113)
            return t

        def tempty(*a, **k):
            seam.calls += 1
            return _fill_t(t_empty(*a, **k))

        def tempty_like(*a, **k):
            seam.calls += 1
            return _fill_t(t_empty_like(*a, **k))
        np.empty, np.empty_like, torch.empty, torch.empty_like = empty, empty_like, tempty, tempty_like
        return self

    def __exit__(self, *exc):
        import torch
        np.empty, np.empty_like, torch.empty, torch.empty_like = self._saved
        return False
