"""Seeded property-breaking changes (/verif/seeded/<id>/{patch.diff,demo.py,meta.json}).

  python -m mc.seeded verify <id> [--tests "<pytest args>"]
        in a scratch worktree of /repo (under /var/tmp, removed afterwards): demo passes without the patch, fails with it,
        and the listed repository tests still pass with it.
  python -m mc.seeded run <id> [--tier quick] [--pids C01,C02]
        applies the patch to /repo (git apply), runs the check(s) of the property it breaks, reverts /repo
        (git checkout -- .) and stores the outcome in /verif/seeded/<id>/result.json
  python -m mc.seeded runall
"""
import argparse
import json
import os
import shutil
import subprocess
import sys
import time

VERIF_DIR = os.path.dirname(os.path.dirname(os.path.abspath(__file__)))
SEEDED = os.path.join(VERIF_DIR, 'seeded')
PY = '/venv/bin/python'


def sh(cmd, cwd=None, env=None, timeout=None):
    p = subprocess.run(cmd, shell=True, cwd=cwd, env=env, stdout=subprocess.PIPE, stderr=subprocess.STDOUT, text=True, timeout=timeout)
    return p.returncode, p.stdout


def verify(sid, tests=None):
    d = os.path.join(SEEDED, sid)
    meta = json.load(open(os.path.join(d, 'meta.json')))
    wt = '/var/tmp/seeded-wt-%s' % sid
    sh('git -C /repo worktree remove --force %s' % wt)
    rc, o = sh('git -C /repo worktree add --detach %s HEAD' % wt)
    assert rc == 0, o
    shutil.copy('/repo/python/numqi/_version.py', wt + '/python/numqi/_version.py')  # generated, git-ignored
    env = dict(os.environ, PYTHONPATH=wt + '/python', PYTHONDONTWRITEBYTECODE='1', OMP_NUM_THREADS='2')
    res = {}
    try:
        rc0, o0 = sh('%s %s/demo.py' % (PY, d), cwd=wt, env=env, timeout=1800)
        res['demo_without_patch_rc'] = rc0
        rc, o = sh('git apply %s/patch.diff' % d, cwd=wt)
        assert rc == 0, 'patch does not apply: ' + o
        rc1, o1 = sh('%s %s/demo.py' % (PY, d), cwd=wt, env=env, timeout=1800)
        res['demo_with_patch_rc'] = rc1
        res['demo_with_patch_tail'] = o1[-600:]
        tests = tests or meta.get('tests_cmd')
        if tests:
            rc2, o2 = sh('%s -m pytest -q -p no:cacheprovider -x %s --deselect tests/test_entangle/test_entangle_cha.py::test_convex_hull_approximation_iterative' % (PY, tests), cwd=wt, env=env, timeout=7200)
            res['tests_with_patch_rc'] = rc2
            res['tests_tail'] = o2[-400:]
            res['tests_cmd'] = tests
    finally:
        sh('git -C /repo worktree remove --force %s' % wt)
        shutil.rmtree(wt, ignore_errors=True)
    res['ok'] = (res.get('demo_without_patch_rc') == 0 and res.get('demo_with_patch_rc') not in (0, None) and res.get('tests_with_patch_rc', 0) == 0)
    json.dump(res, open(os.path.join(d, 'verify.json'), 'w'), indent=1)
    print(json.dumps(res, indent=1))
    return 0 if res['ok'] else 1


def run(sid, tier='quick', pids=None, jobs=None, scratch=False):
    d = os.path.join(SEEDED, sid)
    meta = json.load(open(os.path.join(d, 'meta.json')))
    pids = pids or [meta['property']]
    sc = '/var/tmp/seeded-run-%s' % sid
    if scratch:
        # same thing without touching /repo (used while other work reads /repo): patched copy of /repo/python
        shutil.rmtree(sc, ignore_errors=True)
        os.makedirs(sc)
        shutil.copytree('/repo/python', sc + '/python', ignore=shutil.ignore_patterns('__pycache__'))
        rc, o = sh('patch -p1 < %s/patch.diff' % d, cwd=sc)
        assert rc == 0, 'patch does not apply: ' + o
    else:
        rc, o = sh('git -C /repo status --porcelain --untracked-files=no')
        assert o.strip() == '', '/repo has uncommitted changes:\n' + o
        rc, o = sh('git -C /repo apply %s/patch.diff' % d)
        assert rc == 0, 'patch does not apply to /repo: ' + o
    out = {}
    try:
        for pid in pids:
            t0 = time.time()
            cmd = '%s -m mc.run %s --tier %s' % (PY, pid, tier) + (' --jobs %d' % jobs if jobs else '')
            env = dict(os.environ, VERIF_NO_EVIDENCE='1')
            if scratch:
                env['VERIF_NUMQI_PATH'] = sc + '/python'
            rc, o = sh(cmd, cwd=VERIF_DIR, env=env, timeout=7200)
            lines = [l for l in o.splitlines() if l.startswith('VIOLATION') or l.startswith('    key=')]
            out[pid] = {'exit': rc, 'detected': rc == 1, 'wall_s': round(time.time() - t0, 1), 'violation_lines': lines[:8], 'summary': [l for l in o.splitlines() if l.startswith(pid + ' tier=')][-1:]}
            # keep the first replay file as an artefact
            for l in lines:
                if l.startswith('VIOLATION') and 'replay=' in l:
                    rp = l.split('replay=')[1].strip()
                    if os.path.exists(rp):
                        shutil.copy(rp, os.path.join(d, 'replay_%s.json' % pid))
                    break
    finally:
        if scratch:
            shutil.rmtree(sc, ignore_errors=True)
        else:
            sh('git -C /repo checkout -- .')
    json.dump({'tier': tier, 'applied_to': 'scratch copy of /repo/python' if scratch else '/repo (git apply, reverted afterwards)', 'checks': out}, open(os.path.join(d, 'result.json'), 'w'), indent=1)
    print(json.dumps(out, indent=1))
    return 0


def main():
    ap = argparse.ArgumentParser()
    ap.add_argument('cmd', choices=['verify', 'run', 'runall'])
    ap.add_argument('sid', nargs='?')
    ap.add_argument('--tests', default=None)
    ap.add_argument('--tier', default='quick')
    ap.add_argument('--pids', default=None)
    ap.add_argument('--jobs', type=int, default=None)
    ap.add_argument('--scratch', action='store_true')
    a = ap.parse_args()
    if a.cmd == 'verify':
        sys.exit(verify(a.sid, a.tests))
    if a.cmd == 'run':
        sys.exit(run(a.sid, a.tier, a.pids.split(',') if a.pids else None, a.jobs, a.scratch))
    for sid in sorted(os.listdir(SEEDED)):
        if os.path.exists(os.path.join(SEEDED, sid, 'patch.diff')):
            print('==', sid, flush=True)
            try:
                run(sid, a.tier, None, a.jobs, a.scratch)
            except AssertionError as e:  # e.g. the patch no longer applies after a later repair of numqi: reported, not fatal
                print('   FAILED:', str(e)[:300], flush=True)


if __name__ == '__main__':
    main()
