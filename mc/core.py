"""Core of the bounded exhaustive explorer.

A *check* is a python module in /verif/checks with

    PROPERTY   = 'C07'
    RULE       = '...'            # how cases are enumerated, what is non-trivial
    ASSUMPTIONS= [...]
    def build_cases(tier, seed) -> (cases, info)
        cases: list of JSON-able dicts, simplest first; every one is executed (never sampled)
        info : dict copied into the evidence (bounds, alphabets, exhaustive flag, ...)
    def run_case(case, out, env) -> None
        executes the real numqi code for that case and records into `out`
    def finalize(aggs, out, env) -> None          (optional; cross-case invariants)
    CASE_TIMEOUT = seconds                        (optional; hard wall-clock cap per case)

`out` (class Out) counts states / transitions / lock-step validated traces, hashes the
observed outcomes, and collects violations with a *finding key*.
"""
import hashlib
import json
import os
import sys
import time
import traceback
import zlib
import collections
import multiprocessing
import multiprocessing.connection

import numpy as np

VERIF_DIR = os.path.dirname(os.path.dirname(os.path.abspath(__file__)))


def digest(obj, decimals=6):
    """Stable 64-bit digest of a (nested) observation; floats rounded so that
    bit-level noise does not create fake 'distinct outcomes'."""
    h = hashlib.blake2b(digest_size=8)

    def feed(x):
        if isinstance(x, np.ndarray):
            if x.dtype.kind in 'fc':
                x = np.round(x.astype(np.complex128 if x.dtype.kind == 'c' else np.float64), decimals) + 0.0
            h.update(str(x.shape).encode())
            h.update(str(x.dtype).encode())
            h.update(np.ascontiguousarray(x).tobytes())
        elif isinstance(x, (list, tuple)):
            h.update(b'(')
            for y in x:
                feed(y)
            h.update(b')')
        elif isinstance(x, dict):
            for k in sorted(x, key=str):
                feed(str(k))
                feed(x[k])
        elif isinstance(x, float):
            h.update(repr(round(x, decimals) + 0.0).encode())
        elif isinstance(x, complex):
            h.update(repr(complex(round(x.real, decimals) + 0.0, round(x.imag, decimals) + 0.0)).encode())
        elif hasattr(x, 'detach'):
            feed(x.detach().cpu().numpy())
        elif isinstance(x, np.generic):
            feed(x.item())
        else:
            h.update(repr(x).encode())
    feed(obj)
    return h.hexdigest()


def jsonable(x):
    if isinstance(x, np.ndarray):
        if x.dtype.kind == 'c':
            return {'__complex__': True, 're': x.real.tolist(), 'im': x.imag.tolist()}
        return x.tolist()
    if hasattr(x, 'detach'):
        return jsonable(x.detach().cpu().numpy())
    if isinstance(x, np.generic):
        return jsonable(x.item())
    if isinstance(x, complex):
        return {'__complex__': True, 're': x.real, 'im': x.imag}
    if isinstance(x, dict):
        return {str(k): jsonable(v) for k, v in x.items()}
    if isinstance(x, (list, tuple, set, frozenset)):
        return [jsonable(v) for v in x]
    if isinstance(x, (str, int, float, bool)) or x is None:
        return x
    return repr(x)


def from_jsonable(x):
    """inverse of jsonable for arrays (lists stay lists)."""
    if isinstance(x, dict) and x.get('__complex__'):
        return np.array(x['re']) + 1j * np.array(x['im'])
    return x


class Env:
    def __init__(self, tier, seed):
        self.tier = tier
        self.seed = int(seed)

    def rng(self, *tag):
        """Generator for *generic atoms*: a function of (VERIF_SEED, tag) only."""
        t = zlib.crc32(repr(tag).encode())
        return np.random.default_rng([self.seed, t])


class CaseAborted(BaseException):
    """raised by Out.violation once a case has recorded ABORT_CASE_AFTER violations (BaseException: check code that catches
    Exception around library calls does not swallow it)"""


class Out:
    """Per-case recorder (created in the worker, merged in the parent)."""

    MAX_VIOL_PER_CASE = 200
    ABORT_CASE_AFTER = 5000

    def __init__(self):
        self.states = 0
        self.transitions = 0
        self.traces = 0
        self.evals = 0
        self.outcomes = set()
        self.nontrivial = set()
        self.violations = []
        self._per_key = {}
        self.n_violations = 0
        self.counters = collections.Counter()
        self.sample = None
        self.agg = None

    def state(self, n=1):
        self.states += n

    def trans(self, n=1):
        self.transitions += n
        self.evals += n

    def trace(self, n=1):
        self.traces += n

    def count(self, name, n=1):
        self.counters[name] += n

    def outcome(self, obj, nontrivial=False, pre_digested=False):
        d = obj if pre_digested else digest(obj)
        self.outcomes.add(d)
        if nontrivial:
            self.nontrivial.add(d)

    def violation(self, key, what, **detail):
        self.n_violations += 1
        if self.n_violations == self.ABORT_CASE_AFTER:
            # a broken tree can make every further execution of the case slower and slower (e.g. state leaking between the
            # objects a case builds); the property is already decided for this case, so it stops here. Never reached on a tree
            # where the property holds (no violation is recorded at all).
            self.counters['case_stopped_after_%d_violations' % self.ABORT_CASE_AFTER] += 1
            raise CaseAborted()
        self._per_key[key] = self._per_key.get(key, 0) + 1
        # every violation is counted; at most 3 records per finding key (and 200 per case) are materialised
        if self._per_key[key] <= 3 and len(self.violations) < self.MAX_VIOL_PER_CASE:
            self.violations.append({'key': key, 'what': what, 'detail': jsonable(detail)})

    def check(self, cond, key, what, **detail):
        if not cond:
            self.violation(key, what, **detail)
        return bool(cond)

    def export(self):
        return {
            'states': self.states, 'transitions': self.transitions, 'traces': self.traces, 'evals': self.evals,
            'outcomes': self.outcomes, 'nontrivial': self.nontrivial, 'violations': self.violations,
            'n_violations': self.n_violations, 'per_key': dict(self._per_key), 'counters': dict(self.counters), 'sample': self.sample, 'agg': self.agg,
        }


def pure_call(out, key, fn, *args, **kwargs):
    """call a function that must not modify its arguments: ndarray / tensor arguments are snapshotted before the call and
    compared afterwards (an in-place update of the caller's array is invisible in the returned value of a single call)"""
    def snap(a):
        if isinstance(a, np.ndarray):
            return a.copy()
        if hasattr(a, 'detach') and hasattr(a, 'clone'):
            return a.detach().clone()
        return None
    before = [snap(a) for a in args]
    kbefore = {k: snap(v) for k, v in kwargs.items()}
    ret = fn(*args, **kwargs)
    for i, (a, b) in enumerate(list(zip(args, before)) + [(kwargs[k], kbefore[k]) for k in kwargs]):
        if b is None:
            continue
        same = (tuple(a.shape) == tuple(b.shape)) and bool((a == b).all() if a.size else True)
        if not same and not (isinstance(a, np.ndarray) and a.dtype.kind in 'fc' and np.array_equal(a, b, equal_nan=True)):
            out.violation(key + '/argument_modified', '%s modified its argument %d in place' % (getattr(fn, '__name__', 'function'), i), argument_before=b, argument_after=a)
    return ret


class Rejected(Exception):
    """raised by a check when the input is outside the admissible domain"""


def numqi_frames(tb):
    ret = []
    for fs in traceback.extract_tb(tb):
        fn = fs.filename.replace('\\', '/')
        if '/numqi/' in fn and '/verif/' not in fn:
            ret.append((fn.split('/numqi/', 1)[1], fs.name, fs.lineno))
    return ret


def exc_site(exc):
    """(file, func) of the innermost numqi frame of an exception, or None"""
    fr = numqi_frames(exc.__traceback__)
    if fr:
        return fr[-1][0], fr[-1][1]
    return None


def exc_outer_site(exc):
    fr = numqi_frames(exc.__traceback__)
    if fr:
        return fr[0][0], fr[0][1]
    return None


def is_precondition_assert(exc):
    """An AssertionError raised textually inside the *public function that was called*
    (outermost numqi frame == innermost numqi frame): argument validation."""
    if not isinstance(exc, AssertionError):
        return False
    fr = numqi_frames(exc.__traceback__)
    return len(fr) == 1


_GUARDS = {}


def _get_guard(mod):
    """checks opt in with  GUARD = ['numqi.sim.state', ...]  (and optionally GUARD_EXCLUDE = ['numqi.x.f', ...])"""
    prefixes = getattr(mod, 'GUARD', None)
    if not prefixes:
        return None
    key = mod.__name__
    if key not in _GUARDS:
        from mc import seams
        import numqi  # noqa
        _GUARDS[key] = seams.ImmutabilityGuard(prefixes, getattr(mod, 'GUARD_EXCLUDE', ()), getattr(mod, 'GUARD_LAYOUT', ()),
                                               own_exclude=tuple(getattr(mod, 'GUARD_OWN_EXCLUDE', ())) + tuple(seams.SHARED_RESULT_FUNCTIONS),
                                               own=getattr(mod, 'GUARD_OWN', True)).install()
    return _GUARDS[key]


def _execute_case(mod, case, env):
    out = Out()
    t0 = time.time()
    try:
        guard = _get_guard(mod)
        if guard is not None:
            guard.drain()
        # every unseeded generator construction during a case (np.random.default_rng(), random.Random(): e.g. ARPACK start
        # vectors, initial parameters of nn.Modules drawn by numqi) is answered by the harness with a fixed stream, so that a
        # run is a function of (tree, tier, VERIF_SEED) only. Checks that enumerate entropy streams nest their own seam.
        from mc import seams as _seams
        _seams.reset_global_rngs(0)  # legacy global generators (torch.rand initial parameters, np.random) start every case from the same state
        # uninitialised memory (np.empty / torch.empty looked up through the module namespaces) is NaN-filled: a result that
        # depends on it is deterministic and visible
        with _seams.EntropySeam(0), _seams.UninitSeam():
            mod.run_case(case, out, env)
        if guard is not None:
            for qual, idx in guard.drain():
                if isinstance(idx, str) and idx == 'own:clobber':
                    out.violation('ownership/%s/earlier_result_overwritten_by_later_call' % qual,
                                  'a later call of %s changed the array(s) returned by an earlier call (result buffer shared between calls)' % qual)
                elif isinstance(idx, str) and idx.startswith('own:'):
                    out.violation('ownership/%s/result_aliases_library_state' % qual,
                                  '%s hands out library-held memory: after overwriting the returned array(s) in place, the same call returns something else (%s)' % (qual, idx[4:]))
                elif isinstance(idx, str) and idx.startswith('layout:'):
                    out.violation('layout/%s/result_depends_on_memory_layout' % qual,
                                  '%s gives a different result (%s) when its array arguments are handed over in another memory layout (Fortran order / strided view)' % (qual, idx[7:]))
                else:
                    out.violation('immutability/%s/argument_modified' % qual, '%s modified its argument %s in place' % (qual, idx))
    except CaseAborted:
        pass
    except Exception as e:  # safety net: crash inside numqi == violation; crash in harness == harness error
        site = exc_site(e)
        tb = traceback.format_exc()
        if site is not None:
            out.violation('uncaught/%s/%s:%s' % (type(e).__name__, site[0], site[1]),
                          'uncaught %s from numqi %s:%s: %s' % (type(e).__name__, site[0], site[1], str(e)[:200]),
                          traceback=tb[-2000:])
        else:
            out.counters['harness_error'] += 1
            out.agg = None
            ret = out.export()
            ret['harness_error'] = tb
            ret['wall'] = time.time() - t0
            return ret
    ret = out.export()
    ret['wall'] = time.time() - t0
    return ret


def _worker_main(conn, mod, cases, env):
    import signal
    signal.signal(signal.SIGINT, signal.SIG_IGN)
    while True:
        try:
            msg = conn.recv()
        except EOFError:
            return
        if msg is None:
            return
        for idx in msg:
            conn.send(('start', idx))
            res = _execute_case(mod, cases[idx], env)
            conn.send(('done', idx, res))
        conn.send(('idle',))


class _Worker:
    def __init__(self, ctx, mod, cases, env):
        self.parent_conn, child_conn = ctx.Pipe()
        self.proc = ctx.Process(target=_worker_main, args=(child_conn, mod, cases, env), daemon=True)
        self.proc.start()
        child_conn.close()
        self.current = None
        self.started = None
        self.pending = []
        self.idle = True

    def kill(self):
        try:
            self.proc.kill()
            self.proc.join(5)
        except Exception:
            pass
        try:
            self.parent_conn.close()
        except Exception:
            pass


def run_cases(mod, cases, env, jobs=None, case_timeout=None, chunk=None, progress=False, deadline=None):
    """Execute every case; returns (results dict idx->res, capped list, not_run list)."""
    n = len(cases)
    results = {}
    capped = []
    if jobs is None:
        jobs = int(os.environ.get('VERIF_JOBS', '0')) or min(16, os.cpu_count() or 1)
    jobs = max(1, min(jobs, n))
    # once STOP_AFTER_VIOLATIONS violations have come back the property is decided (exit 1); the remaining cases are not started
    # (reported as not run / not exhaustive). A broken tree can make every further case slower without bound (state leaking
    # between objects inside a worker). Never reached on a tree where the property holds.
    stop_after = int(os.environ.get('VERIF_STOP_AFTER_VIOLATIONS', '2000'))
    n_viol_seen = 0
    if jobs == 1 and case_timeout is None:
        for i in range(n):
            if (deadline is not None and time.time() > deadline) or n_viol_seen >= stop_after:
                break
            results[i] = _execute_case(mod, cases[i], env)
            n_viol_seen += results[i].get('n_violations', 0)
        return results, capped, [i for i in range(n) if i not in results]
    if chunk is None:
        chunk = 1 if case_timeout is not None else max(1, min(64, n // (jobs * 8)))
    ctx = multiprocessing.get_context('fork')
    queue = collections.deque(range(n))
    workers = [_Worker(ctx, mod, cases, env) for _ in range(jobs)]
    t_last = time.time()
    try:
        while True:
            stop = (deadline is not None and time.time() > deadline) or n_viol_seen >= stop_after
            for w in workers:
                if w.idle and queue and not stop:
                    ids = [queue.popleft() for _ in range(min(chunk, len(queue)))]
                    w.pending = list(ids)
                    w.idle = False
                    w.current = None
                    w.started = time.time()
                    w.parent_conn.send(ids)
            busy = [w for w in workers if not w.idle]
            if not busy:
                break
            ready = multiprocessing.connection.wait([w.parent_conn for w in busy], timeout=0.5)
            for w in busy:
                if w.parent_conn in ready:
                    try:
                        while w.parent_conn.poll():
                            msg = w.parent_conn.recv()
                            if msg[0] == 'start':
                                w.current = msg[1]
                                w.started = time.time()
                            elif msg[0] == 'done':
                                results[msg[1]] = msg[2]
                                n_viol_seen += msg[2].get('n_violations', 0)
                                if msg[1] in w.pending:
                                    w.pending.remove(msg[1])
                                w.current = None
                            elif msg[0] == 'idle':
                                w.idle = True
                    except (EOFError, OSError):
                        # worker died (segfault / OOM): the case it was on is reported as a crash
                        idx = w.current
                        if idx is not None:
                            results[idx] = {'worker_died': True}
                            if idx in w.pending:
                                w.pending.remove(idx)
                        for j in reversed(w.pending):
                            queue.appendleft(j)
                        w.kill()
                        workers[workers.index(w)] = _Worker(ctx, mod, cases, env)
                        continue
                if (case_timeout is not None) and (not w.idle) and (w.current is not None) \
                        and (time.time() - w.started > case_timeout):
                    idx = w.current
                    capped.append(idx)
                    if idx in w.pending:
                        w.pending.remove(idx)
                    for j in reversed(w.pending):
                        queue.appendleft(j)
                    w.kill()
                    workers[workers.index(w)] = _Worker(ctx, mod, cases, env)
            if progress and time.time() - t_last > 30:
                t_last = time.time()
                print('  .. %d/%d cases done' % (len(results), n), file=sys.stderr, flush=True)
    finally:
        for w in workers:
            try:
                w.parent_conn.send(None)
            except Exception:
                pass
        for w in workers:
            w.proc.join(2)
            if w.proc.is_alive():
                w.kill()
    not_run = [i for i in range(n) if i not in results and i not in capped]
    return results, capped, not_run
