"""Boring reference models (plain dense numpy), independent of numqi.

Conventions shared with the code under test only where the *documentation* fixes them:
  * qubit 0 is the most significant tensor factor (kron order)
  * a phased n-qubit Pauli in binary form is [b0, b1, x_1..x_n, z_1..z_n] and denotes
        i^(2 b0 + b1) * kron_k ( X^x_k Z^z_k )
"""
import functools
import itertools

import numpy as np

I2 = np.eye(2, dtype=np.complex128)
X = np.array([[0, 1], [1, 0]], dtype=np.complex128)
Y = np.array([[0, -1j], [1j, 0]], dtype=np.complex128)
Z = np.array([[1, 0], [0, -1]], dtype=np.complex128)
H = np.array([[1, 1], [1, -1]], dtype=np.complex128) / np.sqrt(2)
S = np.array([[1, 0], [0, 1j]], dtype=np.complex128)
T = np.array([[1, 0], [0, np.exp(0.25j * np.pi)]], dtype=np.complex128)
PAULI = {'I': I2, 'X': X, 'Y': Y, 'Z': Z}


def kron(*ops):
    ret = np.ones((1, 1), dtype=np.complex128)
    for x in ops:
        ret = np.kron(ret, x)
    return ret


def embed(op, targets, n, dim=2):
    """dense (dim^n x dim^n) operator acting as `op` on the ordered `targets` (qubit 0 = most
    significant factor) and as the identity elsewhere. Built from kron + explicit axis permutation."""
    targets = [int(t) for t in targets]
    k = len(targets)
    assert len(set(targets)) == k and all(0 <= t < n for t in targets)
    op = np.asarray(op)
    assert op.shape == (dim**k, dim**k)
    rest = [q for q in range(n) if q not in targets]
    full = np.kron(op, np.eye(dim**(n - k)))  # acts on factor order: targets..., rest...
    order = targets + rest  # current factor j holds qubit order[j]
    t = full.reshape([dim] * (2 * n))
    # we want axis q (row) to be qubit q: axis position of qubit q in current layout
    pos = [order.index(q) for q in range(n)]
    t = t.transpose(pos + [n + p for p in pos])
    return t.reshape(dim**n, dim**n)


def controlled(op, controls, targets, n):
    """(1 - P) + P * embed(op) with P the all-ones projector on the control qubits"""
    controls = [int(c) for c in controls]
    assert not (set(controls) & set(int(t) for t in targets))
    P = np.eye(2**n, dtype=np.complex128)
    p1 = np.array([[0, 0], [0, 1]], dtype=np.complex128)
    for c in controls:
        P = P @ embed(p1, [c], n)
    return (np.eye(2**n) - P) + P @ embed(op, targets, n)


def partial_trace(rho, dims, keep):
    """explicit contraction: nested loops over the traced indices"""
    dims = [int(d) for d in dims]
    keep = [int(k) for k in keep]
    n = len(dims)
    t = np.asarray(rho).reshape(dims + dims)
    drop = [i for i in range(n) if i not in keep]
    dk = int(np.prod([dims[i] for i in keep])) if keep else 1
    out = np.zeros([dims[i] for i in keep] * 2, dtype=np.result_type(rho, np.float64))
    for idx in itertools.product(*[range(dims[i]) for i in drop]):
        sl = [slice(None)] * (2 * n)
        for i, v in zip(drop, idx):
            sl[i] = v
            sl[n + i] = v
        out = out + t[tuple(sl)]
    # axes of out are the kept subsystems in ascending order; reorder to `keep` order
    asc = sorted(keep)
    perm = [asc.index(k) for k in keep]
    out = out.transpose(perm + [len(keep) + p for p in perm])
    return out.reshape(dk, dk)


# ------------------------------------------------------------------ Pauli group (binary form)
def pauli_dense(f2):
    f2 = [int(v) for v in f2]
    n = (len(f2) - 2) // 2
    ret = np.ones((1, 1), dtype=np.complex128)
    for k in range(n):
        m = np.linalg.matrix_power(X, f2[2 + k]) @ np.linalg.matrix_power(Z, f2[2 + n + k])
        ret = np.kron(ret, m)
    return (1j ** (2 * f2[0] + f2[1])) * ret


def all_f2(n, with_phase=True):
    m = 2 * n + (2 if with_phase else 0)
    return np.array(list(itertools.product([0, 1], repeat=m)), dtype=np.uint8)


def f2_index(f2):
    """integer index of a binary vector (big endian) - the reference's own numbering"""
    f2 = np.asarray(f2).astype(np.int64)
    w = 1 << np.arange(f2.shape[-1])[::-1]
    return f2 @ w


@functools.lru_cache(maxsize=None)
def pauli_table(n):
    """all 4^(n+1) phased Paulis: (f2 array [N,2n+2], dense [N,2^n,2^n], lookup dict bytes->index)"""
    f2 = all_f2(n)
    dense = np.stack([pauli_dense(v) for v in f2])
    lookup = {}
    for i, m in enumerate(dense):
        lookup[_mkey(m)] = i
    assert len(lookup) == len(f2)
    return f2, dense, lookup


def _mkey(m):
    return (np.round(m.real * 2).astype(np.int8).tobytes() + np.round(m.imag * 2).astype(np.int8).tobytes())


def dense_to_pauli_index(m, n, tol=1e-9):
    """index (into pauli_table(n)) of the dense matrix m, or None if m is not a phased Pauli"""
    f2, dense, lookup = pauli_table(n)
    i = lookup.get(_mkey(m))
    if i is None or np.abs(dense[i] - m).max() > tol:
        return None
    return i


@functools.lru_cache(maxsize=None)
def pauli_mul_table(n):
    """MUL[i,j] = index of P_i P_j, computed from dense products"""
    f2, dense, lookup = pauli_table(n)
    N = len(f2)
    ret = np.zeros((N, N), dtype=np.int32)
    for i in range(N):
        prod = dense[i] @ dense  # (N,d,d)
        for j in range(N):
            ret[i, j] = lookup[_mkey(prod[j])]
    return ret


def conj_action_table(U, n, dagger_first=True):
    """for every phased Pauli P_i: index of U^dagger P_i U (dagger_first) or U P_i U^dagger.
    Returns int array [N] or raises ValueError if U is not Clifford."""
    f2, dense, lookup = pauli_table(n)
    Ud = U.conj().T
    if dagger_first:
        out = np.einsum('ab,ibc,cd->iad', Ud, dense, U)
    else:
        out = np.einsum('ab,ibc,cd->iad', U, dense, Ud)
    ret = np.zeros(len(f2), dtype=np.int32)
    for i in range(len(f2)):
        j = dense_to_pauli_index(out[i], n, tol=1e-8)
        if j is None:
            raise ValueError('not a Clifford unitary')
        ret[i] = j
    return ret


def symplectic_form(n):
    L = np.zeros((2 * n, 2 * n), dtype=np.uint8)
    L[:n, n:] = np.eye(n, dtype=np.uint8)
    L[n:, :n] = np.eye(n, dtype=np.uint8)
    return L


@functools.lru_cache(maxsize=None)
def all_symplectic(n):
    """all of Sp(2n,F2) by brute-force filtering of binary matrices (n<=2)"""
    assert n <= 2
    m = 2 * n
    L = symplectic_form(n).astype(np.int64)
    bits = np.array(list(itertools.product([0, 1], repeat=m * m)), dtype=np.int64).reshape(-1, m, m)
    tmp = (bits @ L @ bits.transpose(0, 2, 1)) % 2
    ok = np.all(tmp == L, axis=(1, 2))
    return bits[ok].astype(np.uint8)


def sp_order(n):
    ret = 2 ** (n * n)
    for i in range(1, n + 1):
        ret *= (4 ** i - 1)
    return ret


CLIFFORD_GATES = {
    'X': X, 'Y': Y, 'Z': Z, 'H': H, 'S': S,
    'CX': np.block([[I2, 0 * I2], [0 * I2, X]]),
    'CY': np.block([[I2, 0 * I2], [0 * I2, Y]]),
    'CZ': np.block([[I2, 0 * I2], [0 * I2, Z]]),
}


def clifford_history_unitary(gates, n):
    """gates: list of (name, q) / (name, control, target); later gates multiply from the left"""
    U = np.eye(2**n, dtype=np.complex128)
    for g in gates:
        U = embed(CLIFFORD_GATES[g[0]], list(g[1:]), n) @ U
    return U


def canon_mod_phase(U):
    """canonical representative of U modulo a global phase (first entry of largest modulus made real positive)"""
    flat = U.reshape(-1)
    k = int(np.argmax(np.abs(flat) > 1e-6))
    ph = flat[k] / abs(flat[k])
    V = U / ph
    return (np.round(V.real * 1e4).astype(np.int32).tobytes() + np.round(V.imag * 1e4).astype(np.int32).tobytes())


# ------------------------------------------------------------------ states / misc
def is_psd(m, tol):
    m = (m + m.conj().T) / 2
    return np.linalg.eigvalsh(m)[0] >= -tol


def trace_norm(m):
    return np.linalg.svd(m, compute_uv=False).sum()


def partial_transpose(rho, dims, sys=1):
    dA, dB = dims
    t = rho.reshape(dA, dB, dA, dB)
    if sys == 1:
        t = t.transpose(0, 3, 2, 1)
    else:
        t = t.transpose(2, 1, 0, 3)
    return t.reshape(dA * dB, dA * dB)


def haar_unitary(rng, d):
    a = rng.normal(size=(d, d)) + 1j * rng.normal(size=(d, d))
    q, r = np.linalg.qr(a)
    ph = np.diag(r) / np.abs(np.diag(r))
    return q * ph


def rand_state(rng, d):
    v = rng.normal(size=d) + 1j * rng.normal(size=d)
    return v / np.linalg.norm(v)


def rand_dm(rng, d, rank=None):
    rank = d if rank is None else rank
    a = rng.normal(size=(d, rank)) + 1j * rng.normal(size=(d, rank))
    m = a @ a.conj().T
    return m / np.trace(m).real
