"""Runner:  python -m mc.run C07 [--tier quick|thorough] [--replay path] [--jobs N] [--list]
            python -m mc.run --selftest

exit 0  property held on everything explored (known findings are printed, not failed)
exit 1  at least one violation whose finding key is not listed in known_findings.json
exit 2  harness error (never a verdict)
"""
import os
import sys

# ---- environment ownership: must happen before numpy/torch are imported -------------------
_ENV = {'OMP_NUM_THREADS': '1', 'MKL_NUM_THREADS': '1', 'OPENBLAS_NUM_THREADS': '1', 'NUMEXPR_NUM_THREADS': '1',
        'PYTHONHASHSEED': '0', 'PYTHONDONTWRITEBYTECODE': '1', 'NUMQI_VERIF': '1', 'CUDA_VISIBLE_DEVICES': ''}
if any(os.environ.get(k) != v for k, v in _ENV.items()) and os.environ.get('_MC_REEXEC') != '1':
    os.environ.update(_ENV)
    os.environ['_MC_REEXEC'] = '1'
    os.execv(sys.executable, [sys.executable, '-m', 'mc.run'] + sys.argv[1:])
sys.dont_write_bytecode = True

import argparse
import importlib
import json
import re
import time
import warnings

VERIF_DIR = os.path.dirname(os.path.dirname(os.path.abspath(__file__)))
NUMQI_PATH = os.environ.get('VERIF_NUMQI_PATH', '/repo/python')
sys.path.insert(0, NUMQI_PATH)
if VERIF_DIR not in sys.path:
    sys.path.insert(1, VERIF_DIR)

warnings.filterwarnings('ignore')


def _import_numqi():
    import numpy  # noqa
    import torch
    torch.set_num_threads(1)
    import numqi
    real = os.path.realpath(numqi.__file__)
    if not real.startswith(os.path.realpath(NUMQI_PATH) + os.sep):
        print('HARNESS ERROR: numqi imported from %s, expected under %s' % (real, NUMQI_PATH))
        sys.exit(2)
    return numqi


CHECKS = {
    'C01': 'checks.c01_manifold', 'C02': 'checks.c02_jacobian', 'C03': 'checks.c03_simgate', 'C04': 'checks.c04_gradient',
    'C05': 'checks.c05_separable', 'C06': 'checks.c06_boundary', 'C07': 'checks.c07_clifford', 'C08': 'checks.c08_pauli',
    'C09': 'checks.c09_spf2', 'C10': 'checks.c10_random', 'C11': 'checks.c11_measure', 'C12': 'checks.c12_channel',
    'C13': 'checks.c13_twoqubit', 'C14': 'checks.c14_group', 'C15': 'checks.c15_lie', 'C16': 'checks.c16_gellmann',
    'C17': 'checks.c17_ptrace', 'C18': 'checks.c18_catalogue', 'C19': 'checks.c19_qecc', 'C20': 'checks.c20_matspace',
}


def sanitize(key):
    return re.sub(r'[^A-Za-z0-9_.=+-]+', '_', key)[:150]


def load_findings():
    path = os.path.join(VERIF_DIR, 'known_findings.json')
    if not os.path.exists(path):
        return []
    with open(path) as fid:
        return json.load(fid).get('findings', [])


def merge_results(mod, cases, results, capped, not_run, env):
    from mc import core
    tot = dict(states=0, transitions=0, traces=0, evals=0)
    outcomes, nontrivial = set(), set()
    counters = {}
    viol_by_key = {}
    n_viol = 0
    aggs = []
    samples = []
    harness_errors = []
    walls = {}
    sample_kinds = {}
    for idx in sorted(results):
        r = results[idx]
        if r.get('worker_died'):
            harness_errors.append('worker died on case %d: %s' % (idx, json.dumps(cases[idx])[:300]))
            continue
        if 'harness_error' in r:
            harness_errors.append('case %d %s\n%s' % (idx, json.dumps(cases[idx])[:300], r['harness_error']))
        for k in tot:
            tot[k] += r[k]
        kk = 'cpu_s[%s]' % cases[idx].get('kind', 'case')
        walls[kk] = walls.get(kk, 0.0) + r.get('wall', 0.0)
        outcomes |= r['outcomes']
        nontrivial |= r['nontrivial']
        for k, v in r['counters'].items():
            counters[k] = counters.get(k, 0) + v
        n_viol += r['n_violations']
        for v in r['violations']:
            if v['key'] not in viol_by_key:
                viol_by_key[v['key']] = dict(v, case_index=idx, case=cases[idx], count=0)
        for k_, n_ in r.get('per_key', {}).items():
            if k_ in viol_by_key:
                viol_by_key[k_]['count'] += n_
        if r['agg'] is not None:
            aggs.append((idx, r['agg']))
        if r['sample'] is not None:
            kk = cases[idx].get('kind', 'case')
            if sample_kinds.get(kk, 0) < (1 if len(sample_kinds) >= 6 else 2) and len(samples) < 12:
                sample_kinds[kk] = sample_kinds.get(kk, 0) + 1
                samples.append(r['sample'])
    # cross-case invariants
    if hasattr(mod, 'finalize') and not harness_errors:
        fin = core.Out()
        try:
            mod.finalize(aggs, fin, env)
        except Exception:
            import traceback
            harness_errors.append('finalize raised\n' + traceback.format_exc())
        tot['states'] += fin.states
        tot['transitions'] += fin.transitions
        tot['traces'] += fin.traces
        tot['evals'] += fin.evals
        outcomes |= fin.outcomes
        nontrivial |= fin.nontrivial
        for k, v in fin.counters.items():
            counters[k] = counters.get(k, 0) + v
        n_viol += fin.n_violations
        for v in fin.violations:
            if v['key'] not in viol_by_key:
                viol_by_key[v['key']] = dict(v, case_index=-1, case={'finalize': True}, count=0)
            viol_by_key[v['key']]['count'] += 1
    for k, v in walls.items():
        counters[k] = round(v, 1)
    if capped:
        counters['capped_cases'] = len(capped)
    if not_run:
        counters['not_run_cases'] = len(not_run)
    return tot, outcomes, nontrivial, counters, viol_by_key, n_viol, samples, harness_errors


def write_evidence(mod, pid, tier, seed, info, tot, outcomes, nontrivial, counters, viol_by_key, n_viol, samples,
                   cases, capped, not_run, wall):
    from mc import core
    if not samples:
        samples = [core.jsonable(c) for c in cases[:3]]
    exhaustive = bool(info.get('exhaustive', False)) and not capped and not not_run
    coverage = {
        'states': int(tot['states']),
        'transitions': int(tot['transitions']),
        'traces_validated_against_impl': int(tot['traces']),
        'evaluations': int(tot['evals']),
        'distinct_outcomes': len(outcomes),
        'distinct_nontrivial': len(nontrivial),
        'rule': mod.RULE,
        'samples': core.jsonable(samples),
        'cases': len(cases),
        'exhaustive': exhaustive,
        'cap_hit': bool(capped or not_run),
        'capped_cases': [core.jsonable(cases[i]) for i in capped[:20]],
        'counters': counters,
        'bounds': core.jsonable({k: v for k, v in info.items() if k != 'exhaustive'}),
        'finding_keys': sorted(viol_by_key),
    }
    ev = {
        'property_id': pid, 'tier': tier, 'seed': int(seed), 'level': getattr(mod, 'LEVEL', 'model_checking'),
        'coverage': coverage, 'assumptions': list(getattr(mod, 'ASSUMPTIONS', [])), 'wall_s': round(wall, 2),
        'violations': int(n_viol),
    }
    if os.environ.get('VERIF_NO_EVIDENCE') == '1' or os.environ.get('VERIF_NUMQI_PATH'):
        return ev  # runs against a mutated tree / scratch copy never overwrite the evidence of the real tree
    os.makedirs(os.path.join(VERIF_DIR, 'evidence'), exist_ok=True)
    path = os.path.join(VERIF_DIR, 'evidence', pid + '.json')
    tmp = path + '.tmp'
    with open(tmp, 'w') as fid:
        json.dump(ev, fid, indent=1, sort_keys=True)
        fid.write('\n')
    os.replace(tmp, path)
    # <pid>.json is always the last run; a copy per tier is kept as well so that the last quick and the last thorough run
    # of the committed tree can both be inspected
    path_t = os.path.join(VERIF_DIR, 'evidence', '%s.%s.json' % (pid, tier))
    with open(path_t + '.tmp', 'w') as fid:
        json.dump(ev, fid, indent=1, sort_keys=True)
        fid.write('\n')
    os.replace(path_t + '.tmp', path_t)
    return ev


def report_violations(pid, viol_by_key, tier, seed):
    """print VIOLATION / KNOWN-FINDING lines, write replay files; return exit code"""
    from mc import core
    known = {f['key']: f for f in load_findings() if f.get('property') == pid and f.get('status') == 'known'}
    code = 0
    printed_known = set()
    n_detail = 0
    rdir = os.path.join(VERIF_DIR, 'replays', pid)
    for key in sorted(viol_by_key, key=lambda k: (viol_by_key[k]['case_index'], k)):
        v = viol_by_key[key]
        if key in known:
            if key not in printed_known:
                printed_known.add(key)
                print('KNOWN-FINDING: property=%s %s [key=%s, %d case(s) this run]' % (pid, known[key]['what'], key, v['count']))
            continue
        os.makedirs(rdir, exist_ok=True)
        path = os.path.join(rdir, sanitize(key) + '.json')
        with open(path, 'w') as fid:
            json.dump({'property': pid, 'key': key, 'what': v['what'], 'tier': tier, 'seed': int(seed),
                       'case': core.jsonable(v['case']), 'detail': v['detail'], 'count_in_run': v['count']}, fid, indent=1)
            fid.write('\n')
        print('VIOLATION property=%s replay=%s' % (pid, path))
        n_detail += 1
        if n_detail <= 12:
            print('    key=%s count=%d :: %s' % (key, v['count'], v['what'][:300]))
        code = 1
    return code


def run_check(pid, tier, seed, jobs=None, only=None, max_seconds=None, quiet=False):
    from mc import core
    _import_numqi()
    mod = importlib.import_module(CHECKS[pid])
    env = core.Env(tier, seed)
    t0 = time.time()
    rdir = os.path.join(VERIF_DIR, 'replays', pid)
    if os.path.isdir(rdir) and only is None:
        for fn in os.listdir(rdir):  # replay files of earlier runs are stale
            if fn.endswith('.json'):
                os.remove(os.path.join(rdir, fn))
    cases, info = mod.build_cases(tier, seed)
    if only is not None:
        cases = [c for c in cases if only in json.dumps(c)]
    if hasattr(mod, 'prepare'):
        mod.prepare(env)  # warm tables before the fork
    deadline = (t0 + max_seconds) if max_seconds else None
    results, capped, not_run = core.run_cases(mod, cases, env, jobs=jobs, case_timeout=getattr(mod, 'CASE_TIMEOUT', None),
                                              chunk=getattr(mod, 'CHUNK', None), progress=not quiet, deadline=deadline)
    tot, outcomes, nontrivial, counters, viol_by_key, n_viol, samples, herr = merge_results(mod, cases, results, capped, not_run, env)
    wall = time.time() - t0
    if herr:
        print('HARNESS ERROR in %s (%d):' % (pid, len(herr)))
        for h in herr[:3]:
            print(h)
        return 2
    if tot['states'] < 1 or tot['transitions'] < 1:
        print('HARNESS ERROR: vacuous run (states=%d transitions=%d)' % (tot['states'], tot['transitions']))
        return 2
    ev = write_evidence(mod, pid, tier, seed, info, tot, outcomes, nontrivial, counters, viol_by_key, n_viol, samples,
                        cases, capped, not_run, wall)
    code = report_violations(pid, viol_by_key, tier, seed)
    c = ev['coverage']
    print('%s tier=%s seed=%d cases=%d states=%d transitions=%d traces=%d distinct_outcomes=%d nontrivial=%d '
          'violations=%d exhaustive=%s capped=%d wall=%.1fs' % (pid, tier, seed, len(cases), c['states'], c['transitions'],
          c['traces_validated_against_impl'], c['distinct_outcomes'], c['distinct_nontrivial'], n_viol, c['exhaustive'],
          len(capped) + len(not_run), wall))
    if counters:
        print('   counters: ' + ', '.join('%s=%s' % kv for kv in sorted(counters.items())))
    return code


def replay(pid, path):
    """plain re-execution of one recorded case, without the explorer"""
    from mc import core
    _import_numqi()
    mod = importlib.import_module(CHECKS[pid])
    with open(path) as fid:
        rec = json.load(fid)
    env = core.Env(rec.get('tier', 'quick'), rec.get('seed', 0))
    if hasattr(mod, 'prepare'):
        mod.prepare(env)
    res = core._execute_case(mod, rec['case'], env)
    if 'harness_error' in res:
        print('HARNESS ERROR\n' + res['harness_error'])
        return 2
    keys = sorted({v['key'] for v in res['violations']})
    if rec['key'] in keys:
        v = [v for v in res['violations'] if v['key'] == rec['key']][0]
        print('VIOLATION property=%s replay=%s' % (pid, path))
        print('    reproduced key=%s :: %s' % (rec['key'], v['what'][:400]))
        return 1
    if keys:
        print('recorded key %s not reproduced, but other violations: %s' % (rec['key'], keys))
        print('VIOLATION property=%s replay=%s' % (pid, path))
        return 1
    print('replay %s: case passes (states=%d transitions=%d)' % (path, res['states'], res['transitions']))
    return 0


def selftest():
    """setup_cmd: imports, evidence schema, determinism of the engine on a toy space."""
    from mc import core
    _import_numqi()
    import jsonschema
    for name in ('MANIFEST',):
        sch = '/root/.vp/%s.schema.json' % name
        p = os.path.join(VERIF_DIR, name + '.json')
        if os.path.exists(sch) and os.path.exists(p):
            jsonschema.validate(json.load(open(p)), json.load(open(sch)))
    missing = []
    for pid, m in CHECKS.items():
        if os.path.exists(os.path.join(VERIF_DIR, m.replace('.', '/') + '.py')):
            importlib.import_module(m)
        else:
            missing.append(pid)
    a = core.digest([1.0, (2, 3), {'a': 1e-9}])
    b = core.digest([1.0, (2, 3), {'a': 2e-9}])
    assert a == b
    print('selftest ok; checks not present: %s' % (missing,))
    return 0


def main():
    ap = argparse.ArgumentParser()
    ap.add_argument('pid', nargs='?')
    ap.add_argument('--tier', default=os.environ.get('VERIF_TIER', 'quick'), choices=['quick', 'thorough'])
    ap.add_argument('--seed', type=int, default=int(os.environ.get('VERIF_SEED', '0')))
    ap.add_argument('--jobs', type=int, default=None)
    ap.add_argument('--replay', default=None)
    ap.add_argument('--only', default=None, help='debug: keep cases whose JSON contains this substring')
    ap.add_argument('--max-seconds', type=float, default=None)
    ap.add_argument('--selftest', action='store_true')
    args = ap.parse_args()
    if args.selftest:
        sys.exit(selftest())
    if args.pid not in CHECKS:
        print('unknown property', args.pid)
        sys.exit(2)
    if args.replay:
        sys.exit(replay(args.pid, args.replay))
    sys.exit(run_check(args.pid, args.tier, args.seed, jobs=args.jobs, only=args.only, max_seconds=args.max_seconds))


if __name__ == '__main__':
    main()
