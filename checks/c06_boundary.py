"""C06 - boundaries are exact thresholds and the detection hierarchy is nested (DESIGN.md section 4 / C06).

Mode P + differential. The direction alphabet of each dimension pair (all +-Gell-Mann axes, all G_i +- G_j for i<j<=6, named
states, generic atoms) is enumerated completely.
  thresh : get_density_matrix_boundary / get_ppt_boundary are exact thresholds (both sides, both signs, delta in {1e-6,1e-3}),
           hf_interpolate_dm places a state at the requested Gell-Mann distance, batched == per item.
  order  : for every direction the boundary lengths of all methods are computed and compared pairwise:
           beta_CHA <= beta_(k+1) <= beta_k, beta_k+PPT <= beta_k, beta_boson <= beta_plain, beta_k+PPT <= beta_PPT <= beta_DM,
           beta_1 == beta_DM, beta_1+PPT == beta_PPT  (solver tolerance 1e-4*(1+beta), DESIGN 3.2).
  inner  : outputs of the inner models at *lattice* parameter points (no optimiser) are fed to the outer criteria.
Audit wave (option axes, argument forms, histories):
  thresh : dm_norm= forms (python float, 1-d / 2-d batch, size-1 array and 0-d array broadcast), representatives on and beyond the
           state-space boundary, all five dimension pairs in the quick tier.
  order  : return_info=True of the boundary SDP (vecA is the boundary point, |vecN| = 1, vecN supports the convex set against the CHA
           product states and the boundary points of the other directions / stronger variants), single item / list / real float64 input,
           non-PSD representatives, k=1 with use_boson=True, is_ABk_symmetric_ext on both sides of the reported boundary (declared
           sub-grid), CHA product states fed to is_ppt / exact PPT boundary, generalized-PPT boundary between CHA and PPT, the
           numerical-range SDPs with the Gell-Mann basis as op_list.
  inner  : every inner model against lists of outer tests (bosonic and plain, with PPT for separable states), PureBosonicExt k=4,
           SymmetricExtABkIrrepModel, the naive (swap-constraint) formulation at 2x2.
  cha_hist : CHABoundaryBagging re-use histories x num_init_retry x maxiter x use_tqdm x return_info.
  cheap outer tests: separable-by-construction states (AutodiffCHAREE incl. num_state=2 on 2x2, 2x3, 3x3; CHA product states and
           recombined boundary points) against is_ppt, is_generalized_ppt, check_reduction_witness, check_swap_witness with default eps.
           (PureBosonicExt states are k-extendible, not separable: these criteria need not accept them.)
"""
import itertools

import numpy as np

from mc import core

PROPERTY = 'C06'
GUARD = ['numqi.entangle', 'numqi.gellmann']  # argument-immutability oracle (mc.seams.ImmutabilityGuard)
GUARD_LAYOUT = ['numqi.entangle._misc', 'numqi.gellmann', 'numqi.entangle.ppt.get_ppt_boundary', 'numqi.entangle.ppt.is_ppt', 'numqi.entangle.ppt.is_generalized_ppt']  # memory-layout metamorphic oracle: eigenvalue-based functions only (SDP / LP optima differ by solver tolerance)
LEVEL = 'model_checking'
RULE = ('state = (dimension pair, direction of the alphabet, method variant) or (inner model, lattice parameter point); the direction '
        'alphabet x variant product is enumerated completely; transition = one boundary / criterion evaluation compared with an '
        'independent eigenvalue computation or with the other methods on the same direction; non-trivial = distinct rounded boundary tuples. '
        'Option axes enumerated on top: dm_norm argument forms and boundary / non-PSD representatives (thresh, all 5 dimension pairs); '
        'return_info (dual branch: boundary point and supporting hyperplane), single / list / real-float64 input forms, k=1 bosonic, '
        'feasibility probes rho(beta_k(1-+1e-3)) on a declared direction x variant sub-grid, CHA product states against the outer tests, '
        'generalized-PPT and numerical-range boundaries (order); outer-test lists (k, boson, ppt) and the naive formulation per inner model '
        '(inner); CHABoundaryBagging history {fresh, re-used with num_init_retry 10 / 0} x maxiter {0,3} x use_tqdm x return_info on direction '
        'pairs (cha_hist; a fresh object with num_init_retry=0 has no bag and is not a configuration); every state that is separable by '
        'construction (AutodiffCHAREE lattice states incl. the rank-deficient num_state=2,3 bags, CHA product states and recombined boundary '
        'points) is fed to is_ppt / is_generalized_ppt / check_reduction_witness / check_swap_witness (dimA=dimB) with default thresholds')
ASSUMPTIONS = [
    'solver accuracy band 1e-4*(1+beta) for SDP/LP optima (DESIGN 3.2: measured excess of a +PPT optimum over the exact PPT boundary 7e-6)',
    'threshold sides are probed at relative distance delta in {1e-6, 1e-3}; the eigenvalue there is +-delta/N, far above eps',
    'cvxpy SolverError escaping the library = solver_failed (listed, neither pass nor violation); cases over the wall-clock cap are listed as capped',
    'a feasibility verdict on the inside probe rho(beta_k(1-1e-3)) counts as wrong only if 1e-3*beta_k exceeds the solver band 1e-4*(1+beta_k) (otherwise counted); the outside probe sits at rho(beta_k(1+5e-2)) (ruling: the feasibility SDP accepts up to ~1e-2 beyond the boundary with status optimal_inaccurate; the property promises acceptance inside, not rejection outside) and is fed only where it is still a state (lambda_min > 0)',
    'vecN of return_info=True must support the set within 1e-4*(1+beta+|x-vecA|) (beta and the dual are solver outputs); generalized-PPT boundary: 2*xtol = 2e-5 (documented root-finding tolerance)',
    'identical LP data in one thread give identical optima (1e-9) - used for the use_tqdm / return_info / re-use invariance of CHABoundaryBagging',
    'CHABoundaryBagging.solve(num_init_retry=0) on a re-used object whose bag (left by an earlier solve) does not contain the new ray in its hull: the LP is infeasible, the library reports it as -inf (cvxpy value of an infeasible maximisation) or trips over None; ruled outside the domain (the option skips exactly the initialisation that guarantees feasibility) and counted',
    'SymmetricExtABkIrrepModel(dA, 2, k) is rejected by a nested constructor assert (single irrep block): counted as rejected_by_precondition',
    'an inner-model state rejected by a feasibility SDP is re-examined with the boundary SDP along its own direction: inside by more than the solver band = violation, within the band = counted',
]
CASE_TIMEOUT = 400
CHUNK = 1
SOLVER_TOL = 1e-4
# additions whose oracle fires on the unchanged tree (reported, to be repaired in numqi): the oracle stays in the module, the
# flagged input is skipped and counted as pending/<flag>
PENDING = set()  # isABk_outside and cha_retry0_infeasible were ruled on (ASSUMPTIONS, DESIGN 9.5)


# ------------------------------------------------------------------------------------------------ reference helpers
def gellmann(d):
    out = []
    for i in range(d):
        for j in range(i + 1, d):
            m = np.zeros((d, d), dtype=np.complex128)
            m[i, j] = m[j, i] = 1
            out.append(m)
    for i in range(d):
        for j in range(i + 1, d):
            m = np.zeros((d, d), dtype=np.complex128)
            m[i, j] = -1j
            m[j, i] = 1j
            out.append(m)
    for k in range(1, d):
        m = np.zeros((d, d), dtype=np.complex128)
        m[np.arange(k), np.arange(k)] = 1
        m[k, k] = -k
        out.append(m * np.sqrt(2 / (k * (k + 1))))
    return out


def gm_norm(rho):
    """Euclidean norm of the Bloch vector w.r.t. Tr G_i G_j = 2 delta_ij :  ||rho - 1/N||_F / sqrt(2)"""
    N = rho.shape[-1]
    return np.linalg.norm(rho - np.eye(N) / N, axis=(-2, -1)) / np.sqrt(2)


def ptranspose(rho, dA, dB):
    return rho.reshape(dA, dB, dA, dB).transpose(0, 3, 2, 1).reshape(dA * dB, dA * dB)


def lam_min(m):
    return np.linalg.eigvalsh((m + m.conj().T) / 2)[0]


def point(direction_unit, beta):
    N = direction_unit.shape[0]
    return np.eye(N) / N + beta * direction_unit


_DIRS = {}


def directions(dims, env):
    """list of (label, Hermitian trace-one matrix dm = 1/N + c*op) - only the direction matters"""
    key = (tuple(dims), env.seed, env.tier)
    if key in _DIRS:
        return _DIRS[key]
    import numqi
    dA, dB = dims
    N = dA * dB
    G = gellmann(N)
    out = []
    for i, g in enumerate(G):
        out.append(('+G%d' % i, g))
        out.append(('-G%d' % i, -g))
    for i in range(min(6, len(G))):
        for j in range(i + 1, min(6, len(G))):
            out.append(('G%d+G%d' % (i, j), G[i] + G[j]))
            out.append(('G%d-G%d' % (i, j), G[i] - G[j]))
    # local Gell-Mann products (directions with product structure)
    GA, GB = gellmann(dA), gellmann(dB)
    for i in range(min(3, len(GA))):
        for j in range(min(3, len(GB))):
            out.append(('GA%d(x)GB%d' % (i, j), np.kron(GA[i], GB[j])))
    named = []
    if dA == dB:
        phi = np.eye(dA).reshape(-1) / np.sqrt(dA)
        named.append(('maximally_entangled', np.outer(phi, phi)))
        F = np.zeros((N, N))
        for i in range(dA):
            for j in range(dA):
                F[i * dA + j, j * dA + i] = 1
        named.append(('werner(alpha=1)', (np.eye(N) - F) / (N - dA)))
    if (dA, dB) == (3, 3):
        named.append(('tiles_bes', numqi.entangle.load_upb('tiles', return_bes=True)[1]))
    if (dA, dB) == (2, 4):
        named.append(('horodecki2x4(b=0.3)', numqi.state.get_bes2x4_Horodecki1997(0.3)))
    psi = np.zeros(N)
    psi[0] = psi[-1] = 1 / np.sqrt(2)
    named.append(('ghz_like', np.outer(psi, psi)))
    for lab, rho in named:
        out.append((lab, rho - np.eye(N) / N))
    rng = env.rng('C06', 'dir', dims)
    for a in range(2 if env.tier == 'quick' else 6):
        x = rng.normal(size=(N, N)) + 1j * rng.normal(size=(N, N))
        rho = x @ x.conj().T
        rho /= np.trace(rho).real
        out.append(('generic%d' % a, rho - np.eye(N) / N))
    res = []
    for k_, (lab, op) in enumerate(out):
        op = (op + op.conj().T) / 2
        op = op - np.trace(op) * np.eye(N) / N
        unit = op / (np.linalg.norm(op) / np.sqrt(2))  # Gell-Mann norm 1
        # only the direction matters: the representatives handed to the library have DIFFERENT Gell-Mann norms, so that a
        # batched call that mixes up per-item norms is visible
        res.append((lab, np.eye(N) / N + (0.02 * (1 + k_ % 7)) * unit / N, unit))
    _DIRS[key] = res
    return res


def probe_plan(dims, tier, no, n, ncase):
    """feasibility probes on both sides of a variant's boundary. Close to the boundary the solver (SCS) runs into its 1e5 iteration
    limit, 1..15 s per state, for every k (k=1 included), so the probes cover a declared sub-grid [positions in the case, variant rule]:
      quick    2x2: one direction of each of the last 4 cases (G_i+-G_j, local products, named and generic directions), variant j (k >= 2) of
                    the variant list in case number j mod 4 (single-item and return_info forms in the last case only);  other dims: none
      thorough 2x2: first 2 directions of each case, all variants; 2x3: first direction of every 2nd case, k<=2;
               3x3 / 2x4 / 3x2: first direction of every 8th case, k=1 and bosonic k=2"""
    if tier == 'quick':
        return {'pos': [0], 'rule': 'rr4', 'no': no, 'single': no == ncase - 1} if (dims == (2, 2) and no >= ncase - 4) else {'pos': [], 'rule': 'none', 'no': no}
    if dims == (2, 2):
        return {'pos': list(range(min(2, n))), 'rule': 'all', 'no': no, 'single': True}
    if dims == (2, 3):
        return {'pos': [0] if no % 2 == 0 else [], 'rule': 'k2', 'no': no, 'single': True}
    return {'pos': [0] if no % 8 == 0 else [], 'rule': 'k2boson', 'no': no, 'single': True}


def build_cases(tier, seed):
    dims_list = [(2, 2), (2, 3), (3, 3)] + ([(2, 4), (3, 2)] if tier == 'thorough' else [])
    cases = []
    info = {'dims': [list(d) for d in dims_list], 'dims_threshold_part': [[2, 2], [2, 3], [3, 3], [2, 4], [3, 2]], 'deltas': [1e-6, 1e-3]}
    ndir = {}

    class _E:
        pass
    env = core.Env(tier, seed)
    for dims in dims_list:
        D = directions(dims, env)
        ndir[str(dims)] = len(D)
        cases.append({'kind': 'thresh', 'dims': list(dims)})
    if tier == 'quick':  # eigenvalue-only part is cheap: the asymmetric dimension pairs are in the quick tier too (no SDP ordering there)
        for dims in [(2, 4), (3, 2)]:
            ndir[str(dims)] = len(directions(dims, env))
            cases.append({'kind': 'thresh', 'dims': list(dims)})
    # ordering: chunks of directions; the variant list is enumerated inside the case
    order_dirs = {(2, 2): None, (2, 3): None, (3, 3): None, (2, 4): None, (3, 2): None}
    for dims in dims_list:
        D = directions(dims, env)
        if tier == 'quick':
            # all named + generic + every axis +-G_i (2x2); for larger systems every 3rd axis direction (declared stride)
            idx = [i for i, d in enumerate(D) if not d[0].startswith(('+G', '-G', 'G')) or dims == (2, 2) or i % 3 == 0]
        else:
            idx = list(range(len(D)))
        step = {(2, 2): 12, (2, 3): 6, (3, 2): 6, (3, 3): 3, (2, 4): 3}[dims]
        for a in range(0, len(idx), step):
            chunk = idx[a:a + step]
            cases.append({'kind': 'order', 'dims': list(dims), 'idx': chunk, 'probe': probe_plan(dims, tier, a // step, len(chunk), -(-len(idx) // step))})
        order_dirs[dims] = len(idx)
    info['directions'] = ndir
    info['directions_in_ordering'] = {str(k): v for k, v in order_dirs.items() if v is not None}
    info['kmax'] = {'(2,2)': 3 if tier == 'quick' else 4, '(2,3)': 2 if tier == 'quick' else 3, '(3,3)': 2, '(2,4)': 2, '(3,2)': 2}
    # inner models
    for dims in [(2, 2), (2, 3)] + ([(3, 3)] if tier == 'thorough' else []):
        for ns in (None, 3):
            cases.append({'kind': 'inner_cha', 'dims': list(dims), 'num_state': ns})
    for dims in [(2, 2), (2, 3), (3, 3)]:  # rank <= 2 separable states: eigenvalue criteria only (no SDP), every tier
        cases.append({'kind': 'inner_cha', 'dims': list(dims), 'num_state': 2, 'cheap_only': True})
    for dims in [(2, 2), (2, 3)] + ([(3, 3)] if tier == 'thorough' else []):
        for k in (1, 2, 3, 4) if dims == (2, 2) else (1, 2):  # the statement: k = 1..4
            cases.append({'kind': 'inner_pureb', 'dims': list(dims), 'k': k})
        for k in (2, 3) if (dims == (2, 3) and tier == 'thorough') else (2,):  # dimB = 2 is rejected by the constructor (recorded once)
            cases.append({'kind': 'inner_symext', 'dims': list(dims), 'k': k})
    for dims in [(2, 2)] + ([(2, 3)] if tier == 'thorough' else []):
        for pair in CHA_PAIRS[tier][:None if dims == (2, 2) else 1]:
            cases.append({'kind': 'cha_hist', 'dims': list(dims), 'pair': list(pair)})
    for dims in [(2, 2), (2, 3)]:
        cases.append({'kind': 'model_hist', 'dims': list(dims), 'model': 'cha'})
        for k in (2, 3):
            cases.append({'kind': 'model_hist', 'dims': list(dims), 'model': 'pureb', 'k': k})
    info['model_mode_histories'] = 'all setter sequences of length 2..3 over {set_dm_target(T), set_dm_target(1/N), set_expectation_op(generic), set_expectation_op(diagonal)} on one object, 3 lattice points, against a fresh object with the last setter only'
    info['feasibility_probe_plan'] = probe_plan.__doc__.split('sub-grid [positions in the case, variant rule]:')[1].strip()
    info['cha_history_pairs'] = {'(2,2)': CHA_PAIRS[tier], '(2,3)': CHA_PAIRS[tier][:1] if tier == 'thorough' else []}
    info['return_info_directions_per_case'] = '2, every 2nd case' if tier == 'quick' else 'all'
    info['pending'] = sorted(PENDING)
    info['exhaustive'] = True
    info['note'] = 'the direction alphabet x variant product is enumerated completely within the stated bounds (quick: stride-3 subset of the axis directions for systems larger than 2x2 in the SDP ordering part)'
    return cases, info


def variants(dims, tier):
    dims = tuple(dims)
    kmax = {(2, 2): 3 if tier == 'quick' else 4, (2, 3): 2 if tier == 'quick' else 3, (3, 3): 2, (2, 4): 2, (3, 2): 2}[dims]
    vs = []
    for k in range(1, kmax + 1):
        for boson in (False, True):
            for ppt in (False, True):
                if dims == (3, 3) and k == 2 and not boson and tier == 'quick':
                    continue  # 3x3 k=2 without bosonic symmetry: 81x81 SDP variable, thorough only
                vs.append((k, boson, ppt))  # k=1 with use_boson=True: the only irrep of S_1, must equal the plain k=1 problem
    return vs


def gvec(G, rho):
    """Gell-Mann (Bloch) vector of rho w.r.t. the reference basis G (Tr G_i G_j = 2 delta_ij):  rho = 1/N + sum_i v_i G_i"""
    return np.einsum('kij,...ji->...k', G, rho).real / 2


def stronger(v, w):
    """the set of variant v=(k,boson,ppt) is contained in the set of variant w (more copies / more constraints)"""
    return v[0] >= w[0] and (v[1] or not w[1]) and (v[2] or not w[2])


def _order_forms(out, E, cvxpy, numqi, dims, sel, dms, G, v, b, duals, nri, forms):
    """option / argument-form axes of get_ABk_symmetric_extension_boundary on the directions of one `order` case:
    return_info=True (dual branch: boundary point vecA, unit normal vecN), single 2-d item, list input, real float64 input,
    representatives of the same direction on and beyond the state-space boundary (the docstring: only the direction matters).
    Reference: the default-option batched complex128 call `b` (same SDP: solver band) and exact identities for vecA / vecN."""
    k, boson, ppt = v
    N = dims[0] * dims[1]
    kw = dict(use_ppt=ppt, use_boson=boson, use_tqdm=False)
    fn = 'get_ABk_symmetric_extension_boundary'
    tag = 'k=%d boson=%s ppt=%s' % v

    def band(x):
        return SOLVER_TOL * (1 + abs(x))
    # ---- return_info=True, batched over the first nri directions of the case (quick: 2 directions of every 2nd case, thorough: all)
    sel_all, b_all = sel, b
    sel, dms, b = sel[:nri], dms[:nri], b[:nri]
    try:
        ret = E.get_ABk_symmetric_extension_boundary(dms, dims, k, return_info=True, **kw)
        out.trans(len(sel))
    except cvxpy.error.SolverError:
        out.count('solver_failed')
        ret = None
    if ret is not None:
        ok = isinstance(ret, tuple) and len(ret) == 3
        if ok:
            b2, vA, vN = (np.asarray(x) for x in ret)
            ok = b2.shape == (len(sel),) and vA.shape == (len(sel), N * N - 1) and vN.shape == vA.shape and all(np.isfinite(x).all() for x in (b2, vA, vN))
        if not ok:
            out.violation(fn + '/return_info/layout', '%s: return_info=True must give (beta (n,), vecA (n,N^2-1), vecN (n,N^2-1)), all finite' % tag, dims=dims, dm=dms, ret=ret)
        else:
            for i, (lab, dm, unit) in enumerate(sel):
                if abs(b2[i] - b[i]) > band(b[i]):
                    out.violation(fn + '/return_info/changes_beta', '%s direction %s: beta %.8f with return_info=True, %.8f without' % (tag, lab, b2[i], b[i]), dims=dims, dm=dm)
                # vecA is beta * (unit Bloch vector of the direction): exact identity, eigenvalue-free -> 1e-10
                if np.abs(vA[i] - gvec(G, point(unit, b2[i]))).max() > 1e-10 or np.abs(numqi.gellmann.gellmann_basis_to_dm(vA[i]) - point(unit, b2[i])).max() > 1e-10:
                    out.violation(fn + '/return_info/vecA_is_not_the_boundary_point', '%s direction %s: gellmann_basis_to_dm(vecA) differs from 1/N + beta*unit' % (tag, lab), dims=dims, dm=dm, vecA=vA[i], beta=b2[i])
                if abs(np.linalg.norm(vN[i]) - 1) > 1e-10:
                    out.violation(fn + '/return_info/vecN_not_unit', '%s direction %s: |vecN| = %.12g' % (tag, lab, np.linalg.norm(vN[i])), dims=dims, dm=dm)
            duals[v] = (b2, vA, vN)
            out.count('return_info_variants')
    # ---- single 2-d item (with return_info=True: un-batched layout), list input, real float64 input. The argument forms are
    # normalised before the SDP is set up (variant-independent code path; each call pays the cvxpy set-up again): quick enumerates them
    # for the first variant in every case and for the last variant in every 4th case; thorough: all variants in every 4th case
    if not forms:
        return
    sel, b = sel_all, b_all
    lab0, dm0, unit0 = sel[0]
    try:
        r1 = E.get_ABk_symmetric_extension_boundary(dm0, dims, k, return_info=True, **kw)
        out.trans()
        ok = isinstance(r1, tuple) and len(r1) == 3 and np.ndim(r1[0]) == 0 and np.shape(r1[1]) == (N * N - 1,) and np.shape(r1[2]) == (N * N - 1,)
        if not ok:
            out.violation(fn + '/single_item/layout', '%s: a 2-d rho with return_info=True must give (float, (N^2-1,), (N^2-1,))' % tag, dims=dims, dm=dm0, ret=r1)
        elif abs(float(r1[0]) - b[0]) > band(b[0]):
            out.violation(fn + '/single_item/differs_from_batched', '%s direction %s: single %.8f, batched %.8f' % (tag, lab0, float(r1[0]), b[0]), dims=dims, dm=dm0)
        elif v in duals and (np.abs(r1[1] - duals[v][1][0]).max() > band(b[0])):
            out.violation(fn + '/single_item/vecA_differs_from_batched', '%s direction %s' % (tag, lab0), dims=dims, dm=dm0)
        r2 = E.get_ABk_symmetric_extension_boundary(dm0, dims, k, **kw)
        out.trans()
        if np.ndim(r2) != 0 or abs(float(r2) - b[0]) > band(b[0]):
            out.violation(fn + '/single_item/differs_from_batched', '%s direction %s: single %s, batched %.8f' % (tag, lab0, r2, b[0]), dims=dims, dm=dm0)
        m = min(2, len(sel))
        r3 = np.asarray(E.get_ABk_symmetric_extension_boundary([x.copy() for x in dms[:m]], dims, k, **kw))
        out.trans(m)
        if r3.shape != (m,) or np.abs(r3 - b[:m]).max() > band(b[:m].max()):
            out.violation(fn + '/list_input/differs_from_array', '%s: list of 2-d arrays gives %s, 3-d array %s' % (tag, r3, b[:m]), dims=dims, dm=dms[:m])
        real = [i for i, d in enumerate(sel) if np.abs(d[1].imag).max() == 0]
        if real:
            i = real[0]
            r4 = E.get_ABk_symmetric_extension_boundary(np.ascontiguousarray(sel[i][1].real, dtype=np.float64), dims, k, **kw)
            out.trans()
            out.count('real_float64_input')
            if np.ndim(r4) != 0 or abs(float(r4) - b[i]) > band(b[i]):
                out.violation(fn + '/real_float64_input/differs_from_complex128', '%s direction %s: float64 %s, complex128 %.8f' % (tag, sel[i][0], r4, b[i]), dims=dims, dm=sel[i][1])
        # representatives of direction 0 / 1 on the state-space boundary and beyond it (non-PSD, Hermitian, trace one)
        bu = E.get_density_matrix_boundary(dms[:m])[1]
        reps = np.stack([point(sel[j][2], (1.0, 1.5)[j % 2] * bu[j]) for j in range(m)])
        r5 = np.asarray(E.get_ABk_symmetric_extension_boundary(reps, dims, k, **kw))
        out.trans(m)
        if r5.shape != (m,) or np.abs(r5 - b[:m]).max() > band(b[:m].max()):
            out.violation(fn + '/representative/boundary_or_non_psd_representative_differs', '%s: representatives at beta_DM and 1.5 beta_DM give %s, interior ones %s' % (tag, r5, b[:m]), dims=dims, dm=reps)
    except cvxpy.error.SolverError:
        out.count('solver_failed')


def _order_numerical_range(out, E, cvxpy, dims, sel, G, b_ppt, betas):
    """get_ppt_numerical_range / get_ABk_extension_numerical_range with the complete Gell-Mann basis as op_list: the operators
    fix the state, Tr(rho G_i) = 2 v_i, so the 'range' along the unit Bloch vector n of a direction is twice the boundary length"""
    m = min(2, len(sel))
    nvec = np.stack([gvec(G, sel[j][2]) for j in range(m)])  # unit Bloch vectors

    def cmp(fn, got, ref, tag):
        got = np.asarray(got, dtype=np.float64)
        if got.shape != ref.shape or not np.isfinite(got).all() or np.abs(got - 2 * ref).max() > 2 * SOLVER_TOL * (1 + np.abs(ref).max()):
            out.violation(fn + '/gellmann_op_list_differs_from_boundary', '%s: numerical range %s along the direction, twice the boundary length %s' % (tag, got, 2 * ref), dims=dims, direction=nvec)
    try:
        r = E.get_ppt_numerical_range(list(G), nvec, dims, use_tqdm=False)
        out.trans(m)
        cmp('get_ppt_numerical_range', r, b_ppt[:m], 'batch')
        r = E.get_ppt_numerical_range(G, nvec[0], dims, return_info=True, use_tqdm=False)
        out.trans()
        if not (isinstance(r, tuple) and len(r) == 3 and np.ndim(r[0]) == 0 and np.shape(r[1]) == (len(G),)):
            out.violation('get_ppt_numerical_range/return_info/layout', '1-d direction with return_info=True must give (float, (m,), (m,))', dims=dims, ret=r)
        else:
            cmp('get_ppt_numerical_range', r[0], b_ppt[0], 'single, return_info=True')
            # the boundary vector is Tr(rho G_i) = 2 * beta * n_i
            if np.abs(np.asarray(r[1]) - r[0] * nvec[0]).max() > 2 * SOLVER_TOL * (1 + abs(r[0])):
                out.violation('get_ppt_numerical_range/return_info/boundary_not_on_ray', 'returned boundary vector is not beta * direction', dims=dims, ret=r, direction=nvec[0])
        for v in ((2, False, False), (2, True, True)):
            if v not in betas:
                continue
            r = E.get_ABk_extension_numerical_range(G, nvec, dims, v[0], use_ppt=v[2], use_boson=v[1], use_tqdm=False)
            out.trans(m)
            cmp('get_ABk_extension_numerical_range', r, betas[v][:m], 'k=%d boson=%s ppt=%s' % v)
        out.count('numerical_range_compared')
    except cvxpy.error.SolverError:
        out.count('solver_failed')


def _cheap_outer_tests(out, E, dims, rho, key, what, **detail):
    """the eigenvalue / trace criteria of the flowchart with their DEFAULT thresholds on a state that is separable by construction:
    PPT, generalized PPT, reduction criterion and (dimA == dimB) the swap witness must all accept. Rank-deficient states matter:
    there rho_A (x) 1 - rho and the partial transpose have exact zero eigenvalues, so the sign of the default eps decides.
    key % name gives the finding key."""
    tests = [('is_ppt', lambda: E.is_ppt(rho, dims)), ('is_generalized_ppt', lambda: E.is_generalized_ppt(rho, dims)),
             ('check_reduction_witness', lambda: E.check_reduction_witness(rho, dims))]
    if dims[0] == dims[1]:
        tests.append(('check_swap_witness', lambda: E.check_swap_witness(rho)))
    for name, f in tests:
        r = f()
        out.trans()
        if not (isinstance(r, (bool, np.bool_)) and bool(r)):
            out.violation(key % name, '%s: %s with default thresholds returns %r for a separable state' % (what, name, r), dims=dims, rho=rho, **detail)
    out.count('cheap_outer_tests_on_separable_states')


def _cha_products_vs_outer(out, E, dims, kA, kB, lab, dm, nmax=None):
    """every product state kA[i] (x) kB[i] of a CHA decomposition is fed to the outer tests: PPT, and (being a pure product state,
    i.e. a boundary point of the PPT set) its Gell-Mann norm does not exceed the exact PPT / state-space boundary along its own
    direction. Eigenvalue computations on a rank-one projector: 1e-10 like the other exact comparisons of this module."""
    kA, kB = kA[:nmax], kB[:nmax]  # quick: the first 8 product states of each decomposition, thorough: all
    ab = np.einsum('ki,kj->kij', kA, kB).reshape(len(kA), -1)
    proj = np.einsum('ki,kj->kij', ab, ab.conj())
    nrm = gm_norm(proj)
    bp = E.get_ppt_boundary(proj, dims)[1]
    bd = E.get_density_matrix_boundary(proj)[1]
    out.trans(2)
    for i in range(len(proj)):
        out.count('cha_product_states_fed_to_outer_tests')
        if not E.is_ppt(proj[i], dims):
            out.violation('CHABoundaryBagging.solve/product_state/rejected_by_is_ppt', 'product state %d of the decomposition along %s is not PPT' % (i, lab), dims=dims, dm=dm, ketA=kA[i], ketB=kB[i])
        if i < 4:  # the remaining eigenvalue criteria on the first 4 product states of each decomposition (PPT: all of them)
            _cheap_outer_tests(out, E, dims, proj[i], 'CHABoundaryBagging.solve/product_state/rejected_by_%s', 'product state %d of the decomposition along %s' % (i, lab), ketA=kA[i], ketB=kB[i])
        if not (nrm[i] <= bp[i] + 1e-10 * (1 + nrm[i]) and nrm[i] <= bd[i] + 1e-10 * (1 + nrm[i])):
            out.violation('CHABoundaryBagging.solve/product_state/beyond_ppt_boundary', 'product state %d along %s: Gell-Mann norm %.12f, PPT boundary %.12f, state-space boundary %.12f along its own direction'
                          % (i, lab, nrm[i], bp[i], bd[i]), dims=dims, dm=dm, ketA=kA[i], ketB=kB[i])


def _order_hyperplanes(out, dims, sel, duals, pool):
    """vecN of return_info=True is documented as the normal vector of the boundary: the k-extendible set is convex, so
    vecN.(x - vecA) <= 0 for every x of the set. x ranges over: the maximally mixed state, every product state returned by the CHA
    solves of this case (separable: inside every variant's set), the boundary points (vecA) of the other directions for the same
    variant and of every stronger variant (more copies / bosonic / PPT). Band: beta and the dual are solver outputs, |vecN| = 1:
    SOLVER_TOL * (1 + beta + |x - vecA|)."""
    for v, (b2, vA, vN) in duals.items():
        X = np.concatenate([pool] + [duals[w][1] for w in duals if stronger(w, v)])
        for i, (lab, dm, unit) in enumerate(sel[:len(b2)]):
            d = X - vA[i]
            exc = d @ vN[i] - SOLVER_TOL * (1 + abs(b2[i]) + np.linalg.norm(d, axis=1))
            out.trans()
            j = int(np.argmax(exc))
            if exc[j] > 0:
                out.violation('get_ABk_symmetric_extension_boundary/return_info/vecN_is_not_a_supporting_hyperplane',
                              'k=%d boson=%s ppt=%s direction %s: a state of the set lies %.3g beyond the returned hyperplane (%s)'
                              % (v + (lab, float(d[j] @ vN[i]), 'maximally mixed state' if j == 0 else 'CHA product state' if j < len(pool) else 'boundary point of another direction / stronger variant')),
                              dims=dims, dm=dm, vecA=vA[i], vecN=vN[i], x=X[j])
            out.count('hyperplane_points_tested', len(X))


def _order_generalized_ppt(out, E, dims, sel, b_cha, b_ppt, b_dm):
    """bipartite generalized-PPT set: contains the separable states and is contained in the PPT set (one of its index splits is the
    partial transpose). Root finding with xtol=1e-5 (documented default): 2*xtol on the exact upper bounds, solver band on the CHA side."""
    for i, (lab, dm, unit) in enumerate(sel):
        bg = E.get_generalized_ppt_boundary(dm, dims)
        out.trans()
        if not np.isfinite(bg):
            out.violation('get_generalized_ppt_boundary/not_finite', 'direction %s: %s' % (lab, bg), dims=dims, dm=dm)
            continue
        if bg > b_ppt[i] + 2e-5 or bg > b_dm[i] + 2e-5:
            out.violation('ordering/beta_genPPT<=beta_PPT', 'direction %s: generalized-PPT boundary %.6f exceeds PPT %.6f / state-space %.6f' % (lab, bg, b_ppt[i], b_dm[i]), dims=dims, dm=dm)
        if np.isfinite(b_cha[i]) and b_cha[i] > bg + 2e-5 + SOLVER_TOL * (1 + abs(bg)):
            out.violation('ordering/beta_CHA<=beta_genPPT', 'direction %s: beta_CHA %.6f exceeds the generalized-PPT boundary %.6f' % (lab, b_cha[i], bg), dims=dims, dm=dm)


def _order_feasibility(out, E, cvxpy, dims, sel, betas, b_dm, b_ppt, probe):
    """is_ABk_symmetric_ext on both sides of the boundary the boundary SDP reported: rho(beta_k (1 - 1e-3)) must be accepted,
    rho(beta_k (1 + 1e-3)) - where that is still a state - rejected; batched == single == return_info=True. A wrong verdict is a
    violation only if the probe distance 1e-3 * beta exceeds the solver band SOLVER_TOL * (1 + beta) (otherwise counted)."""
    delta = 1e-3
    fn = 'is_ABk_symmetric_ext'
    vlist = list(betas)
    # probe positions: the plan gives how many directions of the case; directions whose exact PPT boundary lies below the state-space
    # boundary come first (there the outside probe of the PPT variants is still a state), ties in enumeration order
    order = sorted(range(len(sel)), key=lambda j: (not b_ppt[j] < b_dm[j] * (1 - 2e-3), j))
    for v, b in betas.items():
        k, boson, ppt = v
        rule = probe.get('rule', 'none')
        take = {'none': False, 'all': True, 'k2': k <= 2, 'k2boson': k == 1 or (k == 2 and boson), 'rr4': k >= 2 and vlist.index(v) % 4 == probe.get('no', 0) % 4}[rule]
        pos = order[:len(probe.get('pos', []))] if take else []
        if not pos:
            continue
        psel = [sel[j] for j in pos]
        out.count('feasibility_probe_variant_x_direction', len(pos))
        kw = dict(use_ppt=ppt, use_boson=boson, use_tqdm=False)
        tag = 'k=%d boson=%s ppt=%s' % v
        bb = np.array([b[j] for j in pos])
        decisive = delta * bb > SOLVER_TOL * (1 + np.abs(bb))
        for side, sgn in (('inside', -1), ('outside', +1)):
            # ruling (DESIGN 9.5): the property promises acceptance of what lies inside; a feasibility SDP that stops with status
            # optimal_inaccurate accepts states up to ~1e-2 relative beyond the boundary the boundary SDP reports (solver accuracy, not
            # a defect: it weakens detection, it does not make a verdict 'entangled' unsound). The outside probe therefore sits at
            # relative distance 5e-2, where an always-accepting test is still caught.
            dl = delta if side == 'inside' else 5e-2
            states = [point(u, x * (1 + sgn * dl)) for (lab, dm, u), x in zip(psel, bb)]
            ok = [j for j, r in enumerate(states) if lam_min(r) > 0]  # the library asserts lambda_min > -1e-6: only genuine states are fed
            out.count('feasibility_probe_%s_not_a_state' % side, len(states) - len(ok))
            if not ok:
                continue
            stack = np.stack([states[j] for j in ok])
            want = side == 'inside'
            try:
                acc = np.asarray(E.is_ABk_symmetric_ext(stack, dims, k, **kw))
                out.trans(len(ok))
                a1 = a2 = None
                if probe.get('single'):
                    # single 2-d item with return_info=True (one extra SDP), plain single call in addition for k=1
                    a2 = E.is_ABk_symmetric_ext(stack[0], dims, k, return_info=True, **kw)
                    a1 = E.is_ABk_symmetric_ext(stack[0], dims, k, **kw) if k == 1 else (a2[0] if isinstance(a2, tuple) else a2)
                    out.trans(2 if k == 1 else 1)
            except cvxpy.error.SolverError:
                out.count('solver_failed')
                continue
            if acc.shape != (len(ok),) or acc.dtype != np.bool_:
                out.violation(fn + '/batch_layout', '%s: a 3-d batch must give a 1-d bool array, got %r' % (tag, acc), dims=dims, rho=stack)
                continue
            lab0 = psel[ok[0]][0]
            if a2 is not None and (np.ndim(a1) != 0 or bool(a1) != bool(acc[0])):
                out.violation(fn + '/single_differs_from_batched', '%s direction %s, %s probe: single %r, batched %r' % (tag, lab0, side, a1, acc[0]), dims=dims, rho=stack[0])
            if a2 is not None and not (isinstance(a2, tuple) and len(a2) == 2 and bool(a2[0]) == bool(a1) and ((a2[1] is None) == (not a2[0]))):
                out.violation(fn + '/return_info_changes_verdict', '%s direction %s, %s probe: return_info=True gives %r, plain call %r' % (tag, lab0, side, a2[0] if isinstance(a2, tuple) else a2, a1), dims=dims, rho=stack[0])
            for j, a in zip(ok, acc):
                out.outcome((dims, v, side, bool(a)), nontrivial=True)
                if bool(a) == want:
                    continue
                if decisive[j]:
                    out.violation(fn + ('/rejects_inside_boundary' if want else '/accepts_outside_boundary'),
                                  '%s direction %s: rho(beta*(1%+g)) with beta=%.6f from the boundary SDP is %s' % (tag, psel[j][0], sgn * dl, bb[j], 'rejected' if want else 'accepted'), dims=dims, rho=states[j])
                else:
                    out.count('feasibility_probe_within_solver_band')


def _thresh_options(out, E, dims, D, dms, bl, bu, res):
    """dm_norm= argument forms (1-d batch, 2-d batch, size-1 array / scalar broadcast over a batch of equal norms) and representatives of
    the same directions on the state-space boundary (rank deficient) and beyond it (Hermitian, trace one, not PSD): the functions
    document that they return the boundary along the direction, so all must equal the default call. Exact eigenvalue arithmetic:
    1e-12 relative for the same matrices, 1e-10 for re-scaled representatives (as for the other exact comparisons of this module)."""
    N = dims[0] * dims[1]
    n = len(D)
    K = n - n % 2
    nrm = gm_norm(dms)
    units = np.stack([d[2] for d in D])
    eq = np.eye(N) / N + 0.05 * units  # every item has Gell-Mann norm 0.05

    def same(got, ref, tol, key, what, **kw):
        ok = all(np.shape(g) == np.shape(r) and np.isfinite(g).all() and np.abs(np.asarray(g) - np.asarray(r)).max() <= tol * (1 + np.abs(r).max()) for g, r in zip(got, ref))
        if not ok:
            out.violation(key, what, dims=dims, got=[np.asarray(g) for g in got], ref=[np.asarray(r) for r in ref], **kw)
    fns = [('get_density_matrix_boundary', lambda x, **kw: E.get_density_matrix_boundary(x, **kw), (bl, bu))]
    for wd in (True, False):
        fns.append(('get_ppt_boundary', (lambda x, wd=wd, **kw: E.get_ppt_boundary(x, dims, within_dm=wd, **kw)), res[wd]))
    for fn, f, ref in fns:
        same(f(dms, dm_norm=nrm), ref, 1e-12, fn + '/dm_norm/batch_differs_from_default', 'dm_norm=<1-d array of the Gell-Mann norms> differs from dm_norm=None')
        ref2 = tuple(r[:K].reshape(K // 2, 2) for r in ref)
        same(f(dms[:K].reshape(K // 2, 2, N, N), dm_norm=nrm[:K].reshape(K // 2, 2)), ref2, 1e-12, fn + '/dm_norm/batch2d_differs_from_default', 'dm_norm=<2-d array> with a 2-d batch differs from dm_norm=None')
        base = f(eq)
        same(base, ref, 1e-10, fn + '/representative/equal_norm_representatives_differ', 'the representatives 1/N + 0.05*unit give another boundary than the enumerated ones')
        for form, val in (('python float', 0.05), ('size-1 array', np.array([0.05])), ('0-d array', np.array(0.05))):
            same(f(eq, dm_norm=val), base, 1e-12, fn + '/dm_norm/size1_broadcast_differs_from_default', 'dm_norm=%s broadcast over a batch of equal-norm items differs from dm_norm=None' % form, dm_norm=val)
        same(f(eq[0], dm_norm=np.array([0.05])), tuple(b[0] for b in base), 1e-12, fn + '/dm_norm/size1_array_single_item', 'dm_norm=array([0.05]) with one 2-d item differs from dm_norm=None')
        for rep, fac in (('on the state-space boundary', 1.0), ('beyond the state-space boundary (not PSD)', 1.5)):
            reps = np.eye(N) / N + (fac * bu)[:, None, None] * units
            same(f(reps), ref, 1e-10, fn + '/representative/boundary_or_non_psd_representative_differs', 'representatives %s give another boundary than the interior ones' % rep)
        out.trans(10)
    out.count('dm_norm_forms_compared', 3 * 6)


CHA_PAIRS = {'quick': [('+G0', 'ghz_like'), ('ghz_like', 'G0-G1')], 'thorough': [('+G0', 'ghz_like'), ('ghz_like', 'G0-G1'), ('GA0(x)GB0', '-G2'), ('-G1', 'GA1(x)GB2')]}


def _cha_history(case, out, env, E, cvxpy, dims):
    """CHABoundaryBagging option / re-use histories on a pair (A, B) of real directions:
        history in {fresh object; object that solved A before, num_init_retry=10; the same with num_init_retry=0 (B starts from A's bag)}
        x maxiter in {0, 3} x use_tqdm x return_info,  equal seed for every solve of B.
    (a fresh object with num_init_retry=0 has no bag to start from: not a configuration.)
    Oracles: feasible point (decomposition reproduces rho_B(beta), product states pass the outer tests), beta <= exact PPT boundary,
    use_tqdm / return_info do not change beta for an equal seed, and with num_init_retry>0 the earlier solve leaves no trace (== fresh).
    Identical LP data in one thread give identical optima: 1e-9; feasibility: the LP band of the `order` part."""
    import contextlib
    import io
    N = dims[0] * dims[1]
    D = {d[0]: d for d in directions(dims, env)}
    (la, dmA, uA), (lb, dmB, uB) = D[case['pair'][0]], D[case['pair'][1]]
    b_ppt = E.get_ppt_boundary(dmB, dims)[1]
    fn = 'CHABoundaryBagging.solve'
    res = {}
    for hist in ('fresh', 'reused_retry10', 'reused_retry0'):
        for maxiter in (0, 3):
            for tq in (False, True):
                for ri in (False, True):
                    out.state()
                    cfg = (hist, maxiter, tq, ri)
                    try:
                        model = E.CHABoundaryBagging(dims)
                        if hist != 'fresh':
                            model.solve(dmA, maxiter=3, seed=11)
                        with contextlib.redirect_stderr(io.StringIO()):
                            r = model.solve(dmB, maxiter=maxiter, num_init_retry=0 if hist == 'reused_retry0' else 10, use_tqdm=tq, return_info=ri, seed=5)
                        out.trans()
                    except cvxpy.error.SolverError:
                        out.count('solver_failed[cha]')
                        continue
                    except (RuntimeError, AssertionError):
                        out.count('cha_no_initial_state')  # the library's own failure signals (no feasible bag)
                        continue
                    except TypeError as e:
                        # num_init_retry=0 with a bag (left by the solve of A) whose hull misses the ray of B: the LP is infeasible, cvxpy
                        # reports -inf / lambda None and the iteration / return_info code trips over None
                        if hist == 'reused_retry0':
                            out.count('outside_domain/retry0_on_a_bag_whose_hull_misses_the_ray')  # ruling, see ASSUMPTIONS
                        else:
                            out.violation(fn + '/history/infeasible_bag/TypeError', 'history %s maxiter=%d use_tqdm=%s return_info=%s: %r' % (cfg + (e,)), dims=dims, dmA=dmA, dmB=dmB)
                        continue
                    beta = r[0] if ri else r
                    if hist == 'reused_retry0' and beta is not None and np.isneginf(beta):
                        if True:
                            out.count('outside_domain/retry0_on_a_bag_whose_hull_misses_the_ray')
                        else:
                            out.violation(fn + '/history/infeasible_bag/returns_minus_inf', 'history %s maxiter=%d use_tqdm=%s return_info=%s: an infeasible LP is reported as boundary length -inf instead of a failure' % cfg, dims=dims, dmA=dmA, dmB=dmB)
                        continue
                    if ri != isinstance(r, tuple) or beta is None or not np.isfinite(beta):
                        out.violation(fn + '/history/result_layout', 'history %s maxiter=%d use_tqdm=%s return_info=%s: returned %r' % (cfg + (r,)), dims=dims, dmA=dmA, dmB=dmB)
                        continue
                    res[cfg] = float(beta)
                    out.outcome((dims, case['pair'], hist, maxiter, round(float(beta), 6)), nontrivial=True)
                    tol_lp = max(SOLVER_TOL, model.num_state * 1e-5)  # see the `order` part
                    if beta > b_ppt + tol_lp * (1 + abs(b_ppt)):
                        out.violation('ordering/beta_CHA<=beta_PPT', 'history %s maxiter=%d use_tqdm=%s return_info=%s, direction %s: beta_CHA=%.6f exceeds beta_PPT=%.6f' % (cfg + (lb, beta, b_ppt)), dims=dims, dm=dmB)
                    if ri:
                        kA, kB, lam, hist_beta = r[1]
                        ab = np.einsum('ki,kj->kij', kA, kB).reshape(len(lam), N)
                        rec = np.einsum('k,ki,kj->ij', lam, ab, ab.conj())
                        if abs(lam.sum() - 1) > tol_lp or lam.min() < -1e-9 or np.abs(rec - point(uB, beta)).max() > tol_lp:
                            out.violation(fn + '/decomposition_does_not_reproduce_boundary_point', 'history %s maxiter=%d use_tqdm=%s: product states and weights do not recombine to rho_B(beta) (diff %.3g, sum(lambda)-1 = %.3g)'
                                          % (hist, maxiter, tq, np.abs(rec - point(uB, beta)).max(), lam.sum() - 1), dims=dims, dmA=dmA, dm=dmB)
                        if len(hist_beta) != maxiter + 1 or hist_beta[-1] != beta:
                            out.violation(fn + '/history/beta_history_layout', 'beta_history must hold maxiter+1 optima ending with beta; got %r, beta=%r' % (hist_beta, beta), dims=dims, dm=dmB)
                        _cha_products_vs_outer(out, E, dims, kA, kB, lb, dmB)
    for (hist, maxiter, tq, ri), beta in res.items():
        ref = res.get((hist, maxiter, False, False))
        if ref is not None and abs(beta - ref) > 1e-9 * (1 + abs(ref)):
            out.violation(fn + '/history/option_changes_beta', 'history %s maxiter=%d: use_tqdm=%s return_info=%s gives beta=%.10f, the plain call %.10f (equal seed)' % (hist, maxiter, tq, ri, beta, ref), dims=dims, dmA=dmA, dm=dmB)
        ref = res.get(('fresh', maxiter, tq, ri))
        if hist == 'reused_retry10' and ref is not None and abs(beta - ref) > 1e-9 * (1 + abs(ref)):
            out.violation(fn + '/history/earlier_solve_leaks_into_later', 'maxiter=%d use_tqdm=%s return_info=%s: an object that solved direction %s before gives beta=%.10f for %s, a fresh object %.10f (equal seed, num_init_retry=10)'
                          % (maxiter, tq, ri, la, beta, lb, ref), dims=dims, dmA=dmA, dm=dmB)
    out.count('cha_history_configurations', len(res))
    out.trace()
    out.sample = {'kind': 'cha_hist', 'dims': list(dims), 'pair': case['pair'], 'configurations': len(res)}


def _model_history(case, out, env, E, dims):
    """mode histories on ONE inner-model object: the loss after any sequence of set_dm_target (T) / set_expectation_op (E) calls must be
    the loss of a fresh object that only received the last call (the boundary / numerical-range drivers re-use one object this way)"""
    import torch
    from checks.c01_manifold import theta_lattice
    dA, dB = dims
    N = dA * dB
    rng = env.rng('C06', 'model_hist', dims, case['model'])
    psi = rng.normal(size=N) + 1j * rng.normal(size=N)
    psi /= np.linalg.norm(psi)
    targets = {'T': 0.6 * np.eye(N) / N + 0.4 * np.outer(psi, psi.conj()), 't': np.eye(N) / N}
    h0 = rng.normal(size=(N, N)) + 1j * rng.normal(size=(N, N))
    ops = {'E': h0 + h0.conj().T, 'e': np.diag(np.arange(N, dtype=np.float64)).astype(np.complex128)}

    def make():
        if case['model'] == 'pureb':
            return E.PureBosonicExt(dA, dB, case['k'], distance_kind='gellmann')
        return E.AutodiffCHAREE(dims, distance_kind='gellmann')

    def apply(m, letter):
        if letter in targets:
            m.set_dm_target(targets[letter])
        else:
            m.set_expectation_op(ops[letter])

    def loss_at(m, row):
        params = list(m.parameters())
        off = 0
        with torch.no_grad():
            for p_ in params:
                p_.copy_(torch.tensor(row[off:off + p_.numel()].reshape(p_.shape), dtype=p_.dtype))
                off += p_.numel()
            with np.errstate(all='ignore'):
                return float(m())
    m0 = make()
    n = sum(p_.numel() for p_ in m0.parameters())
    rows = [r for r in theta_lattice(n, 2.0, rng, 2) if np.abs(r).max() > 0][:3]
    hists = [''.join(h) for L in (1, 2, 3) for h in itertools.product('TtEe', repeat=L)]
    fresh = {}
    for ri, row in enumerate(rows):
        for letter in 'TtEe':
            m = make()
            apply(m, letter)
            fresh[(ri, letter)] = loss_at(m, row)
    nbad = 0
    for h in hists:
        if len(h) == 1:
            continue
        m = make()
        for letter in h:
            apply(m, letter)
        for ri, row in enumerate(rows):
            out.state()
            out.trans()
            got, want = loss_at(m, row), fresh[(ri, h[-1])]
            out.outcome((case['model'], dims, h[-1], ri, round(want, 8) if np.isfinite(want) else None), nontrivial=True)
            if not np.isfinite(want):
                out.count('outside_math_domain')
                continue
            if not (abs(got - want) <= 1e-12 * (1 + abs(want))) and nbad < 6:
                nbad += 1
                out.violation('%s/mode_history/loss_depends_on_earlier_mode' % type(m).__name__,
                              '%s after the setter history %s has loss %.12g at a lattice point; a fresh object with only the last setter has %.12g (T/t = set_dm_target, E/e = set_expectation_op)'
                              % (type(m).__name__, h, got, want), dims=dims, history=h, theta=row)
        out.trace()
    out.sample = {'kind': 'model_hist', 'model': case['model'], 'dims': list(dims), 'histories': len(hists), 'points': len(rows)}


def run_case(case, out, env):
    import numqi
    import cvxpy
    kind = case['kind']
    dims = tuple(case['dims'])
    dA, dB = dims
    N = dA * dB
    E = numqi.entangle
    if kind == 'thresh':
        D = directions(dims, env)
        dms = np.stack([d[1] for d in D])
        units = [d[2] for d in D]
        # ---- batched calls (1-d and 2-d batch) and per item
        bl, bu = E.get_density_matrix_boundary(dms)
        out.trans()
        K = len(D) - (len(D) % 2)
        bl2, bu2 = E.get_density_matrix_boundary(dms[:K].reshape(K // 2, 2, N, N))
        out.trans()
        if bl2.shape != (K // 2, 2) or np.abs(bl2.reshape(-1) - bl[:K]).max() > 1e-12 or np.abs(bu2.reshape(-1) - bu[:K]).max() > 1e-12:
            out.violation('get_density_matrix_boundary/batch2d_differs', '2-d batch differs from 1-d batch', dims=dims)
        res = {}
        for wd in (True, False):
            pl, pu = E.get_ppt_boundary(dms, dims, within_dm=wd)
            out.trans()
            pl2, pu2 = E.get_ppt_boundary(dms[:K].reshape(K // 2, 2, N, N), dims, within_dm=wd)
            if pl2.shape != (K // 2, 2) or np.abs(pl2.reshape(-1) - pl[:K]).max() > 1e-12 or np.abs(pu2.reshape(-1) - pu[:K]).max() > 1e-12:
                out.violation('get_ppt_boundary/batch2d_differs', '2-d batch differs from 1-d batch (within_dm=%s)' % wd, dims=dims)
            res[wd] = (pl, pu)
        _thresh_options(out, E, dims, D, dms, bl, bu, res)
        for i, (lab, dm, unit) in enumerate(D):
            out.state()
            bli, bui = E.get_density_matrix_boundary(dm)
            out.trans()
            # dm_norm= as a python float for a single item
            nrm_i = float(gm_norm(dm))
            g1 = E.get_density_matrix_boundary(dm, dm_norm=nrm_i)
            g2 = E.get_ppt_boundary(dm, dims, dm_norm=nrm_i)
            out.trans(2)
            for g, ref_, fn in ((g1, (bli, bui), 'get_density_matrix_boundary'), (g2, (res[True][0][i], res[True][1][i]), 'get_ppt_boundary')):
                if np.ndim(g[0]) != 0 or max(abs(g[0] - ref_[0]), abs(g[1] - ref_[1])) > 1e-12 * (1 + abs(ref_[1]) + abs(ref_[0])):
                    out.violation(fn + '/dm_norm/scalar_differs_from_default', 'direction %s: dm_norm=<its Gell-Mann norm> gives %s, dm_norm=None %s' % (lab, g, ref_), dims=dims, dm=dm)
            if abs(bli - bl[i]) > 1e-12 * (1 + abs(bli)) or abs(bui - bu[i]) > 1e-12 * (1 + abs(bui)):
                out.violation('get_density_matrix_boundary/batched_differs_from_single', 'direction %s' % lab, dims=dims, dm=dm)
            if not (bli < 0 < bui):
                out.violation('get_density_matrix_boundary/sign', 'beta_l=%g beta_u=%g for direction %s' % (bli, bui, lab), dims=dims, dm=dm)
                continue
            for beta, nm in ((bui, 'beta_u'), (bli, 'beta_l')):
                for delta in (1e-6, 1e-3):
                    inside = lam_min(point(unit, beta * (1 - delta)))
                    outside = lam_min(point(unit, beta * (1 + delta)))
                    # lambda_min is linear in beta along the ray near the threshold: +-delta/N at the probes
                    if not inside > 0.25 * delta / N * min(1.0, abs(beta)):
                        out.violation('get_density_matrix_boundary/not_threshold/inside_not_psd', '%s=%.6g, direction %s: lambda_min just inside = %.3g' % (nm, beta, lab, inside), dims=dims, dm=dm)
                    if not outside < 0:
                        out.violation('get_density_matrix_boundary/not_threshold/outside_still_psd', '%s=%.6g, direction %s: lambda_min just outside = %.3g' % (nm, beta, lab, outside), dims=dims, dm=dm)
            for wd in (True, False):
                pl, pu = res[wd]
                pli, pui = E.get_ppt_boundary(dm, dims, within_dm=wd)
                out.trans()
                if abs(pli - pl[i]) > 1e-12 * (1 + abs(pli)) or abs(pui - pu[i]) > 1e-12 * (1 + abs(pui)):
                    out.violation('get_ppt_boundary/batched_differs_from_single', 'direction %s within_dm=%s' % (lab, wd), dims=dims, dm=dm)
                for beta, nm in ((pui, 'beta_u'), (pli, 'beta_l')):
                    for delta in (1e-6, 1e-3):
                        def crit(b):
                            r = point(unit, b)
                            v = lam_min(ptranspose(r, dA, dB))
                            return min(v, lam_min(r)) if wd else v
                        inside, outside = crit(beta * (1 - delta)), crit(beta * (1 + delta))
                        if not inside > 0:
                            out.violation('get_ppt_boundary/not_threshold/inside_fails', '%s=%.6g within_dm=%s direction %s: criterion just inside = %.3g' % (nm, beta, wd, lab, inside), dims=dims, dm=dm)
                        if not outside < 0:
                            out.violation('get_ppt_boundary/not_threshold/outside_passes', '%s=%.6g within_dm=%s direction %s: criterion just outside = %.3g' % (nm, beta, wd, lab, outside), dims=dims, dm=dm)
                        # the library's own criterion on the two probes at delta=1e-3 (its eps is 1e-7)
                        if delta == 1e-3 and wd:
                            if not E.is_ppt(point(unit, beta * (1 - delta)), dims):
                                out.violation('is_ppt/rejects_inside_boundary', 'direction %s' % lab, dims=dims, dm=dm)
                            if lam_min(point(unit, beta * (1 + delta))) > 1e-6 and E.is_ppt(point(unit, beta * (1 + delta)), dims):
                                out.violation('is_ppt/accepts_outside_boundary', 'direction %s' % lab, dims=dims, dm=dm)
            if not (bli - 1e-12 <= res[True][0][i] and res[True][1][i] <= bui + 1e-12):
                out.violation('get_ppt_boundary/within_dm_exceeds_dm_boundary', 'direction %s' % lab, dims=dims, dm=dm)
            # ---- interpolation helper
            for beta in (bui, 0.5 * bui, bli, 0.3):
                r = E.hf_interpolate_dm(dm, beta=beta)
                out.trans()
                if abs(gm_norm(r) - abs(beta)) > 1e-10 * (1 + abs(beta)):
                    out.violation('hf_interpolate_dm/wrong_distance', 'requested Gell-Mann distance %.6g, got %.6g (direction %s)' % (beta, gm_norm(r), lab), dims=dims, dm=dm)
                if np.abs(r - point(unit, beta)).max() > 1e-10:
                    out.violation('hf_interpolate_dm/wrong_point', 'direction %s beta=%g' % (lab, beta), dims=dims, dm=dm)
                nrm = numqi.gellmann.dm_to_gellmann_norm(r)
                if abs(nrm - abs(beta)) > 1e-10 * (1 + abs(beta)):
                    out.violation('dm_to_gellmann_norm/differs_from_requested', 'direction %s' % lab, dims=dims, dm=dm)
                r2 = E.hf_interpolate_dm(dm, alpha=beta / gm_norm(dm))
                if np.abs(r2 - r).max() > 1e-10:
                    out.violation('hf_interpolate_dm/alpha_beta_forms_differ', 'direction %s beta=%g' % (lab, beta), dims=dims, dm=dm)
                r3 = E.hf_interpolate_dm(dm, beta=beta, dm_norm=gm_norm(dm))
                if np.abs(r3 - r).max() > 1e-10:
                    out.violation('hf_interpolate_dm/dm_norm_argument', 'direction %s beta=%g' % (lab, beta), dims=dims, dm=dm)
            out.outcome((dims, lab, round(float(bui), 8), round(float(res[True][1][i]), 8)), nontrivial=bool(res[True][1][i] < bui - 1e-9))
        out.trace()
        out.sample = {'kind': 'thresh', 'dims': list(dims), 'directions': len(D), 'first': D[0][0]}
    elif kind == 'order':
        D = directions(dims, env)
        sel = [D[i] for i in case['idx']]
        dms = np.stack([d[1] for d in sel])
        b_dm = E.get_density_matrix_boundary(dms)[1]
        b_ppt = E.get_ppt_boundary(dms, dims)[1]
        betas = {}
        duals = {}  # variant -> (beta, vecA, vecN) of the return_info=True call
        G = np.stack(gellmann(N))
        for (k, boson, ppt) in variants(dims, env.tier):
            try:
                b = E.get_ABk_symmetric_extension_boundary(dms, dims, k, use_ppt=ppt, use_boson=boson, use_tqdm=False)
                out.trans(len(sel))
            except cvxpy.error.SolverError:
                out.count('solver_failed')
                continue
            b = np.asarray(b, dtype=np.float64).reshape(-1)
            if b.shape != (len(sel),) or not np.isfinite(b).all():
                out.violation('get_ABk_symmetric_extension_boundary/not_finite', 'k=%d boson=%s ppt=%s returned %s' % (k, boson, ppt, b), dims=dims)
                continue
            betas[(k, boson, ppt)] = b
            vlist = variants(dims, env.tier)
            cno = case.get('probe', {}).get('no', 0)
            if env.tier == 'quick' and cno % 2:
                continue  # quick: the option / argument-form axes on every 2nd case (each call pays the cvxpy set-up of the variant again)
            _order_forms(out, E, cvxpy, numqi, dims, sel, dms, G, (k, boson, ppt), b, duals, nri=2 if env.tier == 'quick' else len(sel),
                         forms=(k, boson, ppt) == vlist[0] or ((env.tier != 'quick' or (k, boson, ppt) == vlist[-1]) and cno % 4 == 0))
        if dims in ((2, 2), (2, 3)) and (env.tier != 'quick' or case.get('probe', {}).get('no', 0) == 0):
            _order_numerical_range(out, E, cvxpy, dims, sel, G, b_ppt, betas)
        # CHA (LP inner approximation): any feasible point is a genuine separable decomposition
        b_cha = np.full(len(sel), np.nan)
        pool = [np.zeros((1, N * N - 1))]  # Bloch vectors of states that are separable by construction (the maximally mixed state first)
        for i, (lab, dm, unit) in enumerate(sel):
            try:
                model = E.CHABoundaryBagging(dims)
                beta, (kA, kB, lam, hist) = model.solve(dm, maxiter=3, seed=1 + i, return_info=True)
                out.trans()
            except cvxpy.error.SolverError:
                out.count('solver_failed[cha]')
                continue
            except (AssertionError, RuntimeError) as e:
                out.count('cha_no_initial_state')
                continue
            b_cha[i] = beta
            ab = np.einsum('ki,kj->kij', kA, kB).reshape(len(lam), N)
            rec = np.einsum('k,ki,kj->ij', lam, ab, ab.conj())
            # LP solution over num_state = 3 (dA dB)^2 weights: each weight carries the solver's feasibility error (~1e-5 for the
            # 'inaccurate' solves CLARABEL often returns here) and the library drops the non-positive ones before returning, so the
            # returned weights sum to 1 only up to num_state * 1e-5 (observed 1.5e-4 with 108 weights); same bound for the recombination
            tol_lp = max(SOLVER_TOL, model.num_state * 1e-5)
            if abs(lam.sum() - 1) > tol_lp or lam.min() < -1e-9 or np.abs(rec - point(unit, beta)).max() > tol_lp:
                out.violation('CHABoundaryBagging.solve/decomposition_does_not_reproduce_boundary_point',
                              'returned product states and weights do not recombine to rho(beta) (direction %s, diff %.3g, sum(lambda)-1 = %.3g, min(lambda) = %.3g)' % (lab, np.abs(rec - point(unit, beta)).max(), lam.sum() - 1, lam.min()), dims=dims, dm=dm)
            _cha_products_vs_outer(out, E, dims, kA, kB, lab, dm, nmax=8 if env.tier == 'quick' else None)
            if lam.sum() > 0:  # the recombined boundary point: an exact convex combination of product projectors once normalised
                _cheap_outer_tests(out, E, dims, rec / np.trace(rec).real, 'CHABoundaryBagging.solve/boundary_point/rejected_by_%s', 'recombined CHA boundary point along %s' % lab, dm=dm)
            pool.append(gvec(G, np.einsum('ki,kj->kij', ab, ab.conj())))
        pool = np.concatenate(pool)
        _order_hyperplanes(out, dims, sel, duals, pool)
        _order_feasibility(out, E, cvxpy, dims, sel, betas, b_dm, b_ppt, case.get('probe', {}))
        _order_generalized_ppt(out, E, dims, sel, b_cha, b_ppt, b_dm)
        for i, (lab, dm, unit) in enumerate(sel):
            out.state()

            def tol(x):
                return SOLVER_TOL * (1 + abs(x))

            def leq(a, b, na, nb):
                if a > b + tol(b):
                    out.violation('ordering/%s<=%s' % (na, nb), 'direction %s of dims %s: %s=%.6f exceeds %s=%.6f' % (lab, dims, na, a, nb, b), dims=dims, dm=dm)
            if not (b_ppt[i] <= b_dm[i] + 1e-12):
                out.violation('ordering/beta_PPT<=beta_DM', 'direction %s' % lab, dims=dims, dm=dm)
            for (k, boson, ppt), b in betas.items():
                nm = 'beta_k%d%s%s' % (k, '_boson' if boson else '', '_ppt' if ppt else '')
                leq(b[i], b_dm[i], nm, 'beta_DM')
                if ppt:
                    leq(b[i], b_ppt[i], nm, 'beta_PPT')
                    if (k, boson, False) in betas:
                        leq(b[i], betas[(k, boson, False)][i], nm, nm.replace('_ppt', ''))
                if boson and (k, False, ppt) in betas:
                    leq(b[i], betas[(k, False, ppt)][i], nm, nm.replace('_boson', ''))
                if (k + 1, boson, ppt) in betas:
                    nm2 = 'beta_k%d%s%s' % (k + 1, '_boson' if boson else '', '_ppt' if ppt else '')
                    leq(betas[(k + 1, boson, ppt)][i], b[i], nm2, nm)
                if k == 1:  # with use_boson=True too: S_1 has a single irrep, the bosonic problem is the plain one
                    ref_b = b_ppt[i] if ppt else b_dm[i]
                    if abs(b[i] - ref_b) > tol(ref_b):
                        out.violation('ordering/beta_k1%s_equals_%s' % ('_boson' if boson else '', 'beta_PPT' if ppt else 'beta_DM'), 'direction %s: 1-extension boundary %.6f vs exact %.6f' % (lab, b[i], ref_b), dims=dims, dm=dm)
                if np.isfinite(b_cha[i]):
                    leq(b_cha[i], b[i], 'beta_CHA', nm)
            if np.isfinite(b_cha[i]):
                leq(b_cha[i], b_ppt[i], 'beta_CHA', 'beta_PPT')
            tup = tuple(round(float(betas[v][i]), 4) for v in sorted(betas))
            out.outcome((dims, lab, tup), nontrivial=len(set(tup)) > 1)
        out.trace()
        out.sample = {'kind': 'order', 'dims': list(dims), 'directions': [d[0] for d in sel], 'variants': [list(v) for v in sorted(betas)]}
    elif kind == 'cha_hist':
        _cha_history(case, out, env, E, cvxpy, dims)
    elif kind == 'model_hist':
        _model_history(case, out, env, E, dims)
    elif kind in ('inner_cha', 'inner_pureb', 'inner_symext'):
        import torch
        from checks.c01_manifold import theta_lattice
        # outer tests (k, use_boson, use_ppt) every state of the model must pass
        if kind == 'inner_cha':  # separable: inside every variant's set
            model = E.AutodiffCHAREE(dims, num_state=case['num_state'], distance_kind='gellmann')  # only dm_torch is examined, not the loss
            if env.tier == 'quick':
                outer = [(2, False, False)] + ([(2, True, True)] if case['num_state'] is None else [])  # rank-3 mixtures sit on the boundary of the state space: ~4 s per SDP
            else:
                outer = {(2, 2): [(2, False, False), (2, True, True), (3, False, True), (1, False, True)], (2, 3): [(2, False, False), (2, True, True), (1, False, True)]}.get(dims, [(2, False, False), (2, True, True)])
            made = 'separable'
        elif kind == 'inner_pureb':  # k-bosonic extendible: k' <= k copies, with and without bosonic symmetry (no PPT statement)
            model = E.PureBosonicExt(dA, dB, case['k'], distance_kind='gellmann')
            outer = [(kk, boson, False) for kk in range(1, case['k'] + 1) for boson in (True, False)]
            made = '%d-bosonic' % case['k']
        else:  # plain k-extendible by construction (block-diagonal extension in the irrep basis)
            try:
                model = E.SymmetricExtABkIrrepModel(dA, dB, case['k'])
            except AssertionError:
                # dimB = 2: the irrep list holds the bosonic block only and the nested DiscreteProbability(1) asserts dim >= 2 - the
                # constructor rejects the configuration (undocumented class; same ruling as the size-1 simplices of C01, DESIGN 9.2)
                out.count('rejected_by_precondition')
                return
            outer = [(kk, False, False) for kk in range(2, case['k'] + 1)]
            made = '%d-symmetric' % case['k']
        model.set_dm_target(np.eye(N) / N)
        params = list(model.parameters())
        n = sum(p.numel() for p in params)
        pts = theta_lattice(n, 10.0, env.rng('C06', kind, dims, n), 2 if env.tier == 'quick' else 4)
        # SDP outer tests: every (len/10)-th (thorough: len/40-th) lattice point; eigenvalue tests only: every 3rd (thorough: all)
        pts = pts[:: (3 if env.tier == 'quick' else 1)] if case.get('cheap_only') else pts[:: max(1, len(pts) // (10 if env.tier == 'quick' else 40))]
        states = []
        for row in pts:
            off = 0
            with torch.no_grad():
                for p in params:
                    p.copy_(torch.tensor(row[off:off + p.numel()].reshape(p.shape), dtype=p.dtype))
                    off += p.numel()
            with np.errstate(all='ignore'):
                model()
            if kind == 'inner_symext':
                rho = model.rhoAB_transpose.detach().numpy().reshape(dA, dA, dB, dB).transpose(0, 2, 1, 3).reshape(N, N).copy()
            else:
                rho = model.dm_torch.detach().numpy().reshape(N, N).copy()
            out.state()
            out.trans()
            if not np.isfinite(rho).all():
                out.count('outside_math_domain')  # a zero psi block of the quotient map
                continue
            bad = []
            if np.abs(rho - rho.conj().T).max() > 1e-10:
                bad.append('not Hermitian')
            if abs(np.trace(rho) - 1) > 1e-10:
                bad.append('trace %s' % np.trace(rho))
            if lam_min(rho) < -1e-10:
                bad.append('negative eigenvalue %.3g' % lam_min(rho))
            if kind == 'inner_cha' and lam_min(ptranspose(rho, dA, dB)) < -1e-10:
                bad.append('not PPT')
            if bad:
                out.violation('%s/dm_torch_invalid' % kind, '%s at a lattice point: %s' % (type(model).__name__, '; '.join(bad)), dims=dims, theta=row, rho=rho)
                continue
            if kind == 'inner_cha' and not E.is_ppt(rho, dims):
                out.violation('inner_cha/is_ppt_rejects_model_state', 'is_ppt rejects a convex-hull model state', dims=dims, rho=rho)
            if kind == 'inner_cha':
                _cheap_outer_tests(out, E, dims, rho, 'inner_cha/%s/rejects_inner_state', 'AutodiffCHAREE(num_state=%s) state at a lattice point' % case['num_state'], theta=row)
            states.append((row, rho))
            out.outcome((kind, dims, np.round(rho, 6)), nontrivial=True)
        if states and not case.get('cheap_only'):
            stack = np.stack([s[1] for s in states])
            for (kk, boson, ppt) in outer:
                try:
                    acc = np.asarray(E.is_ABk_symmetric_ext(stack, dims, kk, use_ppt=ppt, use_boson=boson, use_tqdm=False))
                    out.trans(len(states))
                except cvxpy.error.SolverError:
                    out.count('solver_failed')
                    continue
                verdicts = [('is_ABk_symmetric_ext(k=%d, boson=%s, ppt=%s)' % (kk, boson, ppt), '%d_extension_test%s%s' % (kk, '' if boson == (kind == 'inner_pureb') else ('_boson' if boson else '_plain'), '_ppt' if ppt else ''), acc)]
                if dims == (2, 2) and kk >= 2 and not boson and not ppt and (kind != 'inner_cha' or (env.tier != 'quick' and case['num_state'] is None)):
                    # the textbook formulation (full AB^k operator with explicit swap constraints) on the same states
                    for ik in ('2d', '1d'):
                        try:
                            nv = [E.is_ABk_symmetric_ext_naive(rho, dims, kk, index_kind=ik) for row, rho in states]
                            out.trans(len(states))
                        except cvxpy.error.SolverError:
                            out.count('solver_failed')
                            continue
                        if not all(isinstance(x, tuple) and len(x) == 2 and ((x[1] is None) == (not x[0])) and (x[1] is None or np.shape(x[1]) == (dA * dB ** kk,) * 2) for x in nv):
                            out.violation('is_ABk_symmetric_ext_naive/layout', 'must return (bool, extension of shape (dA dB^k, dA dB^k) or None)', dims=dims, k=kk, index_kind=ik)
                            continue
                        verdicts.append(("is_ABk_symmetric_ext_naive(k=%d, '%s')" % (kk, ik), 'naive_%s_%d_extension_test' % (ik, kk), np.array([bool(x[0]) for x in nv])))
                        out.count('naive_formulation_compared', len(states))
                for what, keypart, acc in verdicts:
                    for (row, rho), a in zip(states, acc):
                        if bool(a):
                            continue
                        # re-examine with the boundary SDP along the state's own direction (solver band of DESIGN 3.2)
                        nrm = gm_norm(rho)
                        try:
                            b = float(E.get_ABk_symmetric_extension_boundary(rho, dims, kk, use_ppt=ppt, use_boson=boson, use_tqdm=False))
                        except cvxpy.error.SolverError:
                            out.count('solver_failed')
                            continue
                        if b < nrm * (1 - SOLVER_TOL) - SOLVER_TOL:
                            out.violation('%s/rejected_by_%s' % (kind, keypart),
                                          '%s state (which has a %s extension by construction) is rejected by %s; boundary along its direction %.6f < its norm %.6f'
                                          % (type(model).__name__, made, what, b, nrm), dims=dims, rho=rho)
                        else:
                            out.count('feasibility_sdp_rejects_within_solver_band')
        out.trace()
        out.sample = {'kind': kind, 'dims': list(dims), 'lattice_points': len(pts), 'parameters': n}
    else:
        raise ValueError(kind)
