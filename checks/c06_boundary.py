"""C06 - boundaries are exact thresholds and the detection hierarchy is nested (DESIGN.md section 4 / C06).

Mode P + differential. The direction alphabet of each dimension pair (all +-Gell-Mann axes, all G_i +- G_j for i<j<=6, named
states, generic atoms) is enumerated completely.
  thresh : get_density_matrix_boundary / get_ppt_boundary are exact thresholds (both sides, both signs, delta in {1e-6,1e-3}),
           hf_interpolate_dm places a state at the requested Gell-Mann distance, batched == per item.
  order  : for every direction the boundary lengths of all methods are computed and compared pairwise:
           beta_CHA <= beta_(k+1) <= beta_k, beta_k+PPT <= beta_k, beta_boson <= beta_plain, beta_k+PPT <= beta_PPT <= beta_DM,
           beta_1 == beta_DM, beta_1+PPT == beta_PPT  (solver tolerance 1e-4*(1+beta), DESIGN 3.2).
  inner  : outputs of the inner models at *lattice* parameter points (no optimiser) are fed to the outer criteria.
"""
import itertools

import numpy as np

from mc import core

PROPERTY = 'C06'
GUARD = ['numqi.entangle', 'numqi.gellmann']  # argument-immutability oracle (mc.seams.ImmutabilityGuard)
GUARD_LAYOUT = ['numqi.entangle._misc', 'numqi.gellmann', 'numqi.entangle.ppt.get_ppt_boundary', 'numqi.entangle.ppt.is_ppt', 'numqi.entangle.ppt.is_generalized_ppt']  # memory-layout metamorphic oracle: eigenvalue-based functions only (SDP / LP optima differ by solver tolerance)
LEVEL = 'model_checking'
RULE = ('state = (dimension pair, direction of the alphabet, method variant) or (inner model, lattice parameter point); the direction '
        'alphabet x variant product is enumerated completely; transition = one boundary / criterion evaluation compared with an '
        'independent eigenvalue computation or with the other methods on the same direction; non-trivial = distinct rounded boundary tuples')
ASSUMPTIONS = [
    'solver accuracy band 1e-4*(1+beta) for SDP/LP optima (DESIGN 3.2: measured excess of a +PPT optimum over the exact PPT boundary 7e-6)',
    'threshold sides are probed at relative distance delta in {1e-6, 1e-3}; the eigenvalue there is +-delta/N, far above eps',
    'cvxpy SolverError escaping the library = solver_failed (listed, neither pass nor violation); cases over the wall-clock cap are listed as capped',
    'an inner-model state rejected by a feasibility SDP is re-examined with the boundary SDP along its own direction: inside by more than the solver band = violation, within the band = counted',
]
CASE_TIMEOUT = 400
CHUNK = 1
SOLVER_TOL = 1e-4


# ------------------------------------------------------------------------------------------------ reference helpers
def gellmann(d):
    out = []
    for i in range(d):
        for j in range(i + 1, d):
            m = np.zeros((d, d), dtype=np.complex128)
            m[i, j] = m[j, i] = 1
            out.append(m)
    for i in range(d):
        for j in range(i + 1, d):
            m = np.zeros((d, d), dtype=np.complex128)
            m[i, j] = -1j
            m[j, i] = 1j
            out.append(m)
    for k in range(1, d):
        m = np.zeros((d, d), dtype=np.complex128)
        m[np.arange(k), np.arange(k)] = 1
        m[k, k] = -k
        out.append(m * np.sqrt(2 / (k * (k + 1))))
    return out


def gm_norm(rho):
    """Euclidean norm of the Bloch vector w.r.t. Tr G_i G_j = 2 delta_ij :  ||rho - 1/N||_F / sqrt(2)"""
    N = rho.shape[-1]
    return np.linalg.norm(rho - np.eye(N) / N, axis=(-2, -1)) / np.sqrt(2)


def ptranspose(rho, dA, dB):
    return rho.reshape(dA, dB, dA, dB).transpose(0, 3, 2, 1).reshape(dA * dB, dA * dB)


def lam_min(m):
    return np.linalg.eigvalsh((m + m.conj().T) / 2)[0]


def point(direction_unit, beta):
    N = direction_unit.shape[0]
    return np.eye(N) / N + beta * direction_unit


_DIRS = {}


def directions(dims, env):
    """list of (label, Hermitian trace-one matrix dm = 1/N + c*op) - only the direction matters"""
    key = (tuple(dims), env.seed, env.tier)
    if key in _DIRS:
        return _DIRS[key]
    import numqi
    dA, dB = dims
    N = dA * dB
    G = gellmann(N)
    out = []
    for i, g in enumerate(G):
        out.append(('+G%d' % i, g))
        out.append(('-G%d' % i, -g))
    for i in range(min(6, len(G))):
        for j in range(i + 1, min(6, len(G))):
            out.append(('G%d+G%d' % (i, j), G[i] + G[j]))
            out.append(('G%d-G%d' % (i, j), G[i] - G[j]))
    # local Gell-Mann products (directions with product structure)
    GA, GB = gellmann(dA), gellmann(dB)
    for i in range(min(3, len(GA))):
        for j in range(min(3, len(GB))):
            out.append(('GA%d(x)GB%d' % (i, j), np.kron(GA[i], GB[j])))
    named = []
    if dA == dB:
        phi = np.eye(dA).reshape(-1) / np.sqrt(dA)
        named.append(('maximally_entangled', np.outer(phi, phi)))
        F = np.zeros((N, N))
        for i in range(dA):
            for j in range(dA):
                F[i * dA + j, j * dA + i] = 1
        named.append(('werner(alpha=1)', (np.eye(N) - F) / (N - dA)))
    if (dA, dB) == (3, 3):
        named.append(('tiles_bes', numqi.entangle.load_upb('tiles', return_bes=True)[1]))
    if (dA, dB) == (2, 4):
        named.append(('horodecki2x4(b=0.3)', numqi.state.get_bes2x4_Horodecki1997(0.3)))
    psi = np.zeros(N)
    psi[0] = psi[-1] = 1 / np.sqrt(2)
    named.append(('ghz_like', np.outer(psi, psi)))
    for lab, rho in named:
        out.append((lab, rho - np.eye(N) / N))
    rng = env.rng('C06', 'dir', dims)
    for a in range(2 if env.tier == 'quick' else 6):
        x = rng.normal(size=(N, N)) + 1j * rng.normal(size=(N, N))
        rho = x @ x.conj().T
        rho /= np.trace(rho).real
        out.append(('generic%d' % a, rho - np.eye(N) / N))
    res = []
    for k_, (lab, op) in enumerate(out):
        op = (op + op.conj().T) / 2
        op = op - np.trace(op) * np.eye(N) / N
        unit = op / (np.linalg.norm(op) / np.sqrt(2))  # Gell-Mann norm 1
        # only the direction matters: the representatives handed to the library have DIFFERENT Gell-Mann norms, so that a
        # batched call that mixes up per-item norms is visible
        res.append((lab, np.eye(N) / N + (0.02 * (1 + k_ % 7)) * unit / N, unit))
    _DIRS[key] = res
    return res


def build_cases(tier, seed):
    dims_list = [(2, 2), (2, 3), (3, 3)] + ([(2, 4), (3, 2)] if tier == 'thorough' else [])
    cases = []
    info = {'dims': [list(d) for d in dims_list], 'deltas': [1e-6, 1e-3]}
    ndir = {}

    class _E:
        pass
    env = core.Env(tier, seed)
    for dims in dims_list:
        D = directions(dims, env)
        ndir[str(dims)] = len(D)
        cases.append({'kind': 'thresh', 'dims': list(dims)})
    # ordering: chunks of directions; the variant list is enumerated inside the case
    order_dirs = {(2, 2): None, (2, 3): None, (3, 3): None, (2, 4): None, (3, 2): None}
    for dims in dims_list:
        D = directions(dims, env)
        if tier == 'quick':
            # all named + generic + every axis +-G_i (2x2); for larger systems every 3rd axis direction (declared stride)
            idx = [i for i, d in enumerate(D) if not d[0].startswith(('+G', '-G', 'G')) or dims == (2, 2) or i % 3 == 0]
        else:
            idx = list(range(len(D)))
        step = {(2, 2): 12, (2, 3): 6, (3, 2): 6, (3, 3): 3, (2, 4): 3}[dims]
        for a in range(0, len(idx), step):
            cases.append({'kind': 'order', 'dims': list(dims), 'idx': idx[a:a + step]})
        order_dirs[dims] = len(idx)
    info['directions'] = ndir
    info['directions_in_ordering'] = {str(k): v for k, v in order_dirs.items() if v is not None}
    info['kmax'] = {'(2,2)': 3 if tier == 'quick' else 4, '(2,3)': 2 if tier == 'quick' else 3, '(3,3)': 2, '(2,4)': 2, '(3,2)': 2}
    # inner models
    for dims in [(2, 2), (2, 3)] + ([(3, 3)] if tier == 'thorough' else []):
        for ns in (None, 3):
            cases.append({'kind': 'inner_cha', 'dims': list(dims), 'num_state': ns})
        for k in (1, 2, 3) if dims == (2, 2) else (1, 2):
            cases.append({'kind': 'inner_pureb', 'dims': list(dims), 'k': k})
    info['exhaustive'] = True
    info['note'] = 'the direction alphabet x variant product is enumerated completely within the stated bounds (quick: stride-3 subset of the axis directions for systems larger than 2x2 in the SDP ordering part)'
    return cases, info


def variants(dims, tier):
    dims = tuple(dims)
    kmax = {(2, 2): 3 if tier == 'quick' else 4, (2, 3): 2 if tier == 'quick' else 3, (3, 3): 2, (2, 4): 2, (3, 2): 2}[dims]
    vs = []
    for k in range(1, kmax + 1):
        for boson in (False, True):
            for ppt in (False, True):
                if dims == (3, 3) and k == 2 and not boson and tier == 'quick':
                    continue  # 3x3 k=2 without bosonic symmetry: 81x81 SDP variable, thorough only
                if k == 1 and boson:
                    continue
                vs.append((k, boson, ppt))
    return vs


def run_case(case, out, env):
    import numqi
    import cvxpy
    kind = case['kind']
    dims = tuple(case['dims'])
    dA, dB = dims
    N = dA * dB
    E = numqi.entangle
    if kind == 'thresh':
        D = directions(dims, env)
        dms = np.stack([d[1] for d in D])
        units = [d[2] for d in D]
        # ---- batched calls (1-d and 2-d batch) and per item
        bl, bu = E.get_density_matrix_boundary(dms)
        out.trans()
        K = len(D) - (len(D) % 2)
        bl2, bu2 = E.get_density_matrix_boundary(dms[:K].reshape(K // 2, 2, N, N))
        out.trans()
        if bl2.shape != (K // 2, 2) or np.abs(bl2.reshape(-1) - bl[:K]).max() > 1e-12 or np.abs(bu2.reshape(-1) - bu[:K]).max() > 1e-12:
            out.violation('get_density_matrix_boundary/batch2d_differs', '2-d batch differs from 1-d batch', dims=dims)
        res = {}
        for wd in (True, False):
            pl, pu = E.get_ppt_boundary(dms, dims, within_dm=wd)
            out.trans()
            pl2, pu2 = E.get_ppt_boundary(dms[:K].reshape(K // 2, 2, N, N), dims, within_dm=wd)
            if pl2.shape != (K // 2, 2) or np.abs(pl2.reshape(-1) - pl[:K]).max() > 1e-12 or np.abs(pu2.reshape(-1) - pu[:K]).max() > 1e-12:
                out.violation('get_ppt_boundary/batch2d_differs', '2-d batch differs from 1-d batch (within_dm=%s)' % wd, dims=dims)
            res[wd] = (pl, pu)
        for i, (lab, dm, unit) in enumerate(D):
            out.state()
            bli, bui = E.get_density_matrix_boundary(dm)
            out.trans()
            if abs(bli - bl[i]) > 1e-12 * (1 + abs(bli)) or abs(bui - bu[i]) > 1e-12 * (1 + abs(bui)):
                out.violation('get_density_matrix_boundary/batched_differs_from_single', 'direction %s' % lab, dims=dims, dm=dm)
            if not (bli < 0 < bui):
                out.violation('get_density_matrix_boundary/sign', 'beta_l=%g beta_u=%g for direction %s' % (bli, bui, lab), dims=dims, dm=dm)
                continue
            for beta, nm in ((bui, 'beta_u'), (bli, 'beta_l')):
                for delta in (1e-6, 1e-3):
                    inside = lam_min(point(unit, beta * (1 - delta)))
                    outside = lam_min(point(unit, beta * (1 + delta)))
                    # lambda_min is linear in beta along the ray near the threshold: +-delta/N at the probes
                    if not inside > 0.25 * delta / N * min(1.0, abs(beta)):
                        out.violation('get_density_matrix_boundary/not_threshold/inside_not_psd', '%s=%.6g, direction %s: lambda_min just inside = %.3g' % (nm, beta, lab, inside), dims=dims, dm=dm)
                    if not outside < 0:
                        out.violation('get_density_matrix_boundary/not_threshold/outside_still_psd', '%s=%.6g, direction %s: lambda_min just outside = %.3g' % (nm, beta, lab, outside), dims=dims, dm=dm)
            for wd in (True, False):
                pl, pu = res[wd]
                pli, pui = E.get_ppt_boundary(dm, dims, within_dm=wd)
                out.trans()
                if abs(pli - pl[i]) > 1e-12 * (1 + abs(pli)) or abs(pui - pu[i]) > 1e-12 * (1 + abs(pui)):
                    out.violation('get_ppt_boundary/batched_differs_from_single', 'direction %s within_dm=%s' % (lab, wd), dims=dims, dm=dm)
                for beta, nm in ((pui, 'beta_u'), (pli, 'beta_l')):
                    for delta in (1e-6, 1e-3):
                        def crit(b):
                            r = point(unit, b)
                            v = lam_min(ptranspose(r, dA, dB))
                            return min(v, lam_min(r)) if wd else v
                        inside, outside = crit(beta * (1 - delta)), crit(beta * (1 + delta))
                        if not inside > 0:
                            out.violation('get_ppt_boundary/not_threshold/inside_fails', '%s=%.6g within_dm=%s direction %s: criterion just inside = %.3g' % (nm, beta, wd, lab, inside), dims=dims, dm=dm)
                        if not outside < 0:
                            out.violation('get_ppt_boundary/not_threshold/outside_passes', '%s=%.6g within_dm=%s direction %s: criterion just outside = %.3g' % (nm, beta, wd, lab, outside), dims=dims, dm=dm)
                        # the library's own criterion on the two probes at delta=1e-3 (its eps is 1e-7)
                        if delta == 1e-3 and wd:
                            if not E.is_ppt(point(unit, beta * (1 - delta)), dims):
                                out.violation('is_ppt/rejects_inside_boundary', 'direction %s' % lab, dims=dims, dm=dm)
                            if lam_min(point(unit, beta * (1 + delta))) > 1e-6 and E.is_ppt(point(unit, beta * (1 + delta)), dims):
                                out.violation('is_ppt/accepts_outside_boundary', 'direction %s' % lab, dims=dims, dm=dm)
            if not (bli - 1e-12 <= res[True][0][i] and res[True][1][i] <= bui + 1e-12):
                out.violation('get_ppt_boundary/within_dm_exceeds_dm_boundary', 'direction %s' % lab, dims=dims, dm=dm)
            # ---- interpolation helper
            for beta in (bui, 0.5 * bui, bli, 0.3):
                r = E.hf_interpolate_dm(dm, beta=beta)
                out.trans()
                if abs(gm_norm(r) - abs(beta)) > 1e-10 * (1 + abs(beta)):
                    out.violation('hf_interpolate_dm/wrong_distance', 'requested Gell-Mann distance %.6g, got %.6g (direction %s)' % (beta, gm_norm(r), lab), dims=dims, dm=dm)
                if np.abs(r - point(unit, beta)).max() > 1e-10:
                    out.violation('hf_interpolate_dm/wrong_point', 'direction %s beta=%g' % (lab, beta), dims=dims, dm=dm)
                nrm = numqi.gellmann.dm_to_gellmann_norm(r)
                if abs(nrm - abs(beta)) > 1e-10 * (1 + abs(beta)):
                    out.violation('dm_to_gellmann_norm/differs_from_requested', 'direction %s' % lab, dims=dims, dm=dm)
                r2 = E.hf_interpolate_dm(dm, alpha=beta / gm_norm(dm))
                if np.abs(r2 - r).max() > 1e-10:
                    out.violation('hf_interpolate_dm/alpha_beta_forms_differ', 'direction %s beta=%g' % (lab, beta), dims=dims, dm=dm)
                r3 = E.hf_interpolate_dm(dm, beta=beta, dm_norm=gm_norm(dm))
                if np.abs(r3 - r).max() > 1e-10:
                    out.violation('hf_interpolate_dm/dm_norm_argument', 'direction %s beta=%g' % (lab, beta), dims=dims, dm=dm)
            out.outcome((dims, lab, round(float(bui), 8), round(float(res[True][1][i]), 8)), nontrivial=bool(res[True][1][i] < bui - 1e-9))
        out.trace()
        out.sample = {'kind': 'thresh', 'dims': list(dims), 'directions': len(D), 'first': D[0][0]}
    elif kind == 'order':
        D = directions(dims, env)
        sel = [D[i] for i in case['idx']]
        dms = np.stack([d[1] for d in sel])
        b_dm = E.get_density_matrix_boundary(dms)[1]
        b_ppt = E.get_ppt_boundary(dms, dims)[1]
        betas = {}
        for (k, boson, ppt) in variants(dims, env.tier):
            try:
                b = E.get_ABk_symmetric_extension_boundary(dms, dims, k, use_ppt=ppt, use_boson=boson, use_tqdm=False)
                out.trans(len(sel))
            except cvxpy.error.SolverError:
                out.count('solver_failed')
                continue
            b = np.asarray(b, dtype=np.float64).reshape(-1)
            if b.shape != (len(sel),) or not np.isfinite(b).all():
                out.violation('get_ABk_symmetric_extension_boundary/not_finite', 'k=%d boson=%s ppt=%s returned %s' % (k, boson, ppt, b), dims=dims)
                continue
            betas[(k, boson, ppt)] = b
        # CHA (LP inner approximation): any feasible point is a genuine separable decomposition
        b_cha = np.full(len(sel), np.nan)
        for i, (lab, dm, unit) in enumerate(sel):
            try:
                model = E.CHABoundaryBagging(dims)
                beta, (kA, kB, lam, hist) = model.solve(dm, maxiter=3, seed=1 + i, return_info=True)
                out.trans()
            except cvxpy.error.SolverError:
                out.count('solver_failed[cha]')
                continue
            except (AssertionError, RuntimeError) as e:
                out.count('cha_no_initial_state')
                continue
            b_cha[i] = beta
            ab = np.einsum('ki,kj->kij', kA, kB).reshape(len(lam), N)
            rec = np.einsum('k,ki,kj->ij', lam, ab, ab.conj())
            # LP solution over num_state = 3 (dA dB)^2 weights: each weight carries the solver's feasibility error (~1e-5 for the
            # 'inaccurate' solves CLARABEL often returns here) and the library drops the non-positive ones before returning, so the
            # returned weights sum to 1 only up to num_state * 1e-5 (observed 1.5e-4 with 108 weights); same bound for the recombination
            tol_lp = max(SOLVER_TOL, model.num_state * 1e-5)
            if abs(lam.sum() - 1) > tol_lp or lam.min() < -1e-9 or np.abs(rec - point(unit, beta)).max() > tol_lp:
                out.violation('CHABoundaryBagging.solve/decomposition_does_not_reproduce_boundary_point',
                              'returned product states and weights do not recombine to rho(beta) (direction %s, diff %.3g, sum(lambda)-1 = %.3g, min(lambda) = %.3g)' % (lab, np.abs(rec - point(unit, beta)).max(), lam.sum() - 1, lam.min()), dims=dims, dm=dm)
        for i, (lab, dm, unit) in enumerate(sel):
            out.state()

            def tol(x):
                return SOLVER_TOL * (1 + abs(x))

            def leq(a, b, na, nb):
                if a > b + tol(b):
                    out.violation('ordering/%s<=%s' % (na, nb), 'direction %s of dims %s: %s=%.6f exceeds %s=%.6f' % (lab, dims, na, a, nb, b), dims=dims, dm=dm)
            if not (b_ppt[i] <= b_dm[i] + 1e-12):
                out.violation('ordering/beta_PPT<=beta_DM', 'direction %s' % lab, dims=dims, dm=dm)
            for (k, boson, ppt), b in betas.items():
                nm = 'beta_k%d%s%s' % (k, '_boson' if boson else '', '_ppt' if ppt else '')
                leq(b[i], b_dm[i], nm, 'beta_DM')
                if ppt:
                    leq(b[i], b_ppt[i], nm, 'beta_PPT')
                    if (k, boson, False) in betas:
                        leq(b[i], betas[(k, boson, False)][i], nm, nm.replace('_ppt', ''))
                if boson and (k, False, ppt) in betas:
                    leq(b[i], betas[(k, False, ppt)][i], nm, nm.replace('_boson', ''))
                if (k + 1, boson, ppt) in betas:
                    nm2 = 'beta_k%d%s%s' % (k + 1, '_boson' if boson else '', '_ppt' if ppt else '')
                    leq(betas[(k + 1, boson, ppt)][i], b[i], nm2, nm)
                if k == 1 and not boson:
                    ref_b = b_ppt[i] if ppt else b_dm[i]
                    if abs(b[i] - ref_b) > tol(ref_b):
                        out.violation('ordering/beta_k1_equals_%s' % ('beta_PPT' if ppt else 'beta_DM'), 'direction %s: 1-extension boundary %.6f vs exact %.6f' % (lab, b[i], ref_b), dims=dims, dm=dm)
                if np.isfinite(b_cha[i]):
                    leq(b_cha[i], b[i], 'beta_CHA', nm)
            if np.isfinite(b_cha[i]):
                leq(b_cha[i], b_ppt[i], 'beta_CHA', 'beta_PPT')
            tup = tuple(round(float(betas[v][i]), 4) for v in sorted(betas))
            out.outcome((dims, lab, tup), nontrivial=len(set(tup)) > 1)
        out.trace()
        out.sample = {'kind': 'order', 'dims': list(dims), 'directions': [d[0] for d in sel], 'variants': [list(v) for v in sorted(betas)]}
    elif kind in ('inner_cha', 'inner_pureb'):
        import torch
        from checks.c01_manifold import theta_lattice
        if kind == 'inner_cha':
            model = E.AutodiffCHAREE(dims, num_state=case['num_state'], distance_kind='gellmann')  # only dm_torch is examined, not the loss
            ks = [2]
            boson = False
        else:
            model = E.PureBosonicExt(dA, dB, case['k'], distance_kind='gellmann')
            ks = list(range(1, case['k'] + 1))
            boson = True
        model.set_dm_target(np.eye(N) / N)
        params = list(model.parameters())
        n = sum(p.numel() for p in params)
        pts = theta_lattice(n, 10.0, env.rng('C06', kind, dims, n), 2 if env.tier == 'quick' else 4)
        pts = pts[:: max(1, len(pts) // (10 if env.tier == 'quick' else 40))]
        states = []
        for row in pts:
            off = 0
            with torch.no_grad():
                for p in params:
                    p.copy_(torch.tensor(row[off:off + p.numel()].reshape(p.shape), dtype=p.dtype))
                    off += p.numel()
            with np.errstate(all='ignore'):
                model()
            rho = model.dm_torch.detach().numpy().reshape(N, N).copy()
            out.state()
            out.trans()
            if not np.isfinite(rho).all():
                out.count('outside_math_domain')  # a zero psi block of the quotient map
                continue
            bad = []
            if np.abs(rho - rho.conj().T).max() > 1e-10:
                bad.append('not Hermitian')
            if abs(np.trace(rho) - 1) > 1e-10:
                bad.append('trace %s' % np.trace(rho))
            if lam_min(rho) < -1e-10:
                bad.append('negative eigenvalue %.3g' % lam_min(rho))
            if kind == 'inner_cha' and lam_min(ptranspose(rho, dA, dB)) < -1e-10:
                bad.append('not PPT')
            if bad:
                out.violation('%s/dm_torch_invalid' % kind, '%s at a lattice point: %s' % (type(model).__name__, '; '.join(bad)), dims=dims, theta=row, rho=rho)
                continue
            if kind == 'inner_cha' and not E.is_ppt(rho, dims):
                out.violation('inner_cha/is_ppt_rejects_model_state', 'is_ppt rejects a convex-hull model state', dims=dims, rho=rho)
            states.append((row, rho))
            out.outcome((kind, dims, np.round(rho, 6)), nontrivial=True)
        if states:
            stack = np.stack([s[1] for s in states])
            for kk in ks:
                try:
                    acc = np.asarray(E.is_ABk_symmetric_ext(stack, dims, kk, use_boson=boson, use_tqdm=False))
                    out.trans(len(states))
                except cvxpy.error.SolverError:
                    out.count('solver_failed')
                    continue
                for (row, rho), a in zip(states, acc):
                    if bool(a):
                        continue
                    # re-examine with the boundary SDP along the state's own direction (solver band of DESIGN 3.2)
                    nrm = gm_norm(rho)
                    try:
                        b = float(E.get_ABk_symmetric_extension_boundary(rho, dims, kk, use_boson=boson, use_tqdm=False))
                    except cvxpy.error.SolverError:
                        out.count('solver_failed')
                        continue
                    if b < nrm * (1 - SOLVER_TOL) - SOLVER_TOL:
                        out.violation('%s/rejected_by_%d_extension_test' % (kind, kk),
                                      '%s state (which has a %s extension by construction) is rejected by is_ABk_symmetric_ext(k=%d, boson=%s); boundary along its direction %.6f < its norm %.6f'
                                      % (type(model).__name__, 'separable' if kind == 'inner_cha' else '%d-bosonic' % case['k'], kk, boson, b, nrm), dims=dims, rho=rho)
                    else:
                        out.count('feasibility_sdp_rejects_within_solver_band')
        out.trace()
        out.sample = {'kind': kind, 'dims': list(dims), 'lattice_points': len(pts), 'parameters': n}
    else:
        raise ValueError(kind)
