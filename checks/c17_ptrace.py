"""C17 - partial traces and the Dicke-basis reduction equal the explicit contraction   (modes B + H)

Spaces (DESIGN.md section 4, C17). Every space is enumerated completely inside the stated bound.

  A  pt_basis : numqi.utils.partial_trace on the COMPLETE operator basis: every dimension list (bounds below) x ALL 2^n
                keep-subsets (the empty and the full one included) x ALL D^2 weighted matrix units w*E_ab (w = 0.6+0.8i, so
                that an accidental complex conjugation is visible as well) x the two documented input shapes ((D,D) matrix
                and (*dim,*dim) tensor). partial_trace is composed of reshape + one einsum, hence C-linear: agreement on a
                basis implies agreement on every operator (linearity itself is spot-checked in B).
  B  pt_atoms : every dimension list of the property's quantifier (length 2..5, entries 2..4) x ALL keep-subsets x the option
                lattice {rho form} x {dim form} x {keep_index form} x {dtype} (all single deviations from the default, all
                pairs in the thorough tier for D <= 64) x atoms: generic operator and generic density matrix (D <= 64), product
                operator (x)A_i (reference (x)_{keep}A_i * prod_{drop} Tr A_i), pure product state, sparse sum of 64 weighted
                matrix units. Linearity residual, unit trace / hermiticity / positivity for states. keep_index forms: set,
                frozenset, list, tuple, ndarray, int, and the other spellings of the same set: descending list [2,0], duplicates
                (1,1,0), range objects, np.int64 scalar (single deviations). The result dtype equals the operator dtype.
     boundary : A, B and C also run on the boundary of the quantifier: a single subsystem (d,), d = 1..4, and every list of length
                2..3 with a one-dimensional subsystem ((1,3), (2,1,2), (1,1,1) ...); F and G on dimA = 1 (state shape (1,nDicke)).
  C  pt_hist  : mode H over the subset lattice. State = ordered history of subsystems traced out one at a time (all n!/(n-j)!
                histories of every length j = 0..n, the last step reaching the empty keep-set); every step of the real function
                is compared with the one-shot reference of the ORIGINAL operator, the one-shot implementation call and trace
                preservation. Plus all 3^n two-step pairs T <= S <= {0..n-1}: pt(pt(rho,S),T) == pt(rho,T).
  D  dicke_basis : get_dicke_klist / get_dicke_number / get_dicke_basis / Dicke for every (copies k, dimension d): the list of
                occupation tuples is complete and duplicate free, every row equals the Dicke vector built by brute-force counting
                of occupation numbers over all d^k strings, Gram matrix = 1, invariant under EVERY permutation of the copies,
                basis^T basis equals the symmetriser (1/k!) sum_pi P_pi (so the span is exactly the symmetric subspace),
                Dicke(*klist) equals its row for every occupation tuple.
  E  dicke_index : get_partial_trace_ABk_to_AB_index(k,d): the tensor form equals B_rsab = Tr_{k-1}[<r|D_a><D_b|s>] contracted
                explicitly from the reference vectors, for EVERY choice of the copy that is kept; the list form used by the fast
                reduction scatters to the same tensor (no duplicate index pairs, int index arrays, float64 values);
                get_qubit_dicke_partial_trace agrees for d = 2.
  F  reduce   : partial_trace_ABk_to_AB on the COMPLETE polarisation alphabet of C^{dA x nDicke}: e_i, e_i+e_j, e_i+i*e_j for
                all i<j (psi -> rho is a sesquilinear form evaluated on the diagonal, so this alphabet determines it), for every
                (dA,dB,k) in the bound, numpy and torch (index triples as the test-suite builds them and as PureBosonicExt
                builds them). Reference: embed psi with the reference Dicke vectors into A (x) B^k, trace out k-1 copies.
     reduce_atoms : generic complex / real vectors x dtype x memory layout x backend: reference for EVERY kept copy, the
                nested-loop partial trace of the full density matrix where it fits, unit trace, hermiticity, positivity,
                parallelogram and homogeneity residuals (sesquilinearity is the trusted base of F).
  G  consumers : the two anchored consumers of the Dicke index table, for every (dA,dB,k) of F (k >= 2 for the operators):
                PureBosonicExt(dA,dB,k).forward(): dm_torch equals embed-then-trace of the vector its manifold returns (atoms
                written into the parameters), trace 1, and for one generic Hermitian non-symmetric complex operator per (dA,dB,k)
                the returned value equals Re Tr[op * embed-then-trace] (identity -> op -> identity history);
                get_ABk_gellmann_preimage_op(kind='boson')[i] equals P^dagger (G_i (x) 1) P
                with P the Dicke embedding (the reduction in the Heisenberg picture: <psi|op_i|psi> = Tr[G_i rho_AB(psi)] for all
                psi), kind='symmetric' equals (1/k) sum_j G_i on (A,B_j) - ALL (dA dB)^2-1 Gell-Mann elements.
Oracle: plain numpy. Partial trace = nested loops over the traced indices (mc.ref.partial_trace); on a matrix unit the
contraction is Tr_drop|a><b| = delta(a_drop,b_drop)|a_keep><b_keep| by index arithmetic, cross-validated against the nested
loops for every unit when D <= 12 (harness error if the two references disagree).

Tolerances (DESIGN 3.2: c * eps(dtype) * kappa, c = C_SAFETY = 8):
  pt_basis  : every output entry is a sum with at most ONE non-zero term (|w| = 1): exact in floating point; tol = c*eps.
  pt_atoms / pt_hist : an entry is a sum of D_drop input entries; forward error of any summation order <= (D_drop-1)*eps*sum|x_i|;
              kappa = D_drop * max_entry(partial_trace(|rho|)) (computed by the reference), times the number of chained calls.
  dicke_basis: an entry is 1/sqrt(m), m an integer <= d^k, both sides one sqrt and one division: 2 ulp -> tol = c*eps.
              Gram / projector / permutation: sums of <= m_max products of two such entries: kappa = m_max + 4.
  dicke_index: implementation sqrt(k_a*k_b)/k (3 roundings); reference sums d^(k-1) products <= 1: kappa = d^(k-1) + 4.
  reduce    : implementation sums <= nD products state*value*conj(state), |value| <= 1; reference sums nD terms (embedding)
              and d^(k-1) terms (contraction); Cauchy-Schwarz bounds every sum of moduli by |psi|^2:
              kappa = (nD + dB^(k-1) + 8) * |psi|^2.  eps is that of the input precision (complex64 may be processed in single).
"""
import functools
import itertools
import math

import numpy as np

from mc import ref

PROPERTY = 'C17'
GUARD = ['numqi.utils', 'numqi.dicke']  # argument-immutability oracle (mc.seams.ImmutabilityGuard)
GUARD_LAYOUT = ['numqi.utils', 'numqi.dicke']  # memory-layout metamorphic oracle (same wrapper)
LEVEL = 'model_checking'
RULE = ('mode B: case = one dimension list (x a block of keep-subsets) or one (dimA,dimB,k) (x a block of the polarisation '
        'alphabet); inside a case the complete basis alphabet is executed on the real function: all weighted matrix units x all '
        'keep-subsets x both input shapes for utils.partial_trace; all e_i, e_i+e_j, e_i+i e_j x three backend flavours for the '
        'Dicke reduction; all occupation tuples / all permutations of the copies / all kept copies for the Dicke basis and index '
        'table. mode H: state = ordered history of subsystems traced out one at a time (all histories of all lengths) and all '
        'nested pairs T<=S. state = one (configuration, alphabet element) point or one history; transition = one numqi call whose '
        'complete output was compared with the explicit contraction; trace = one complete history / one element followed through '
        'all flavours with every step compared; non-trivial = the observed result is non-zero and at least one subsystem was '
        'traced out while at least one was kept (pt), or the observed reduced matrix has more than one non-zero entry (Dicke). '
        'Boundary configurations run in both tiers: dimension lists of length 1 and lists with one-dimensional subsystems (product '
        '<= 9) through the basis, atom and history kinds; dimA = 1 through the reduction kinds and PureBosonicExt. keep_index is '
        'also given as a descending list, with duplicates, as a range object and as a numpy integer (single deviations from the '
        'default options); the result dtype must equal the operator dtype; PureBosonicExt.forward is compared with Re Tr[op rho_AB] '
        'for one generic Hermitian non-symmetric operator per (dimA,dimB,k) (non-trivial = distinguishable from the transposed operator)')
ASSUMPTIONS = [
    'reference semantics: Tr_drop(X)[a_keep,b_keep] = sum_x X[(a_keep,x),(b_keep,x)], subsystem 0 = most significant factor, kept '
    'subsystems in ascending order (keep_index is documented as a set: order and multiplicity of a list / tuple / range spelling '
    'are ignored; a 0-d array is not iterable as a set and is outside the space)',
    'utils.partial_trace is C-linear (reshape + einsum) and partial_trace_ABk_to_AB is a sesquilinear form on the diagonal '
    '(products with constants, matmul, conj); both are spot-checked with generic residuals; given them, agreement on the basis / '
    'polarisation alphabet implies agreement on every input',
    'the order of the Dicke basis is the one of numqi.dicke.get_dicke_klist (a convention, not part of the property); the check '
    'requires that list to be a complete duplicate-free enumeration of the occupation tuples and builds the reference vectors in '
    'that order',
    'the complete matrix-unit basis is run for D = prod(dim) up to the stated cap; larger dimension lists of the quantifier are '
    'covered by atoms only (the code does not branch on the values of the dimensions, only on length and keep pattern)',
    'the Gell-Mann matrices of the consumer check are taken from numqi.gellmann.all_gellmann_matrix (their correctness is property '
    'C16); the vector of PureBosonicExt is read off its manifold (property C01); its expectation operator is Hermitian as documented; '
    'get_ABk_gellmann_preimage_op asserts dimA >= 2, so dimA = 1 is explored for the reduction and PureBosonicExt only; dimB = 1 is '
    'rejected by the precondition asserts of numqi.dicke and is outside the space',
    'torch inputs of utils.partial_trace, GPU tensors, autograd and batched states are outside the explored space; the torch '
    'index triples are cast to the precision of the state as a caller must do (torch matmul needs equal dtypes)',
]
CHUNK = 1

C_SAFETY = 8.0
EPS = {'c128': 2.220446049250313e-16, 'f64': 2.220446049250313e-16, 'c64': 1.1920929e-07, 'f32': 1.1920929e-07}
NP_DT = {'c128': np.complex128, 'f64': np.float64, 'c64': np.complex64, 'f32': np.float32}
IS_REAL = {'c128': False, 'f64': True, 'c64': False, 'f32': True}
REAL_OF = {'c128': np.float64, 'f64': np.float64, 'c64': np.float32, 'f32': np.float32}
W_UNIT = 0.6 + 0.8j


def prod(xs):
    r = 1
    for x in xs:
        r *= int(x)
    return r


def to_np(y):
    if hasattr(y, 'detach'):
        y = y.detach().cpu().numpy()
    return np.asarray(y)


# =============================================================================================== reference model
def ref_unit_landing(dims, keep, a, b):
    """Tr_drop |a><b| by index arithmetic: None if the traced digits of a and b differ, else (row, col) in the kept space"""
    n = len(dims)
    ia, ib = np.unravel_index(a, dims), np.unravel_index(b, dims)
    for i in range(n):
        if i not in keep and ia[i] != ib[i]:
            return None
    if not keep:
        return (0, 0)
    kd = [dims[i] for i in keep]
    return (int(np.ravel_multi_index([ia[i] for i in keep], kd)), int(np.ravel_multi_index([ib[i] for i in keep], kd)))


@functools.lru_cache(maxsize=None)
def ref_landing_table(dims, keep):
    """for every (a,b): flat landing position r*dk+c in the kept space, or -1. Vectorised form of ref_unit_landing."""
    n = len(dims)
    D = prod(dims)
    digits = np.stack(np.unravel_index(np.arange(D), dims), axis=1) if n else np.zeros((1, 0), dtype=np.int64)  # (D,n)
    drop = [i for i in range(n) if i not in keep]
    kd = [dims[i] for i in keep]
    dk = prod(kd)
    kidx = np.ravel_multi_index([digits[:, i] for i in keep], kd) if keep else np.zeros(D, dtype=np.int64)
    didx = np.ravel_multi_index([digits[:, i] for i in drop], [dims[i] for i in drop]) if drop else np.zeros(D, dtype=np.int64)
    same = didx[:, None] == didx[None, :]
    land = kidx[:, None] * dk + kidx[None, :]
    return np.where(same, land, -1)


def ref_ptrace_product(factors, keep):
    """(x)_{keep} A_i * prod_{drop} Tr A_i"""
    val = 1.0 + 0j
    ret = np.ones((1, 1), dtype=np.complex128)
    for i, A in enumerate(factors):
        if i in keep:
            ret = np.kron(ret, A)
        else:
            val = val * np.trace(A)
    return ret * val


@functools.lru_cache(maxsize=None)
def ref_occupations(k, d):
    """all occupation tuples (k_0..k_{d-1}) with sum k, by brute-force filtering, ascending"""
    return tuple(sorted(t for t in itertools.product(range(k + 1), repeat=d) if sum(t) == k))


@functools.lru_cache(maxsize=None)
def ref_strings(k, d):
    """(d^k, k) digits of every basis string, copy 0 most significant; and the occupation numbers (d^k, d)"""
    s = np.stack(np.unravel_index(np.arange(d**k), (d,) * k), axis=1).astype(np.int64)
    occ = np.stack([(s == j).sum(axis=1) for j in range(d)], axis=1)
    return s, occ


@functools.lru_cache(maxsize=None)
def ref_dicke_vectors(k, d):
    """dict occupation tuple -> normalised equal-weight superposition of all strings with that occupation (float64, d^k)"""
    s, occ = ref_strings(k, d)
    ret = {}
    for t in ref_occupations(k, d):
        mask = np.all(occ == np.array(t)[None, :], axis=1)
        m = int(mask.sum())
        assert m == math.factorial(k) // prod(math.factorial(x) for x in t)
        v = mask / np.sqrt(m)
        v.setflags(write=False)
        ret[t] = v
    return ret


def ref_perm_index(k, d, perm):
    """index map of the operator that permutes the copies: new string = old string with copies reordered by perm"""
    s, _ = ref_strings(k, d)
    return np.ravel_multi_index([s[:, p] for p in perm], (d,) * k)


@functools.lru_cache(maxsize=None)
def ref_symmetriser(k, d):
    N = d**k
    P = np.zeros((N, N), dtype=np.float64)
    col = np.arange(N)
    perms = list(itertools.permutations(range(k)))
    for perm in perms:
        np.add.at(P, (ref_perm_index(k, d, perm), col), 1.0)
    return P / len(perms)


def ref_B_tensor(basis, k, d, copy):
    """B[r,s,a,b] = sum_{x,y} D_a[x,r,y] conj D_b[x,s,y]: copy `copy` kept, the other k-1 traced out"""
    nD = basis.shape[0]
    T = basis.reshape(nD, d**copy, d, d**(k - copy - 1))
    return np.einsum('axry,bxsy->rsab', T, T.conj())


def ref_reduce(state, basis, dA, dB, k, copy=0):
    """embed psi = sum_{a,m} state[a,m] |a> (x) D_m into A (x) B^k, keep A and copy `copy` of B, trace out the rest"""
    Psi = state.astype(np.complex128) @ basis  # (dA, dB^k)
    T = Psi.reshape(dA, dB**copy, dB, dB**(k - copy - 1)).transpose(0, 2, 1, 3).reshape(dA * dB, dB**(k - 1))
    return T @ T.conj().T


def ref_reduce_loops(state, basis, dA, dB, k, copy=0):
    """the same through the full density matrix and the nested-loop partial trace"""
    Psi = (state.astype(np.complex128) @ basis).reshape(-1)
    full = Psi[:, None] * Psi.conj()[None, :]
    return ref.partial_trace(full, [dA] + [dB] * k, [0, 1 + copy])


def numqi_order_basis(numqi, k, d):
    """reference Dicke vectors stacked in the order of numqi.dicke.get_dicke_klist (None if that list is not a complete,
    duplicate-free enumeration of the occupation tuples - reported by kind dicke_basis)"""
    klist = [tuple(int(x) for x in t) for t in numqi.dicke.get_dicke_klist(k, d)]
    if sorted(klist) != list(ref_occupations(k, d)):
        return None, klist
    vec = ref_dicke_vectors(k, d)
    return np.stack([vec[t] for t in klist]), klist


# =============================================================================================== bounds
def all_dim_lists(lengths, entries):
    ret = []
    for n in lengths:
        ret += [tuple(t) for t in itertools.product(entries, repeat=n)]
    return sorted(ret, key=lambda t: (prod(t), len(t), t))


def basis_lists(tier):
    if tier == 'quick':
        # all lists of length 2..4 with entries 2..3 (DESIGN) plus four length-5 lists (so every length is hit, with unequal entries)
        ret = all_dim_lists([2, 3, 4], [2, 3]) + [(2, 2, 2, 2, 2), (3, 2, 2, 2, 2), (2, 2, 3, 2, 2), (2, 2, 2, 2, 3)]
        ret += [t for t in all_dim_lists([2], [2, 3, 4]) if 4 in t]
        cap = 81
    else:
        cap = 128
        ret = [t for t in all_dim_lists([2, 3, 4, 5], [2, 3, 4]) if prod(t) <= cap]
    return sorted(set(ret), key=lambda t: (prod(t), len(t), t)), cap


def atom_lists(tier):
    if tier == 'quick':
        return [t for t in all_dim_lists([2, 3, 4, 5], [2, 3, 4]) if prod(t) <= 128 or t in ((4, 4, 4, 4), (4, 3, 4, 2, 3))]
    return all_dim_lists([2, 3, 4, 5], [2, 3, 4])


def hist_lists(tier):
    if tier == 'quick':
        return [t for t in all_dim_lists([2, 3, 4, 5], [2, 3, 4]) if prod(t) <= 108] + [(4, 3, 4, 2, 3)]
    return all_dim_lists([2, 3, 4, 5], [2, 3, 4])


def boundary_lists():
    """boundary of the quantifier (both tiers): a single subsystem (d,), d = 1..4, and every list of length 2..3 with entries
    1..3 (length 2: 1..4) that contains a one-dimensional subsystem, e.g. (1,3), (2,1,2), (1,1,1); all products <= 9"""
    ret = [(d,) for d in (1, 2, 3, 4)]
    ret += [t for t in itertools.product((1, 2, 3, 4), repeat=2) if 1 in t]
    ret += [t for t in itertools.product((1, 2, 3), repeat=3) if 1 in t]
    return sorted(set(ret), key=lambda t: (prod(t), len(t), t))


def dicke_kd(tier):
    """(k,d) of the Dicke basis / index table checks"""
    if tier == 'quick':
        return [(k, d) for d in (2, 3, 4) for k in range(1, 6)]
    ret = []
    for d in (2, 3, 4, 5):
        for k in range(1, 9):
            if d**k <= 4096:
                ret.append((k, d))
    return ret


def reduce_triples(tier):
    if tier == 'quick':
        ret = [(a, b, k) for a in (2, 3, 4) for b in (2, 3, 4) for k in range(1, 6) if a * b**k <= 512]
    else:
        ret = [(a, b, k) for a in (2, 3, 4, 5) for b in (2, 3, 4, 5) for k in range(1, 8) if a * b**k <= 8192 and b**k <= 4096]
    # boundary dimA = 1 (state of shape (1, n_dicke): the reduction of a vector of Sym^k(B) alone), both tiers
    ret += [(1, b, k) for b in (2, 3, 4) for k in range(1, 6)]
    return sorted(ret, key=lambda t: (t[0] * t[1]**t[2], t))


def n_dicke(k, d):
    return math.comb(k + d - 1, d - 1)


def n_atoms(tier):
    return 2 if tier == 'quick' else 6


P_SYM_CAP = 2200  # dense symmetriser (d^k)^2 float64 only below this
FULL_DM_CAP = 256  # nested-loop reference of the full density matrix only below this
CONSUMER_CAP = {'quick': 512, 'thorough': 2048}  # consumers: embedding dimension dA*dB^k
SYM_OP_CAP = 128  # kind='symmetric' operators live on the full space: (dA dB)^2 matrices of size (dA dB^k)^2
LITERAL_CAP = 64  # generic dense atoms (printed literally in a finding) only up to this D


def prepare(env):
    for k, d in dicke_kd(env.tier):
        ref_dicke_vectors(k, d)
    for a, b, k in reduce_triples(env.tier):
        ref_dicke_vectors(k, b)


def build_cases(tier, seed):
    cases = []
    info = {}
    # ---- D/E: Dicke basis and index table
    kd = dicke_kd(tier)
    for k, d in sorted(kd, key=lambda t: (t[1]**t[0], t)):
        cases.append({'kind': 'dicke_basis', 'k': k, 'd': d})
        cases.append({'kind': 'dicke_index', 'k': k, 'd': d})
    info['dicke_kd'] = [list(t) for t in kd]
    # ---- A: complete matrix-unit basis
    lists, cap = basis_lists(tier)
    bl = boundary_lists()
    lists = sorted(set(lists) | set(bl), key=lambda t: (prod(t), len(t), t))
    budget = 25000  # (unit, subset) points per case
    n_basis_states = 0
    for dims in lists:
        D, n = prod(dims), len(dims)
        masks = list(range(2**n))
        masks.sort(key=lambda m: (bin(m).count('1') not in (0, n), m))  # empty and full first, then the rest
        per = max(1, budget // (D * D))
        for a in range(0, len(masks), per):
            cases.append({'kind': 'pt_basis', 'dims': list(dims), 'masks': masks[a:a + per]})
        n_basis_states += 2 * D * D * 2**n
    info['pt_basis'] = {'lists': len(lists), 'max_product': max(prod(t) for t in lists), 'cap_product': cap,
                        'lengths': sorted({len(t) for t in lists}), 'states_expected': n_basis_states,
                        'alphabet': 'all D^2 weighted matrix units x all 2^n keep-subsets x {matrix,tensor} input shape'}
    # ---- B: atoms x option lattice on every list of the quantifier
    al = atom_lists(tier)
    for dims in bl + al:
        cases.append({'kind': 'pt_atoms', 'dims': list(dims)})
    info['boundary_lists'] = [list(t) for t in bl]  # run by pt_basis, pt_atoms and pt_hist in both tiers
    info['pt_atoms'] = {'lists': len(al), 'boundary_lists': len(bl), 'max_product': max(prod(t) for t in al),
                        'complete_quantifier': len(al) == 9 + 27 + 81 + 243,
                        'option_deviation_bound': 1 if tier == 'quick' else 2}
    # ---- C: histories
    hl = hist_lists(tier)
    for dims in bl + hl:
        cases.append({'kind': 'pt_hist', 'dims': list(dims)})
    info['pt_hist'] = {'lists': len(hl), 'depth': 'all histories of length 0..n (n = number of subsystems), all 3^n nested pairs'}
    # ---- F: reduction
    trip = reduce_triples(tier)
    pol_budget = 4000
    n_pol = 0
    for dA, dB, k in trip:
        N = dA * n_dicke(k, dB)
        n_pol += N * N
        lo = 0
        while lo < N:
            hi, cnt = lo, 0
            while hi < N and (cnt == 0 or cnt + 1 + 2 * (N - 1 - hi) <= pol_budget):
                cnt += 1 + 2 * (N - 1 - hi)
                hi += 1
            cases.append({'kind': 'reduce', 'dA': dA, 'dB': dB, 'k': k, 'lo': lo, 'hi': hi})
            lo = hi
        cases.append({'kind': 'reduce_atoms', 'dA': dA, 'dB': dB, 'k': k})
        if dA * dB**k <= CONSUMER_CAP[tier]:
            cases.append({'kind': 'consumers', 'dA': dA, 'dB': dB, 'k': k})
    info['reduce'] = {'triples': len(trip), 'max_embedding_dim': max(a * b**k for a, b, k in trip),
                      'polarisation_elements': n_pol, 'flavours': ['numpy', 'torch(test-style triples)', 'torch(PureBosonicExt-style triples)'],
                      'complete_quantifier': all((a, b, k) in trip for a in (2, 3, 4) for b in (2, 3, 4) for k in range(1, 6))}
    info['generic_atoms'] = n_atoms(tier)
    info['exhaustive'] = True
    info['note'] = ('exhaustive within the stated bounds: complete matrix-unit basis x all keep-subsets for every listed dimension '
                    'list with product <= cap; complete polarisation alphabet for every listed (dimA,dimB,k); all permutations of '
                    'the copies; all tracing histories. Dimension lists above the cap are covered by atoms only.')
    info['consumers'] = {'cap_embedding_dim': CONSUMER_CAP[tier], 'symmetric_kind_cap': SYM_OP_CAP}
    order = {'dicke_basis': 0, 'dicke_index': 0, 'pt_basis': 1, 'pt_atoms': 2, 'pt_hist': 3, 'reduce': 4, 'reduce_atoms': 4, 'consumers': 5}
    cases.sort(key=lambda c: order[c['kind']])  # stable: simplest first inside each family
    return cases, info


# =============================================================================================== utils.partial_trace
def pt_key(failure, keep, opt=None):
    nk = len(keep)
    key = 'ptrace/partial_trace/%s/nkeep=%s' % (failure, nk if nk < 2 else '2+')
    if opt:
        key += '/' + opt
    return key


def call_pt(numqi, out, rho, dims, keep_arg, keep, detail, opt=None):
    """one call of the real function; an exception on an admissible input is a violation. returns (ok, ndarray)"""
    out.trans()
    try:
        ret = numqi.utils.partial_trace(rho, dims, keep_arg)
    except Exception as e:  # noqa
        key = 'ptrace/partial_trace/%s' % type(e).__name__
        if len(keep) == 0:
            key += '/keep=empty'
        elif opt:
            key += '/' + opt
        out.violation(key, 'partial_trace(rho, %r, %r) raised %s: %s' % (dims, keep_arg, type(e).__name__, str(e)[:200]), **detail())
        return False, None
    return True, ret


def check_pt_output(out, got, dk, keep, detail, opt=None):
    if not isinstance(got, np.ndarray):
        out.violation(pt_key('not_ndarray', keep, opt), 'partial_trace returned %s' % type(got).__name__, **detail())
        return False
    if got.shape != (dk, dk):
        out.violation(pt_key('shape', keep, opt), 'partial_trace returned shape %s, expected %s' % (got.shape, (dk, dk)), **detail())
        return False
    if not np.all(np.isfinite(got)):
        out.violation(pt_key('nonfinite', keep, opt), 'partial_trace returned NaN/Inf', **detail())
        return False
    return True


def run_pt_basis(case, out, env):
    import numqi
    dims = tuple(case['dims'])
    n, D = len(dims), prod(dims)
    tol = C_SAFETY * EPS['c128']
    rho = np.zeros((D, D), dtype=np.complex128)
    rho_t = rho.reshape(dims + dims)  # view on the same buffer: documented input shape (*dim,*dim)
    cross = D <= 12
    for mask in case['masks']:
        keep = [i for i in range(n) if (mask >> i) & 1]
        kset = set(keep)
        dk = prod(dims[i] for i in keep)
        table = ref_landing_table(dims, tuple(keep))
        proper = 0 < len(keep) < n
        for a in range(D):
            landed = np.full(D, -1, dtype=np.int64)
            for b in range(D):
                rho[a, b] = W_UNIT
                pos = int(table[a, b])
                if cross:
                    # two independent references must agree (index arithmetic, scalar and vectorised, versus nested loops)
                    e1 = ref.partial_trace(rho, dims, keep)
                    p1 = ref_unit_landing(dims, keep, a, b)
                    e2 = np.zeros((dk, dk), dtype=np.complex128)
                    if p1 is not None:
                        e2[p1] = W_UNIT
                    if not np.array_equal(e1, e2) or (-1 if p1 is None else p1[0] * dk + p1[1]) != pos:
                        raise RuntimeError('reference models disagree for dims=%r keep=%r unit=(%d,%d)' % (dims, keep, a, b))

                def detail(form=None):
                    return {'dims': list(dims), 'keep_index': keep, 'rho': 'w*E_ab (all other entries 0), shape %s' % form,
                            'a': a, 'b': b, 'w': W_UNIT, 'expected': 'zero matrix' if pos < 0 else
                            'w at (row,col)=(%d,%d) of the %dx%d result' % (pos // dk, pos % dk, dk, dk)}
                matrix_form_failed = False
                for form, x in (('(D,D)', rho), ('(*dim,*dim)', rho_t)):
                    out.state()
                    ok, got = call_pt(numqi, out, x, dims, set(kset), keep, lambda: detail(form),
                                         None if (form == '(D,D)' or matrix_form_failed) else 'rho=tensor')
                    matrix_form_failed = matrix_form_failed or (form == '(D,D)' and not ok)
                    if not ok or not check_pt_output(out, got, dk, keep, lambda: detail(form)):
                        continue
                    # compare the complete output with the reference (one entry w, everything else zero)
                    flat = got.reshape(-1)
                    e = np.zeros(dk * dk, dtype=np.complex128)
                    if pos >= 0:
                        e[pos] = W_UNIT
                    err = float(np.abs(flat - e).max())
                    if form == '(D,D)':
                        nz = np.flatnonzero(np.abs(flat) > 0.5)  # observed landing position(s)
                        landed[b] = -1 if nz.size == 0 else (int(nz[0]) if nz.size == 1 else -2 - int(nz[0]))
                    if not err <= tol:
                        opt = None if (form == '(D,D)' or matrix_form_failed) else 'rho=tensor'
                        matrix_form_failed = matrix_form_failed or form == '(D,D)'
                        out.violation(pt_key('not_explicit_contraction', keep, opt),
                                      'partial_trace of the weighted matrix unit w*E_%d,%d over dims=%r keep=%r differs from the explicit '
                                      'contraction by %.3g (tol %.3g)' % (a, b, dims, keep, err, tol), observed=got, **detail(form))
                rho[a, b] = 0
            out.trace()
            out.outcome((dims, mask, a, landed), nontrivial=proper and bool(np.any(landed >= 0)))
    out.sample = {'kind': 'pt_basis', 'dims': list(dims), 'keep_index': keep, 'unit': [D - 1, D - 1], 'w': [0.6, 0.8]}
    out.agg = ('pt_basis', out.states)


# ---------------------------------------------------------------------------------------------- atoms
def sparse_atom(rng, dims, m=64):
    """sum of m weighted matrix units; half of them survive a partial trace over a random subset"""
    n, D = len(dims), prod(dims)
    triples = []
    rho = np.zeros((D, D), dtype=np.complex128)
    for t in range(m):
        ia = [int(rng.integers(0, d)) for d in dims]
        ib = list(ia)
        for i in range(n):
            if rng.random() < 0.4:
                ib[i] = int(rng.integers(0, dims[i]))
        a, b = int(np.ravel_multi_index(ia, dims)), int(np.ravel_multi_index(ib, dims))
        v = complex(np.round(rng.normal(), 3), np.round(rng.normal(), 3))
        triples.append([a, b, v])
        rho[a, b] += v
    return rho, triples


def kron_all(factors):
    ret = np.ones((1, 1), dtype=np.complex128)
    for A in factors:
        ret = np.kron(ret, A)
    return ret


def pt_atoms_for(env, dims, tag):
    """list of (label, rho complex128, literal description, local factors or None, is_state)"""
    D = prod(dims)
    rng = env.rng('C17', tag, dims)
    atoms = []
    fac = [rng.normal(size=(d, d)) + 1j * rng.normal(size=(d, d)) for d in dims]
    atoms.append(('product', kron_all(fac), {'rho': 'kron of the local factors', 'factors': fac}, fac, False))
    vec = [ref.rand_state(rng, d) for d in dims]
    pfac = [np.outer(v, v.conj()) for v in vec]
    atoms.append(('pure_product_state', kron_all(pfac), {'rho': 'kron of |v_i><v_i|', 'local_vectors': vec}, pfac, True))
    rho, triples = sparse_atom(rng, dims)
    atoms.append(('sparse', rho, {'rho': 'sum of value*E_ab over the triples [a,b,value]', 'triples': triples}, None, False))
    if D <= LITERAL_CAP:
        g = rng.normal(size=(D, D)) + 1j * rng.normal(size=(D, D))
        atoms.append(('generic', g, {'rho': g}, None, False))
        dm = ref.rand_dm(rng, D)
        atoms.append(('generic_dm', dm, {'rho': dm}, None, True))
    else:
        lf = [ref.rand_dm(rng, d) for d in dims]
        atoms.append(('product_dm', kron_all(lf), {'rho': 'kron of the local density matrices', 'factors': lf}, lf, True))
    return atoms


OPT_DEFAULT = {'rho': 'matrix', 'dim': 'tuple', 'keep': 'set', 'dtype': 'c128'}
OPT_ALPHABET = {'rho': ['matrix', 'tensor', 'fortran'], 'dim': ['tuple', 'list', 'ndarray'],
                'keep': ['set', 'frozenset', 'list', 'tuple', 'ndarray', 'int', 'list_desc', 'tuple_dup', 'range', 'np_int64'],
                'dtype': ['c128', 'f64', 'c64', 'f32']}
# keep_index forms that denote the same SET in another spelling (the function normalises with sorted(set(keep_index)) before
# anything else): descending list [2,0], duplicates in non-ascending order (1,1,0), a range object, a numpy integer scalar.
# They are explored as single deviations from the default in both tiers (no pairs: the pair lattice of the thorough tier is
# built from the other values).
OPT_SINGLE_ONLY = {'keep': ['list_desc', 'tuple_dup', 'range', 'np_int64']}


def option_combos(bound):
    """all option assignments with at most `bound` deviations from the default (mode P), default first"""
    names = list(OPT_ALPHABET)
    ret = [dict(OPT_DEFAULT)]
    for nd in range(1, bound + 1):
        for coords in itertools.combinations(names, nd):
            alph = [[v for v in OPT_ALPHABET[c][1:] if nd == 1 or v not in OPT_SINGLE_ONLY.get(c, ())] for c in coords]
            for vals in itertools.product(*alph):
                o = dict(OPT_DEFAULT)
                o.update(dict(zip(coords, vals)))
                ret.append(o)
    return ret


def opt_label(o):
    dev = ['%s=%s' % (k, o[k]) for k in OPT_ALPHABET if o[k] != OPT_DEFAULT[k]]
    return ','.join(dev) if dev else None


def make_pt_args(o, rho128, dims, keep):
    """(rho argument, dims argument, keep argument, exact value of rho as complex128) or None if the combination does not apply"""
    dt = o['dtype']
    x = (rho128.real if IS_REAL[dt] else rho128).astype(NP_DT[dt])
    exact = x.astype(np.complex128)
    if o['rho'] == 'tensor':
        x = x.reshape(tuple(dims) + tuple(dims))
    elif o['rho'] == 'fortran':
        x = np.asfortranarray(x)
    d = {'tuple': tuple(dims), 'list': list(dims), 'ndarray': np.array(dims, dtype=np.int64)}[o['dim']]
    kf = o['keep']
    if kf in ('int', 'np_int64'):
        if len(keep) != 1:
            return None
        kk = int(keep[0]) if kf == 'int' else np.int64(keep[0])
    elif kf == 'list_desc':  # [2,0]: the same set written in descending order
        if len(keep) < 2:
            return None
        kk = list(keep[::-1])
    elif kf == 'tuple_dup':  # (1,1,0): every index twice, descending
        if len(keep) < 1:
            return None
        kk = tuple(i for i in keep[::-1] for _ in range(2))
    elif kf == 'range':  # range object (contiguous keep-sets only; range(0) for the empty one, a step-2 range for {i,i+2,..})
        if len(keep) >= 2 and len({b - a for a, b in zip(keep, keep[1:])}) != 1:
            return None
        kk = range(0) if not keep else range(keep[0], keep[-1] + 1, keep[1] - keep[0] if len(keep) >= 2 else 1)
        assert list(kk) == list(keep)
    else:
        kk = {'set': set, 'frozenset': frozenset, 'list': list, 'tuple': tuple, 'ndarray': lambda z: np.array(z, dtype=np.int64)}[kf](keep)
    return x, d, kk, exact


def run_pt_atoms(case, out, env):
    import numqi
    dims = tuple(case['dims'])
    n, D = len(dims), prod(dims)
    atoms = pt_atoms_for(env, dims, 'pt_atoms')
    if D > 256:
        combos = [o for o in option_combos(1) if opt_label(o) in (None, 'rho=tensor', 'keep=list', 'dtype=c64', 'dim=list', 'keep=list_desc', 'keep=tuple_dup')]
    elif env.tier == 'thorough' and D <= 64:
        combos = option_combos(2)
    else:
        combos = option_combos(1)
    rng = env.rng('C17', 'pt_lin', dims)
    alpha, beta = complex(*rng.normal(size=2)), complex(*rng.normal(size=2))
    for mask in range(2**n):
        keep = [i for i in range(n) if (mask >> i) & 1]
        dk = prod(dims[i] for i in keep)
        ddrop = D // dk
        proper = 0 < len(keep) < n
        refs = {}
        failed_default = set()  # failure classes already seen with the default options for this keep-subset

        def okey(failure, ol):
            if ol is None:
                failed_default.add(failure)
            return pt_key(failure, keep, None if failure in failed_default else ol)
        for o in combos:
            ol = opt_label(o)
            for label, rho128, lit, fac, is_state in atoms:
                args = make_pt_args(o, rho128, dims, keep)
                if args is None:
                    continue
                x, d_arg, k_arg, exact = args
                dt = o['dtype']
                rk = (label, dt)
                if rk not in refs:
                    exp = ref.partial_trace(exact, dims, keep)
                    kappa = ddrop * max(1e-300, float(ref.partial_trace(np.abs(exact), dims, keep).real.max()))
                    if fac is not None and not IS_REAL[dt] and dt == 'c128':
                        e2 = ref_ptrace_product(fac, keep)
                        if np.abs(e2 - exp).max() > 64 * EPS['c128'] * D * max(1.0, np.abs(e2).max()):
                            raise RuntimeError('reference models disagree on a product operator dims=%r keep=%r' % (dims, keep))
                    refs[rk] = (exp, kappa)
                exp, kappa = refs[rk]
                tol = C_SAFETY * EPS[dt] * kappa

                def detail():
                    r = {'dims': list(dims), 'keep_index': keep, 'options': o, 'atom': label}
                    r.update(lit)
                    return r
                out.state()
                ok, got = call_pt(numqi, out, x, d_arg, k_arg, keep, detail, None if 'exception' in failed_default else ol)
                if not ok:
                    if ol is None:
                        failed_default.add('exception')
                    continue
                if not check_pt_output(out, got, dk, keep, detail, ol):
                    continue
                # dtype-generic (reshape + einsum): the result has the dtype of the operator (no silent down-cast of complex128 /
                # float64, no up-cast of the single-precision forms, real stays real)
                if got.dtype != x.dtype:
                    out.violation(okey('result_dtype', ol), 'partial_trace of a %s operator returned dtype %s' % (x.dtype, got.dtype), **detail())
                err = float(np.abs(got.astype(np.complex128) - exp).max())
                if not err <= tol:
                    out.violation(okey('not_explicit_contraction', ol),
                                  'partial_trace(%s atom, dims=%r, keep=%r, options %s) differs from the nested-loop contraction by %.3g '
                                  '(tol %.3g)' % (label, dims, keep, ol, err, tol), observed=got if dk <= 64 else 'omitted', expected=exp if dk <= 64 else 'omitted', **detail())
                elif is_state:
                    # unit trace, hermitian, positive: required of the output itself (consequences of a wrong contraction are not
                    # reported a second time)
                    g = got.astype(np.complex128)
                    if abs(np.trace(g) - 1) > tol * dk + C_SAFETY * EPS[dt] * dk:
                        out.violation(okey('not_unit_trace', ol), 'reduced state has trace %r' % complex(np.trace(g)), **detail())
                    if np.abs(g - g.conj().T).max() > 2 * tol:
                        out.violation(okey('not_hermitian', ol), 'reduced state is not hermitian', **detail())
                    elif dk <= 256 and np.linalg.eigvalsh((g + g.conj().T) / 2)[0] < -(tol * dk + C_SAFETY * EPS[dt]):
                        out.violation(okey('not_positive', ol), 'reduced state has a negative eigenvalue', **detail())
                if ol is None:
                    out.outcome((dims, mask, label, got if dk <= 16 else got[:4, :4]), nontrivial=proper and bool(np.abs(got).max() > 1e-12))
                out.trace()
        # linearity residual on the default options: pt(alpha X + beta Y) == alpha pt(X) + beta pt(Y)
        X, Y = atoms[0][1], atoms[2][1]
        out.state()
        d0 = lambda: {'dims': list(dims), 'keep_index': keep, 'alpha': alpha, 'beta': beta, 'X': atoms[0][2], 'Y': atoms[2][2]}  # noqa
        okx, gx = call_pt(numqi, out, X, dims, set(keep), keep, d0)
        oky, gy = call_pt(numqi, out, Y, dims, set(keep), keep, d0)
        okz, gz = call_pt(numqi, out, alpha * X + beta * Y, dims, set(keep), keep, d0)
        if okx and oky and okz and gx.shape == gy.shape == gz.shape:
            kap = ddrop * (abs(alpha) * np.abs(X).max() + abs(beta) * np.abs(Y).max())
            res = float(np.abs(gz - alpha * gx - beta * gy).max())
            if not res <= 4 * C_SAFETY * EPS['c128'] * kap:
                out.violation(pt_key('not_linear', keep), 'partial_trace(alpha X + beta Y) - alpha pt(X) - beta pt(Y) has residual %.3g' % res, **d0())
    out.sample = {'kind': 'pt_atoms', 'dims': list(dims), 'options': [opt_label(o) for o in combos][:8], 'atoms': [a[0] for a in atoms]}


# ---------------------------------------------------------------------------------------------- histories
def run_pt_hist(case, out, env):
    import numqi
    dims = tuple(case['dims'])
    n, D = len(dims), prod(dims)
    alphabet = []
    for label, rho128, lit, fac, is_state in pt_atoms_for(env, dims, 'pt_hist'):
        if is_state or label == 'sparse':
            alphabet.append((label, rho128, lit, is_state))
    rng = env.rng('C17', 'pt_hist_pure', dims)
    v = ref.rand_state(rng, D)
    alphabet.append(('generic_pure_state', np.outer(v, v.conj()), {'rho': '|v><v|', 'v': v}, True))
    if D <= 16:
        for a in range(D):
            for b in range(D):
                m = np.zeros((D, D), dtype=np.complex128)
                m[a, b] = W_UNIT
                alphabet.append(('unit', m, {'rho': 'w*E_ab', 'a': a, 'b': b, 'w': W_UNIT}, False))
    full = tuple(range(n))
    for label, rho0, lit, is_state in alphabet:
        refs = {}

        def refpt(rem):
            if rem not in refs:
                exp = ref.partial_trace(rho0, dims, list(rem))
                kap = (D // prod(dims[i] for i in rem)) * max(1e-300, float(ref.partial_trace(np.abs(rho0), dims, list(rem)).real.max()))
                refs[rem] = (exp, kap)
            return refs[rem]
        tr0 = complex(np.trace(rho0))

        def step(cur, rem, new_rem, hist, kind):
            """one transition: from the operator on `rem` to the operator on `new_rem` (subset), compared with the one-shot reference"""
            cd = tuple(dims[i] for i in rem)
            pos = [rem.index(i) for i in new_rem]
            dk = prod(dims[i] for i in new_rem)

            def detail():
                r = {'dims': list(dims), 'atom': label, 'history_removed': [list(h) if isinstance(h, tuple) else h for h in hist],
                     'call': 'partial_trace(current, %r, %r)' % (cd, set(pos)), 'remaining_subsystems': list(new_rem)}
                r.update(lit)
                return r
            ok, got = call_pt(numqi, out, cur, cd, set(pos), list(new_rem), detail)
            if not ok or not check_pt_output(out, got, dk, list(new_rem), detail):
                return None
            exp, kap = refpt(tuple(new_rem))
            nstep = len(hist)
            tol = C_SAFETY * EPS['c128'] * kap * nstep
            err = float(np.abs(got - exp).max())
            if not err <= tol:
                # every earlier step was verified, so this is one wrong call on a correct input: same finding key as a single call
                out.violation(pt_key('not_explicit_contraction', list(new_rem)),
                              'tracing out %r in this order (%s): the last call gives an operator that differs from the one-shot contraction of '
                              'the original by %.3g (tol %.3g)' % (hist, kind, err, tol), observed=got if dk <= 64 else 'omitted', **detail())
                return None  # do not continue a history from a wrong operator
            if abs(np.trace(got) - tr0) > tol * dk + C_SAFETY * EPS['c128'] * abs(tr0) * dk:
                out.violation(pt_key('trace_not_preserved', list(new_rem)),
                              'trace %r after the history %r, original trace %r' % (complex(np.trace(got)), hist, tr0), **detail())
            return got

        # all histories: remove one subsystem at a time, every order, every length
        n_nontriv = [0]

        def dfs(cur, rem, hist):
            out.state()
            if not rem:
                out.trace()
                return
            for i in rem:
                new_rem = tuple(j for j in rem if j != i)
                got = step(cur, rem, new_rem, hist + [i], 'one subsystem at a time')
                if got is None:
                    continue
                if label != 'unit':
                    out.outcome((dims, label, tuple(hist + [i]), got if got.size <= 256 else got[:4, :4]),
                                nontrivial=bool(new_rem) and bool(np.abs(got).max() > 1e-12))
                dfs(got, new_rem, hist + [i])
        dfs(rho0, full, [])
        # all nested pairs T <= S <= full: two steps versus one step (reference and implementation)
        for smask in range(2**n):
            S = tuple(i for i in range(n) if (smask >> i) & 1)
            if len(S) == n:
                continue
            removed1 = tuple(i for i in full if i not in S)
            first = step(rho0, full, S, [removed1], 'one shot')
            if first is None:
                continue
            sub = smask
            while True:  # all submasks of smask
                T = tuple(i for i in range(n) if (sub >> i) & 1)
                if T != S:
                    out.state()
                    removed2 = tuple(i for i in S if i not in T)
                    second = step(first, S, T, [removed1, removed2], 'two steps')
                    if second is not None:
                        out.trace()
                        if label == 'unit':
                            out.outcome((dims, 'unit-two-step', smask, sub, bool(np.abs(second).max() > 0.5)),
                                        nontrivial=bool(T) and bool(np.abs(second).max() > 0.5))
                if sub == 0:
                    break
                sub = (sub - 1) & smask
    out.sample = {'kind': 'pt_hist', 'dims': list(dims), 'example_history_removed': list(range(n))[::-1], 'atoms': sorted({a[0] for a in alphabet})}


# =============================================================================================== Dicke
def run_dicke_basis(case, out, env):
    import numqi
    k, d = case['k'], case['d']
    N = d**k
    Dk = numqi.dicke
    occ = ref_occupations(k, d)
    vec = ref_dicke_vectors(k, d)
    eps = EPS['f64']
    base = {'num_qudit': k, 'dim': d}

    def guarded(fn, name, *args):
        out.trans()
        try:
            return True, fn(*args)
        except Exception as e:  # noqa
            out.violation('dicke/%s/%s' % (name, type(e).__name__), '%s%r raised %s: %s' % (name, args, type(e).__name__, str(e)[:200]), args=list(args))
            return False, None
    # number and list of occupation tuples
    ok, num = guarded(Dk.get_dicke_number, 'get_dicke_number', k, d)
    out.state()
    if ok and not (isinstance(num, int) and num == len(occ)):
        out.violation('dicke/get_dicke_number/wrong', 'get_dicke_number(%d,%d) = %r, there are %d occupation tuples' % (k, d, num, len(occ)), **base)
    ok, klist = guarded(Dk.get_dicke_klist, 'get_dicke_klist', k, d)
    if not ok:
        return
    klist = [tuple(int(x) for x in t) for t in klist]
    out.state(len(klist))
    if sorted(klist) != list(occ):
        out.violation('dicke/get_dicke_klist/not_all_occupations', 'get_dicke_klist(%d,%d) is not a complete duplicate-free list of the '
                      'occupation tuples' % (k, d), observed=klist, **base)
        return
    out.outcome(('klist', k, d, klist), nontrivial=len(klist) > 1)
    ok, basis = guarded(Dk.get_dicke_basis, 'get_dicke_basis', k, d)
    if not ok:
        return
    if not (isinstance(basis, np.ndarray) and basis.shape == (len(occ), N)):
        out.violation('dicke/get_dicke_basis/shape', 'get_dicke_basis(%d,%d) has shape %r, expected %r' % (k, d, getattr(basis, 'shape', None), (len(occ), N)), **base)
        return
    if np.iscomplexobj(basis) or basis.dtype != np.float64:
        out.violation('dicke/get_dicke_basis/not_real', 'basis dtype %s, documented float64' % basis.dtype, **base)
    if not np.all(np.isfinite(basis)):
        out.violation('dicke/get_dicke_basis/nonfinite', 'basis contains NaN/Inf', **base)
        return
    m_max = max(int(round(1 / v.max()**2)) for v in vec.values())
    tol_entry = C_SAFETY * eps
    tol_sum = C_SAFETY * eps * (m_max + 4)
    # every row equals the reference Dicke vector of its occupation tuple; Dicke(*klist) equals the row
    for i, t in enumerate(klist):
        out.state()
        err = float(np.abs(basis[i] - vec[t]).max())
        if not err <= tol_entry:
            out.violation('dicke/get_dicke_basis/row_not_dicke_vector', 'row %d (occupation %r) of get_dicke_basis(%d,%d) differs from the '
                          'normalised sum of all strings with that occupation by %.3g' % (i, t, k, d, err), row=basis[i], occupation=t, **base)
        ok, v = guarded(Dk.Dicke, 'Dicke', *t)
        if ok:
            if not (isinstance(v, np.ndarray) and v.shape == (N,)):
                out.violation('dicke/Dicke/shape', 'Dicke%r has shape %r' % (t, getattr(v, 'shape', None)), occupation=t)
            elif not float(np.abs(v - vec[t]).max()) <= tol_entry:
                out.violation('dicke/Dicke/not_dicke_vector', 'Dicke%r differs from the normalised sum of all strings with that occupation' % (t,), observed=v, occupation=t)
            elif not np.array_equal(v, basis[i]):
                out.violation('dicke/Dicke/not_basis_row', 'Dicke%r differs from row %d of get_dicke_basis(%d,%d)' % (t, i, k, d), observed=v, occupation=t)
            out.outcome(('dicke', k, d, t, np.flatnonzero(v)), nontrivial=int(np.count_nonzero(v)) > 1)
        out.trace()
    # orthonormal
    gram = basis @ basis.T
    out.state(len(occ) * len(occ))
    err = float(np.abs(gram - np.eye(len(occ))).max())
    if not err <= tol_sum:
        i, j = np.unravel_index(np.argmax(np.abs(gram - np.eye(len(occ)))), gram.shape)
        out.violation('dicke/get_dicke_basis/not_orthonormal', '<D_%d|D_%d> = %r for get_dicke_basis(%d,%d)' % (i, j, gram[i, j], k, d), **base)
    # invariant under every permutation of the copies (transpositions first: they generate the group)
    perms = sorted(itertools.permutations(range(k)), key=lambda p: (sum(1 for a, b in enumerate(p) if a != b), p))
    for perm in perms:
        if perm == tuple(range(k)):
            continue
        out.state()
        idx = ref_perm_index(k, d, perm)
        moved = basis[:, idx]
        err = float(np.abs(moved - basis).max())
        if not err <= tol_entry:
            nmoved = sum(1 for a, b in enumerate(perm) if a != b)
            out.violation('dicke/get_dicke_basis/not_permutation_invariant/%s' % ('transposition' if nmoved == 2 else 'permutation'),
                          'get_dicke_basis(%d,%d) changes by %.3g under the permutation %r of the copies' % (k, d, err, perm), permutation=perm, **base)
    out.outcome(('perm-invariant', k, d, len(perms)), nontrivial=k > 1)
    # spans exactly the symmetric subspace: basis^T basis is the symmetriser
    if N <= P_SYM_CAP:
        P = ref_symmetriser(k, d)
        if abs(np.trace(P) - len(occ)) > 1e-9:
            raise RuntimeError('reference: trace of the symmetriser %r != number of occupation tuples %d' % (np.trace(P), len(occ)))
        out.state()
        err = float(np.abs(basis.T @ basis - P).max())
        if not err <= tol_sum:
            out.violation('dicke/get_dicke_basis/not_symmetric_projector', 'sum_a |D_a><D_a| differs from the symmetriser (1/k!) sum_pi P_pi by %.3g '
                          'for (k,d)=(%d,%d): the rows do not span exactly the symmetric subspace' % (err, k, d), **base)
    else:
        out.count('symmetriser_not_built_above_cap')
    out.sample = {'kind': 'dicke_basis', 'k': k, 'd': d, 'n_dicke': len(occ), 'permutations': len(perms)}


def run_dicke_index(case, out, env):
    import numqi
    k, d = case['k'], case['d']
    Dk = numqi.dicke
    basis, klist = numqi_order_basis(numqi, k, d)
    if basis is None:
        out.count('klist_invalid_see_dicke_basis')
        out.state()
        out.trans()
        return
    nD = len(klist)
    base = {'num_qudit': k, 'dim': d}
    tol = C_SAFETY * EPS['f64'] * (d**(k - 1) + 4)
    out.trans()
    try:
        B = Dk.get_partial_trace_ABk_to_AB_index(k, d, return_tensor=True)
    except Exception as e:  # noqa
        out.violation('dicke/get_partial_trace_ABk_to_AB_index/%s' % type(e).__name__, 'get_partial_trace_ABk_to_AB_index(%d,%d,return_tensor=True) raised %r' % (k, d, e), **base)
        return
    if not (isinstance(B, np.ndarray) and B.shape == (d, d, nD, nD)):
        out.violation('dicke/get_partial_trace_ABk_to_AB_index/tensor_shape', 'tensor has shape %r, documented %r' % (getattr(B, 'shape', None), (d, d, nD, nD)), **base)
        return
    if not np.all(np.isfinite(B)):
        out.violation('dicke/get_partial_trace_ABk_to_AB_index/nonfinite', 'tensor contains NaN/Inf', **base)
        return
    for copy in range(k):
        Bref = ref_B_tensor(basis, k, d, copy)
        out.state(d * d * nD * nD)
        diff = np.abs(B - Bref)
        if not float(diff.max()) <= tol:
            r, s, a, b = [int(x) for x in np.unravel_index(np.argmax(diff), diff.shape)]
            group = 'diagonal_r=s' if r == s else 'offdiagonal_r!=s'
            out.violation('dicke/get_partial_trace_ABk_to_AB_index/tensor_not_contraction/%s' % group,
                          'B[r=%d,s=%d,a=%d,b=%d] = %r but Tr_{k-1}[<r|D_a><D_b|s>] = %r (copy %d kept; D_a, D_b have occupations %r, %r; (k,d)=(%d,%d))'
                          % (r, s, a, b, B[r, s, a, b], Bref[r, s, a, b], copy, klist[a], klist[b], k, d), kept_copy=copy, **base)
            break
    out.outcome(('B', k, d, B), nontrivial=bool(np.count_nonzero(np.abs(B) > 1e-12) > 1))
    # list form
    out.trans()
    try:
        Bij = Dk.get_partial_trace_ABk_to_AB_index(k, d)
    except Exception as e:  # noqa
        out.violation('dicke/get_partial_trace_ABk_to_AB_index/%s' % type(e).__name__, 'get_partial_trace_ABk_to_AB_index(%d,%d) raised %r' % (k, d, e), **base)
        return
    good = isinstance(Bij, (list, tuple)) and len(Bij) == d * d and all(len(x) == 3 for x in Bij)
    if good:
        for i0, i1, val in Bij:
            i0, i1, val = np.asarray(i0), np.asarray(i1), np.asarray(val)
            good = good and i0.dtype.kind in 'iu' and i1.dtype.kind in 'iu' and val.dtype == np.float64 and i0.ndim == 1 \
                and i0.shape == i1.shape == val.shape and (i0.size == 0 or (i0.min() >= 0 and i1.min() >= 0 and i0.max() < nD and i1.max() < nD))
    if not good:
        out.violation('dicke/get_partial_trace_ABk_to_AB_index/list_malformed', 'list form is not d*d triples (int indices, int indices, float64 values) in range', **base)
        return
    S = np.zeros((d * d, nD, nD), dtype=np.float64)
    cnt = np.zeros((d * d, nD, nD), dtype=np.int64)
    for q, (i0, i1, val) in enumerate(Bij):
        np.add.at(S[q], (np.asarray(i0), np.asarray(i1)), np.asarray(val))
        np.add.at(cnt[q], (np.asarray(i0), np.asarray(i1)), 1)
    out.state(d * d)
    if cnt.max() > 1:
        out.violation('dicke/get_partial_trace_ABk_to_AB_index/list_duplicate_pairs', 'an index pair occurs twice in one triple of the list form', **base)
    Bref0 = ref_B_tensor(basis, k, d, 0)
    diff = np.abs(S.reshape(d, d, nD, nD) - Bref0)
    if not float(diff.max()) <= tol:
        r, s, a, b = [int(x) for x in np.unravel_index(np.argmax(diff), diff.shape)]
        out.violation('dicke/get_partial_trace_ABk_to_AB_index/list_not_contraction',
                      'list form scatters to B[r=%d,s=%d,a=%d,b=%d] = %r, explicit contraction %r, (k,d)=(%d,%d)' % (r, s, a, b, S.reshape(d, d, nD, nD)[r, s, a, b], Bref0[r, s, a, b], k, d), **base)
    out.trace()
    if d == 2 and k >= 2:
        out.trans()
        out.state()
        try:
            a00, a01, a11 = Dk.get_qubit_dicke_partial_trace(k)
            # documented relation (tests): B[0,0]=diag(a00), B[0,1]=diag(a01,-1), B[1,0]=diag(a01,+1), B[1,1]=diag(a11) in numqi's order
            Q = np.zeros((2, 2, k + 1, k + 1))
            Q[0, 0], Q[0, 1], Q[1, 0], Q[1, 1] = np.diag(a00), np.diag(a01, -1), np.diag(a01, 1), np.diag(a11)
            if not float(np.abs(Q - Bref0).max()) <= tol:
                out.violation('dicke/get_qubit_dicke_partial_trace/not_contraction', 'qubit formulas differ from the explicit contraction for k=%d' % k, **base)
        except Exception as e:  # noqa
            out.violation('dicke/get_qubit_dicke_partial_trace/%s' % type(e).__name__, 'get_qubit_dicke_partial_trace(%d) raised %r' % (k, e), **base)
    out.sample = {'kind': 'dicke_index', 'k': k, 'd': d, 'kept_copies_compared': k}


# ---------------------------------------------------------------------------------------------- the fast reduction
FLAVOURS = ['numpy', 'torch_f', 'torch_c']


def make_bij(numqi, k, dB, flavour, dt='c128'):
    """index triples as a caller prepares them: numpy = as returned; torch_f = torch.tensor of every array (tests/test_dicke.py),
    values cast to the real precision of the state; torch_c = (int64,int64,complex) as PureBosonicExt does"""
    Bij = numqi.dicke.get_partial_trace_ABk_to_AB_index(k, dB)
    if flavour == 'numpy':
        return Bij
    import torch
    if flavour == 'torch_f':
        return [[torch.tensor(np.asarray(x[0])), torch.tensor(np.asarray(x[1])), torch.tensor(np.asarray(x[2]).astype(REAL_OF[dt]))] for x in Bij]
    cdt = torch.complex128 if dt in ('c128', 'f64') else torch.complex64
    return [[torch.tensor(np.asarray(x[0]), dtype=torch.int64), torch.tensor(np.asarray(x[1]), dtype=torch.int64), torch.tensor(np.asarray(x[2]), dtype=cdt)] for x in Bij]


def reduce_call(numqi, out, state_np, Bij, flavour, dA, dB, detail, keyextra=''):
    """one call of partial_trace_ABk_to_AB; returns complex ndarray or None"""
    out.trans()
    site = 'dicke/partial_trace_ABk_to_AB/%s' % ('numpy' if flavour == 'numpy' else 'torch')
    x = state_np
    if flavour != 'numpy':
        import torch
        x = torch.from_numpy(state_np)  # keeps the memory layout (strides) of the numpy array
    try:
        got = numqi.dicke.partial_trace_ABk_to_AB(x, Bij)
    except Exception as e:  # noqa
        out.violation('%s/%s%s' % (site, type(e).__name__, keyextra), 'partial_trace_ABk_to_AB raised %s: %s' % (type(e).__name__, str(e)[:200]), **detail())
        return None
    is_torch = hasattr(got, 'detach')
    if is_torch != (flavour != 'numpy'):
        out.violation(site + '/backend_mismatch', 'returned %s for a %s input' % (type(got).__name__, flavour), **detail())
    g = to_np(got)
    if g.shape != (dA * dB, dA * dB):
        out.violation(site + '/shape', 'returned shape %r, expected %r' % (g.shape, (dA * dB, dA * dB)), **detail())
        return None
    if not np.all(np.isfinite(g)):
        out.violation(site + '/nonfinite', 'returned NaN/Inf', **detail())
        return None
    return g


def run_reduce(case, out, env):
    import numqi
    dA, dB, k = case['dA'], case['dB'], case['k']
    basis, klist = numqi_order_basis(numqi, k, dB)
    if basis is None:
        out.count('klist_invalid_see_dicke_basis')
        out.state()
        out.trans()
        return
    nD = len(klist)
    N = dA * nD
    bij = {f: make_bij(numqi, k, dB, f) for f in FLAVOURS}
    kap0 = nD + dB**(k - 1) + 8
    small = dA * dB**k <= FULL_DM_CAP
    kx = ''  # (no per-k suffix: one defect, one key)

    def element(i, j, phase):
        st = np.zeros(N, dtype=np.complex128)
        st[i] = 1
        if j is not None:
            st[j] += phase
        return st.reshape(dA, nD)
    for i in range(case['lo'], case['hi']):
        elems = [(i, None, None)]
        for j in range(i + 1, N):
            elems += [(i, j, 1.0), (i, j, 1j)]
        for (ii, jj, ph) in elems:
            st = element(ii, jj, ph)
            norm2 = 1.0 if jj is None else 2.0
            tol = C_SAFETY * EPS['c128'] * kap0 * norm2
            exp = ref_reduce(st, basis, dA, dB, k, 0)
            if small:
                e2 = ref_reduce_loops(st, basis, dA, dB, k, 0)
                if np.abs(e2 - exp).max() > tol:
                    raise RuntimeError('reference models disagree (dA,dB,k)=%r element %r' % ((dA, dB, k), (ii, jj, ph)))
            out.state()

            def detail(f=None):
                return {'dimA': dA, 'dimB': dB, 'kext': k, 'flavour': f, 'state': 'zeros((dimA, n_dicke)); flat index i set to 1, flat index j (if any) set to phase',
                        'i': ii, 'j': jj, 'phase': ph, 'i_means': {'a': ii // nD, 'dicke_occupation': klist[ii % nD]},
                        'j_means': None if jj is None else {'a': jj // nD, 'dicke_occupation': klist[jj % nD]}, 'expected': exp}
            first = None
            for f in FLAVOURS:
                g = reduce_call(numqi, out, st, bij[f], f, dA, dB, lambda: detail(f), kx)
                if g is None:
                    continue
                err = float(np.abs(g - exp).max())
                if not err <= tol:
                    cls = 'single' if jj is None else ('same_a' if ii // nD == jj // nD else 'different_a')
                    out.violation('dicke/partial_trace_ABk_to_AB/%s/not_embed_then_trace' % ('numpy' if f == 'numpy' else 'torch'),
                                  'fast reduction of the polarisation element (i=%d, j=%r, phase=%r; %s) for (dimA,dimB,k)=(%d,%d,%d) differs from embedding '
                                  'with the Dicke basis and tracing out k-1 copies by %.3g (tol %.3g)' % (ii, jj, ph, cls, dA, dB, k, err, tol), observed=g, **detail(f))
                if first is None:
                    first = g
            if first is not None:
                out.outcome((dA, dB, k, np.flatnonzero(np.abs(first.reshape(-1)) > 1e-12), np.round(first.reshape(-1)[np.abs(first.reshape(-1)) > 1e-12], 6)),
                            nontrivial=int(np.count_nonzero(np.abs(first) > 1e-12)) > 1)
            out.trace()
    out.sample = {'kind': 'reduce', 'dimA': dA, 'dimB': dB, 'kext': k, 'element': 'e_%d + i*e_%d' % (case['lo'], N - 1), 'n_dicke': nD}
    out.agg = ('reduce', out.states)


def run_reduce_atoms(case, out, env):
    import numqi
    dA, dB, k = case['dA'], case['dB'], case['k']
    basis, klist = numqi_order_basis(numqi, k, dB)
    if basis is None:
        out.count('klist_invalid_see_dicke_basis')
        out.state()
        out.trans()
        return
    nD = len(klist)
    G = n_atoms(env.tier)
    rng = env.rng('C17', 'reduce_atoms', dA, dB, k)
    small = dA * dB**k <= FULL_DM_CAP
    kx = ''  # (no per-k suffix: one defect, one key)
    atoms = []
    for g in range(G):
        v = rng.normal(size=(dA, nD)) + 1j * rng.normal(size=(dA, nD))
        if g % 3 == 1:
            v = v.real + 0j
        atoms.append(('atom%d%s' % (g, '(real)' if g % 3 == 1 else ''), v / np.linalg.norm(v)))
    bijs = {}
    failed_c128 = set()
    for label, v in atoms:
        for dt in ('c128', 'c64', 'f64', 'f32'):
            if IS_REAL[dt] and np.abs(v.imag).max() > 0:
                continue
            x = (v.real if IS_REAL[dt] else v).astype(NP_DT[dt])
            exact = x.astype(np.complex128)
            norm2 = float(np.linalg.norm(exact)**2)
            tol = C_SAFETY * EPS[dt] * (nD + dB**(k - 1) + 8) * norm2
            exps = [ref_reduce(exact, basis, dA, dB, k, c) for c in range(k)]
            # reference side: a vector of A (x) Sym^k(B) has the same reduction onto (A, any copy)
            for c in range(1, k):
                if np.abs(exps[c] - exps[0]).max() > C_SAFETY * EPS['c128'] * (nD + dB**(k - 1) + 8) * norm2:
                    raise RuntimeError('reference: reductions onto different copies disagree (dA,dB,k)=%r' % ((dA, dB, k),))
            if small:
                if np.abs(ref_reduce_loops(exact, basis, dA, dB, k, k - 1) - exps[0]).max() > C_SAFETY * EPS['c128'] * (nD + dB**(k - 1) + 8) * norm2:
                    raise RuntimeError('reference models disagree (dA,dB,k)=%r' % ((dA, dB, k),))
            exp = exps[0]
            for layout in ('C', 'F'):
                xin = np.ascontiguousarray(x) if layout == 'C' else np.asfortranarray(x)
                for f in FLAVOURS:
                    if f == 'torch_c' and IS_REAL[dt]:
                        continue  # complex triples with a real tensor: torch matmul needs equal dtypes; not a documented combination
                    if (f, dt) not in bijs:
                        bijs[(f, dt)] = make_bij(numqi, k, dB, f, dt)
                    out.state()

                    def detail():
                        return {'dimA': dA, 'dimB': dB, 'kext': k, 'flavour': f, 'dtype': dt, 'layout': layout, 'state': exact, 'atom': label}
                    got = reduce_call(numqi, out, xin, bijs[(f, dt)], f, dA, dB, detail, kx)
                    if got is None:
                        continue
                    g128 = got.astype(np.complex128)
                    err = float(np.abs(g128 - exp).max())
                    site = 'dicke/partial_trace_ABk_to_AB/%s' % ('numpy' if f == 'numpy' else 'torch')
                    # smallest configuration in the key: the dtype only if complex128 is not affected (complex128 runs first)
                    suffix = ('' if (dt == 'c128' or (label, f) in failed_c128) else '/dtype=%s' % dt) + kx
                    if not err <= tol:
                        if dt == 'c128':
                            failed_c128.add((label, f))
                            suffix = kx
                        out.violation('%s/not_embed_then_trace%s' % (site, suffix),
                                      'fast reduction of a generic vector for (dimA,dimB,k)=(%d,%d,%d), %s %s %s differs from embed-then-trace by %.3g '
                                      '(tol %.3g)' % (dA, dB, k, f, dt, layout, err, tol), observed=got, expected=exp, **detail())
                    if abs(np.trace(g128) - 1) > tol * dA * dB:
                        out.violation('%s/not_unit_trace%s' % (site, suffix), 'reduced state of a normalised vector has trace %r' % complex(np.trace(g128)), **detail())
                    if np.abs(g128 - g128.conj().T).max() > 2 * tol:
                        out.violation('%s/not_hermitian%s' % (site, suffix), 'reduced state is not hermitian', **detail())
                    elif np.linalg.eigvalsh((g128 + g128.conj().T) / 2)[0] < -tol * dA * dB:
                        out.violation('%s/not_positive%s' % (site, suffix), 'reduced state has a negative eigenvalue', **detail())
                    if layout == 'C' and dt == 'c128':
                        out.outcome((dA, dB, k, label, f, got), nontrivial=int(np.count_nonzero(np.abs(got) > 1e-12)) > 1)
                    out.trace()
    # sesquilinearity residuals (trusted base of kind reduce): parallelogram law and homogeneity, every flavour
    x, y = atoms[0][1], atoms[1][1]
    c = complex(*rng.normal(size=2))
    tol = 8 * C_SAFETY * EPS['c128'] * (nD + 8) * (1 + abs(c)**2)
    for f in FLAVOURS:
        if (f, 'c128') not in bijs:
            bijs[(f, 'c128')] = make_bij(numqi, k, dB, f)
        B = bijs[(f, 'c128')]
        d0 = lambda: {'dimA': dA, 'dimB': dB, 'kext': k, 'flavour': f, 'x': x, 'y': y, 'c': c}  # noqa
        out.state()
        r = [reduce_call(numqi, out, z, B, f, dA, dB, d0, kx) for z in (x + y, x - y, x, y, c * x)]
        if any(z is None for z in r):
            continue
        site = 'dicke/partial_trace_ABk_to_AB/%s' % ('numpy' if f == 'numpy' else 'torch')
        res = float(np.abs(r[0] + r[1] - 2 * r[2] - 2 * r[3]).max())
        if not res <= tol:
            out.violation(site + '/not_sesquilinear/parallelogram', 'f(x+y)+f(x-y)-2f(x)-2f(y) has residual %.3g' % res, **d0())
        res = float(np.abs(r[4] - abs(c)**2 * r[2]).max())
        if not res <= tol:
            out.violation(site + '/not_sesquilinear/homogeneity', 'f(c x) - |c|^2 f(x) has residual %.3g' % res, **d0())
    out.sample = {'kind': 'reduce_atoms', 'dimA': dA, 'dimB': dB, 'kext': k, 'atoms': [a[0] for a in atoms], 'first_atom': atoms[0][1]}


# ---------------------------------------------------------------------------------------------- anchored consumers
def alt_of(op, rho):
    """Re Tr[op^T rho]: what a transposed / conjugated operator would give (non-trivial run = distinguishable from it)"""
    return float(np.trace(op.T @ rho).real)


def run_consumers(case, out, env):
    import numqi
    import torch
    dA, dB, k = case['dA'], case['dB'], case['k']
    basis, klist = numqi_order_basis(numqi, k, dB)
    if basis is None:
        out.count('klist_invalid_see_dicke_basis')
        out.state()
        out.trans()
        return
    nD = len(klist)
    base = {'dimA': dA, 'dimB': dB, 'kext': k}
    # ---- PureBosonicExt.forward: the reduced state it reports is the embed-then-trace of its own vector
    rng = env.rng('C17', 'consumers', dA, dB, k)
    out.trans()
    try:
        model = numqi.entangle.PureBosonicExt(dA, dB, k)
        model.set_expectation_op(np.eye(dA * dB))
        # one generic Hermitian, NON-symmetric complex operator per (dA,dB,k): forward() returns Re Tr[op rho_AB] (for the identity
        # a transposed or conjugated operator is invisible)
        hop = rng.normal(size=(dA * dB, dA * dB)) + 1j * rng.normal(size=(dA * dB, dA * dB))
        hop = (hop + hop.conj().T) / 2
    except Exception as e:  # noqa
        out.violation('consumer/PureBosonicExt/%s' % type(e).__name__, 'PureBosonicExt(%d,%d,%d) raised %r' % (dA, dB, k, e), **base)
        model = None
    if model is not None:
        npar = int(sum(p.numel() for p in model.parameters()))
        for g in range(n_atoms(env.tier)):
            theta = rng.normal(size=npar)
            out.state()
            out.trans()
            try:
                numqi.optimize.set_model_flat_parameter(model, theta)
                with torch.no_grad():
                    loss = float(model())
                    vec = to_np(model.manifold()).reshape(dA, -1)
                dm = to_np(model.dm_torch)
            except Exception as e:  # noqa
                out.violation('consumer/PureBosonicExt/forward/%s' % type(e).__name__, 'forward() raised %r' % (e,), theta=theta, **base)
                break
            if vec.shape != (dA, nD) or dm.shape != (dA * dB, dA * dB):
                out.violation('consumer/PureBosonicExt/forward/shape', 'vector %r, dm %r' % (vec.shape, dm.shape), theta=theta, **base)
                break
            norm2 = float(np.linalg.norm(vec)**2)
            tol = C_SAFETY * EPS['c128'] * (nD + dB**(k - 1) + 8) * max(1.0, norm2)
            exp = ref_reduce(vec, basis, dA, dB, k, 0)
            err = float(np.abs(dm - exp).max())
            if not err <= tol:
                out.violation('consumer/PureBosonicExt/forward/not_embed_then_trace', 'dm_torch differs from embed-then-trace of the manifold vector by %.3g '
                              '(tol %.3g)' % (err, tol), theta=theta, vector=vec, observed=dm, expected=exp, **base)
            elif abs(loss - 1) > tol * dA * dB + 64 * EPS['c128']:
                out.violation('consumer/PureBosonicExt/forward/not_unit_trace', 'Tr(rho_AB * 1) = %r' % loss, theta=theta, **base)
            out.outcome((dA, dB, k, 'pureb', dm), nontrivial=int(np.count_nonzero(np.abs(dm) > 1e-12)) > 1)
            out.trace()
            # the same parameters with the generic Hermitian operator, then back to the identity (set_expectation_op history)
            out.state()
            out.trans()
            try:
                model.set_expectation_op(hop)
                with torch.no_grad():
                    loss_h = float(model())
                dm_h = to_np(model.dm_torch)
                model.set_expectation_op(np.eye(dA * dB))
                with torch.no_grad():
                    loss_1 = float(model())
            except Exception as e:  # noqa
                out.violation('consumer/PureBosonicExt/forward/%s/expectation_op=hermitian' % type(e).__name__, 'forward() raised %r' % (e,), theta=theta, op=hop, **base)
                break
            # every entry of rho_AB is within tol of the reference (checked above for the identity run; re-checked for this run), so
            # |Tr[op rho] - Tr[op ref]| <= tol * sum|op_ij|; the dot product itself sums (dA dB)^2 products |op_ij| |rho_ji| <= max|op| * |psi|^2
            exp_h = float(np.trace(hop @ exp).real)
            tol_h = tol * float(np.abs(hop).sum()) + C_SAFETY * EPS['c128'] * (dA * dB)**2 * float(np.abs(hop).max()) * max(1.0, norm2)
            if not err <= tol:
                out.count('consumer_op_not_compared_after_wrong_dm')  # reported once, by the identity run
            elif dm_h.shape != dm.shape or not float(np.abs(dm_h - exp).max()) <= tol:
                out.violation('consumer/PureBosonicExt/forward/not_embed_then_trace/expectation_op=hermitian', 'dm_torch after set_expectation_op(H) '
                              'differs from embed-then-trace of the manifold vector', theta=theta, vector=vec, op=hop, observed=dm_h, expected=exp, **base)
            elif not abs(loss_h - exp_h) <= tol_h:
                # which wrong quantity it is (smallest description): transpose / conjugate of the operator
                alt = float(np.trace(hop.T @ exp).real)
                out.violation('consumer/PureBosonicExt/forward/not_expectation_value', 'forward() = %r for a generic Hermitian non-symmetric op, Re Tr[op rho_AB] '
                              '= %r (tol %.3g; Re Tr[op^T rho_AB] = %r)' % (loss_h, exp_h, tol_h, alt), theta=theta, vector=vec, op=hop, expected_rho=exp, **base)
            elif abs(loss_1 - loss) > 2 * (tol * dA * dB + 64 * EPS['c128']):
                out.violation('consumer/PureBosonicExt/forward/not_expectation_value/op_history', 'identity -> H -> identity: Tr(rho_AB * 1) changed from '
                              '%r to %r' % (loss, loss_1), theta=theta, op=hop, **base)
            out.outcome((dA, dB, k, 'pureb_h', round(loss_h, 9)), nontrivial=abs(loss_h - alt_of(hop, exp)) > 1e-9)
            out.trace()
    # ---- preimage operators
    if k >= 2 and dA < 2:
        out.count('rejected_by_precondition')  # get_ABk_gellmann_preimage_op asserts dimA >= 2
    if k >= 2 and dA >= 2:
        N0 = (dA * dB)**2 - 1
        G = numqi.gellmann.all_gellmann_matrix(dA * dB, with_I=False)
        P = np.zeros((dA, dB**k, dA, nD))
        for a in range(dA):
            P[a, :, a, :] = basis.T
        T = P.reshape(dA, dB, dB**(k - 1), dA * nD)
        tol = C_SAFETY * EPS['c128'] * (dA * dB**k + 8) * 2
        out.trans()
        try:
            ops = numqi.maximum_entropy.get_ABk_gellmann_preimage_op(dA, dB, k, kind='boson')
        except Exception as e:  # noqa
            out.violation('consumer/get_ABk_gellmann_preimage_op/boson/%s' % type(e).__name__, 'raised %r' % (e,), **base)
            ops = None
        if ops is not None:
            if ops.shape != (N0, dA * nD, dA * nD):
                out.violation('consumer/get_ABk_gellmann_preimage_op/boson/shape', 'shape %r' % (ops.shape,), **base)
            else:
                T2 = T.reshape(dA * dB, dB**(k - 1), dA * nD)
                exp = np.zeros((N0, dA * nD, dA * nD), dtype=np.complex128)
                for x in range(dB**(k - 1)):  # P^dagger (G (x) 1) P = sum_x T_x^dagger G T_x, x = configuration of the traced copies
                    exp += (T2[:, x, :].conj().T[None] @ G) @ T2[:, x, :][None]
                out.state(N0)
                err = np.abs(ops - exp).reshape(N0, -1).max(axis=1)
                if not float(err.max()) <= tol:
                    i = int(np.argmax(err > tol))
                    out.violation('consumer/get_ABk_gellmann_preimage_op/boson/not_dual_of_reduction',
                                  'operator %d for (dimA,dimB,k)=(%d,%d,%d) differs from P^dagger (G_%d (x) 1) P by %.3g (tol %.3g); P = Dicke embedding'
                                  % (i, dA, dB, k, i, err[i], tol), index=i, observed=ops[i], expected=exp[i], **base)
                out.outcome((dA, dB, k, 'boson', ops[:4]), nontrivial=True)
                out.trace()
        if dA * dB**k <= SYM_OP_CAP:
            out.trans()
            try:
                ops = numqi.maximum_entropy.get_ABk_gellmann_preimage_op(dA, dB, k, kind='symmetric')
            except Exception as e:  # noqa
                out.violation('consumer/get_ABk_gellmann_preimage_op/symmetric/%s' % type(e).__name__, 'raised %r' % (e,), **base)
                ops = None
            if ops is not None:
                Df = dA * dB**k
                if ops.shape != (N0, Df, Df):
                    out.violation('consumer/get_ABk_gellmann_preimage_op/symmetric/shape', 'shape %r' % (ops.shape,), **base)
                else:
                    eye = np.eye(dB**(k - 1))
                    full0 = np.einsum('iab,xy->iaxby', G, eye).reshape([N0, dA] + [dB] * k + [dA] + [dB] * k)  # G_i on (A, B_0)
                    exp = 0
                    for j in range(k):
                        exp = exp + np.swapaxes(np.swapaxes(full0, 2, 2 + j), 3 + k, 3 + k + j)
                    exp = (exp / k).reshape(N0, Df, Df)
                    out.state(N0)
                    err = np.abs(ops - exp).reshape(N0, -1).max(axis=1)
                    tol2 = C_SAFETY * EPS['c128'] * (k + 2) * 2
                    if not float(err.max()) <= tol2:
                        i = int(np.argmax(err > tol2))
                        out.violation('consumer/get_ABk_gellmann_preimage_op/symmetric/not_average_over_copies',
                                      'operator %d for (dimA,dimB,k)=(%d,%d,%d) differs from (1/k) sum_j G_%d on (A,B_j) by %.3g' % (i, dA, dB, k, i, err[i]),
                                      index=i, **base)
                    # restricted to the symmetric subspace it is the boson operator
                    out.trace()
    out.sample = {'kind': 'consumers', 'dimA': dA, 'dimB': dB, 'kext': k}


# =============================================================================================== entry points
RUNNERS = {'consumers': run_consumers, 'pt_basis': run_pt_basis, 'pt_atoms': run_pt_atoms, 'pt_hist': run_pt_hist, 'dicke_basis': run_dicke_basis,
           'dicke_index': run_dicke_index, 'reduce': run_reduce, 'reduce_atoms': run_reduce_atoms}


def run_case(case, out, env):
    RUNNERS[case['kind']](case, out, env)


def finalize(aggs, out, env):
    """honest accounting: the number of basis / polarisation points executed equals the closed-form size of the stated space"""
    cases, info = build_cases(env.tier, env.seed)
    done = {}
    for _, (kind, cnt) in aggs:
        done[kind] = done.get(kind, 0) + cnt
    n_case = {}
    for c in cases:
        n_case[c['kind']] = n_case.get(c['kind'], 0) + 1
    got_case = {}
    for _, (kind, cnt) in aggs:
        got_case[kind] = got_case.get(kind, 0) + 1
    # only meaningful for a complete run (a filtered / capped run executes fewer cases)
    bad = []
    if got_case.get('pt_basis') == n_case.get('pt_basis') and done.get('pt_basis') != info['pt_basis']['states_expected']:
        bad.append('pt_basis executed %r points, stated space has %r' % (done.get('pt_basis'), info['pt_basis']['states_expected']))
    if got_case.get('reduce') == n_case.get('reduce') and done.get('reduce') != info['reduce']['polarisation_elements']:
        bad.append('reduce executed %r elements, stated space has %r' % (done.get('reduce'), info['reduce']['polarisation_elements']))
    if bad:
        import sys
        print('HARNESS ERROR: C17 accounting: ' + '; '.join(bad))
        sys.exit(2)
    out.count('accounting_verified_families', len([k for k in ('pt_basis', 'reduce') if got_case.get(k) == n_case.get(k)]))
