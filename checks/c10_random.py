"""C10 - random generators return valid objects and are reproducible from a seed (DESIGN.md section 4 / C10).

Mode H + environment answers. For every (function, option branch) and every seed the history
        call(seed) ; h ; call(seed)
is executed for EVERY h in the event menu^{<=2} (events touch the global numpy / python / torch generators, call another
numqi generator unseeded, or call the same function with seed+1).  The entropy seam (mc.seams.EntropySeam) owns every
unseeded generator construction: it answers stream e0 during the first call and e1 during the second, and any hit inside a
seeded call is a violation by itself.  Returned objects are checked with independent validity predicates.

Further case kinds: f2stub / ballstub / cliffstub (generator answers enumerated with stub generators) and interleave (two live objects
that own a generator, all interleavings of their uses).
"""
import itertools
import random

import numpy as np

from mc import core, seams

PROPERTY = 'C10'
LEVEL = 'model_checking'
RULE = ('state = (function, option branch, seed, intervening RNG-use history); all histories of length <= 2 (quick) or <= 3 (thorough) over the event menu are '
        'enumerated for every branch and seed; transition = one seeded call compared bit-for-bit with the first call and checked '
        'with the validity predicate of the advertised set; non-trivial = distinct (branch, seed) outputs. '
        'Audit wave: every API with a seed parameter is a branch (check_model_gradient, find_optimal_UD, AutodiffCHAREE.get_boundary / '
        'get_numerical_range, PureBosonicExt.get_numerical_range, MeasureGate built directly); boundary values (batch of one, num_sample=1, '
        'size=() / 0, rand_F2() without a size, k > dim, degenerate eigenvalue range, maximal num_hermite) with cross-option oracles (same seed, '
        'other option value: identical draws); seed forms int / np.int64 / 2**70+3; a Generator as seed for every branch incl. the heavy ones; '
        'a seeded call that re-seeds the global torch generator is a violation (advancing it is counted); two live generator-owning objects '
        '(MeasureGate, CliffordCircuit) under all 20 interleavings of 3+3 uses; the normal()/uniform() answers of rand_n_sphere / rand_n_ball and '
        'the integer answers of CliffordCircuit.random_*_gate are enumerated with stub generators')
ASSUMPTIONS = [
    'entropy seam: np.random.default_rng()/default_rng(None) and random.Random() are wrapped from outside; other entropy sources (os.urandom read directly) would not be seen',
    'bit-identical comparison of numpy buffers; floating point determinism of single-threaded BLAS for identical inputs',
    'validity tolerances: 1e-9 absolute on float64 identities of O(1) objects (ranks counted with 1e-9 relative threshold)',
    'stubbed sphere / ball points: 8 eps relative per component (norm, division, pow, product; dim <= 3)',
    'global torch generator: torch.manual_seed / torch.seed / torch.set_rng_state (and their torch.random aliases) are wrapped during a seeded call; '
    'a generator re-seeded through another entry point would only be seen as an advanced state (counted, not reported); constructors of torch models '
    '(no seed parameter) draw initial parameters from the global torch generator - observed after construction only',
    'light (boundary-value) branches run with histories of length <= 1 in the quick tier and the full menu in the thorough tier',
]
SEEDS = [0, 1, 7]

EVENTS = ['np.seed', 'np.rand', 'py.seed', 'py.random', 'torch.seed', 'torch.rand', 'numqi.unseeded', 'same.seed+1']


def apply_event(ev, nq, fn, seed):
    import torch
    if ev == 'np.seed':
        np.random.seed(1)
    elif ev == 'np.rand':
        np.random.rand(3)
    elif ev == 'py.seed':
        random.seed(1)
    elif ev == 'py.random':
        random.random()
    elif ev == 'torch.seed':
        torch.manual_seed(1)
    elif ev == 'torch.rand':
        torch.rand(2)
    elif ev == 'numqi.unseeded':
        nq.random.rand_haar_state(3)
        nq.random.rand_SpF2(1)
    elif ev == 'same.seed+1':
        fn(nq, seed + 1)


def histories(max_len):
    out = [()]
    for L in range(1, max_len + 1):
        out += list(itertools.product(EVENTS, repeat=L))
    return out


# ------------------------------------------------------------------------------------------------ comparison
def canon(x):
    """canonical, bit-exact picture of a returned object"""
    import torch
    if isinstance(x, np.ndarray):
        return ('nd', x.dtype.str, x.shape, np.ascontiguousarray(x).tobytes())
    if isinstance(x, torch.Tensor):
        return canon(x.detach().cpu().numpy())
    if isinstance(x, (tuple, list)):
        return ('seq', tuple(canon(y) for y in x))
    if isinstance(x, dict):
        return ('dict', tuple((k, canon(x[k])) for k in sorted(x)))
    if hasattr(x, 'F2') and hasattr(x, 'num_qubit'):
        return ('pauli', canon(x.F2))
    if isinstance(x, (np.generic,)):
        return ('sc', x.dtype.str, x.tobytes())
    if isinstance(x, (int, float, complex, str, bool)) or x is None:
        return ('py', repr(x))
    if hasattr(x, 'x') and hasattr(x, 'fun'):  # scipy OptimizeResult
        return ('opt', canon(np.asarray(x.x)), canon(float(x.fun)))
    return ('repr', repr(x))


# ------------------------------------------------------------------------------------------------ validity predicates
TOL = 1e-9


def _herm(m):
    return m.conj().T


def v_unit(x, shape=None):
    f = []
    if shape is not None and x.shape != shape:
        f.append('shape %s != %s' % (x.shape, shape))
    if abs(np.linalg.norm(x) - 1) > TOL:
        f.append('norm %.3g != 1' % np.linalg.norm(x))
    return f


def v_unitary(u, special=False, real=False):
    f = []
    if u.ndim != 2 or u.shape[0] != u.shape[1]:
        return ['not square %s' % (u.shape,)]
    if np.abs(_herm(u) @ u - np.eye(len(u))).max() > TOL:
        f.append('U^dagger U != 1')
    if special and abs(np.linalg.det(u) - 1) > TOL * len(u):
        f.append('det %s != 1' % np.linalg.det(u))
    if real and np.iscomplexobj(u):
        f.append('complex dtype for a real request')
    return f


def v_dm(rho, dim, rank=None):
    f = []
    if rho.shape != (dim, dim):
        return ['shape %s' % (rho.shape,)]
    if np.abs(rho - _herm(rho)).max() > TOL:
        f.append('not Hermitian')
    if abs(np.trace(rho) - 1) > TOL:
        f.append('trace %s' % np.trace(rho))
    ev = np.linalg.eigvalsh((rho + _herm(rho)) / 2)
    if ev[0] < -TOL:
        f.append('negative eigenvalue %.3g' % ev[0])
    if rank is not None and (ev > 1e-9).sum() != rank:
        f.append('rank %d != requested %d' % ((ev > 1e-9).sum(), rank))
    return f


def v_kraus(K, num_term, dim_in, dim_out, real):
    f = []
    if K.shape != (num_term, dim_out, dim_in):
        return ['shape %s' % (K.shape,)]
    s = np.einsum('kai,kaj->ij', K.conj(), K)
    if np.abs(s - np.eye(dim_in)).max() > 1e-8:
        f.append('sum K^dagger K != 1 (%.3g)' % np.abs(s - np.eye(dim_in)).max())
    if real and np.iscomplexobj(K):
        f.append('complex dtype for tag_complex=False')
    return f


def v_choi(C, dim_in, dim_out, rank):
    f = []
    N = dim_in * dim_out
    if C.shape != (N, N):
        return ['shape %s' % (C.shape,)]
    if np.abs(C - _herm(C)).max() > 1e-8:
        f.append('not Hermitian')
    ev = np.linalg.eigvalsh((C + _herm(C)) / 2)
    if ev[0] < -1e-8:
        f.append('not PSD %.3g' % ev[0])
    pt = np.einsum('iaja->ij', C.reshape(dim_in, dim_out, dim_in, dim_out))
    if np.abs(pt - np.eye(dim_in)).max() > 1e-8:
        f.append('Tr_out C != 1 (%.3g)' % np.abs(pt - np.eye(dim_in)).max())
    if rank is not None and (ev > 1e-8).sum() > rank:
        f.append('rank %d > %d' % ((ev > 1e-8).sum(), rank))
    return f


def v_povm(P, dim, num_term):
    f = []
    if P.shape != (num_term, dim, dim):
        return ['shape %s' % (P.shape,)]
    if np.abs(P.sum(axis=0) - np.eye(dim)).max() > 1e-8:
        f.append('does not resolve the identity')
    for p in P:
        if np.abs(p - _herm(p)).max() > 1e-8 or np.linalg.eigvalsh((p + _herm(p)) / 2)[0] < -1e-8:
            f.append('element not PSD')
            break
    return f


def is_ppt(rho, dA, dB):
    t = rho.reshape(dA, dB, dA, dB).transpose(0, 3, 2, 1).reshape(dA * dB, dA * dB)
    return np.linalg.eigvalsh((t + _herm(t)) / 2)[0] > -1e-9


# ------------------------------------------------------------------------------------------------ branch table
def branches():
    """list of (name, branch-label, fn(nq, seed) -> object, validity(obj) -> list of failures, heavy flag,
    cross(nq, seed, obj) -> list of failures or None: validity that needs a second call with the same seed and another option value)"""
    B = []

    def add(name, label, fn, valid, heavy=False, cross=None, light=False):
        # light: boundary-value branch of the audit wave; quick tier runs it with histories of length <= 1 (thorough: the full menu)
        B.append((name, label, fn, valid, heavy, cross, light))

    for dim in (1, 2, 5):
        for tc in (True, False):
            add('rand_haar_state', 'dim=%d,tag_complex=%s' % (dim, tc), lambda nq, s, dim=dim, tc=tc: nq.random.rand_haar_state(dim, tag_complex=tc, seed=s),
                lambda x, dim=dim, tc=tc: v_unit(x, (dim,)) + (['complex for tag_complex=False'] if (not tc and np.iscomplexobj(x)) else []))
    for dim in (1, 2, 4):
        add('rand_haar_unitary', 'dim=%d' % dim, lambda nq, s, dim=dim: nq.random.rand_haar_unitary(dim, seed=s), lambda x: v_unitary(x))
    for dim in (2, 3):
        for bs in (None, 3, 1):
            for tc in (False, True):
                def cross_bs1(nq, s, x, dim=dim, tc=tc):
                    y = nq.random.rand_special_orthogonal_matrix(dim, batch_size=None, tag_complex=tc, seed=s)
                    return [] if (x.shape == (1,) + y.shape and np.array_equal(x[0], y)) else ['batch of one differs from the single matrix (batch_size=None) of the same seed']

                def val(x, dim=dim, bs=bs, tc=tc):
                    xs = [x] if bs is None else list(x)
                    f = []
                    if bs is not None and x.shape != (bs, dim, dim):
                        f.append('shape %s' % (x.shape,))
                    for u in xs:
                        f += v_unitary(u, special=True, real=not tc)
                    return f
                add('rand_special_orthogonal_matrix', 'dim=%d,batch=%s,tag_complex=%s' % (dim, bs, tc),
                    lambda nq, s, dim=dim, bs=bs, tc=tc: nq.random.rand_special_orthogonal_matrix(dim, batch_size=bs, tag_complex=tc, seed=s), val,
                    cross=cross_bs1 if bs == 1 else None, light=bs == 1)
    for dim in (2, 3):
        for k in (None, 1, 2, 4):   # k=4 > dim: the rank saturates at dim
            for kind in ('haar', 'bures'):
                add('rand_density_matrix', 'dim=%d,k=%s,kind=%s' % (dim, k, kind),
                    lambda nq, s, dim=dim, k=k, kind=kind: nq.random.rand_density_matrix(dim, k=k, kind=kind, seed=s),
                    lambda x, dim=dim, k=k: v_dm(x, dim, dim if k is None else min(k, dim)), light=k == 4)
    for (nt, di, do) in ((1, 2, 2), (2, 2, 2), (4, 2, 3), (2, 3, 2), (3, 1, 2), (1, 2, 3)):
        for tc in (True, False):
            add('rand_kraus_op', 'num_term=%d,dim_in=%d,dim_out=%d,tag_complex=%s' % (nt, di, do, tc),
                lambda nq, s, nt=nt, di=di, do=do, tc=tc: nq.random.rand_kraus_op(nt, di, do, tag_complex=tc, seed=s),
                lambda x, nt=nt, di=di, do=do, tc=tc: v_kraus(x, nt, di, do, not tc))
    for (di, do, rk) in ((2, 2, None), (2, 2, 1), (2, 3, 2), (3, 2, None), (3, 2, 2), (1, 2, 1)):
        add('rand_choi_op', 'dim_in=%d,dim_out=%d,rank=%s' % (di, do, rk), lambda nq, s, di=di, do=do, rk=rk: nq.random.rand_choi_op(di, do, rank=rk, seed=s),
            lambda x, di=di, do=do, rk=rk: v_choi(x, di, do, rk))
    for (dim, nt) in ((2, 1), (2, 3), (3, 4)):
        add('rand_povm', 'dim=%d,num_term=%d' % (dim, nt), lambda nq, s, dim=dim, nt=nt: nq.random.rand_povm(dim, nt, seed=s), lambda x, dim=dim, nt=nt: v_povm(x, dim, nt))
    for (dA, dB) in ((2, None), (2, 3)):
        for k in (None, 1, 2):
            for rdm in (False, True):
                def val(x, dA=dA, dB=dB, k=k, rdm=rdm):
                    db = dA if dB is None else dB
                    if rdm:
                        f = v_dm(x, dA * db, 1)
                        if f:
                            return f
                        w, v = np.linalg.eigh(x)
                        psi = v[:, -1]
                    else:
                        f = v_unit(x, (dA * db,))
                        psi = x
                    if k is not None and not f:
                        sv = np.linalg.svd(psi.reshape(dA, db), compute_uv=False)
                        if (sv > 1e-9).sum() != k:
                            f.append('Schmidt rank %d != k=%d' % ((sv > 1e-9).sum(), k))
                    return f
                add('rand_bipartite_state', 'dimA=%d,dimB=%s,k=%s,return_dm=%s' % (dA, dB, k, rdm),
                    lambda nq, s, dA=dA, dB=dB, k=k, rdm=rdm: nq.random.rand_bipartite_state(dA, dB, k=k, seed=s, return_dm=rdm), val)
    for (dA, dB) in ((2, None), (2, 3)):
        for k in (1, 2, 5):
            for pt in (False, True):
                def val(x, dA=dA, dB=dB, k=k, pt=pt):
                    db = dA if dB is None else dB
                    f = v_dm(x, dA * db)
                    if not f and not is_ppt(x, dA, db):
                        f.append('separable state is not PPT')
                    if not f and pt and (np.linalg.eigvalsh(x) > 1e-9).sum() > k:
                        f.append('rank exceeds the number of pure terms')
                    return f
                add('rand_separable_dm', 'dimA=%d,dimB=%s,k=%d,pure_term=%s' % (dA, dB, k, pt),
                    lambda nq, s, dA=dA, dB=dB, k=k, pt=pt: nq.random.rand_separable_dm(dA, dB, k=k, seed=s, pure_term=pt), val)
    for d in (2, 3):
        for eig in (None, (-1.0, 2.0), (0.5, 0.5)):   # degenerate range: the only admissible matrix is 0.5*identity
            for tc in (True, False):
                def val(x, d=d, eig=eig, tc=tc):
                    f = []
                    if x.shape != (d, d):
                        return ['shape']
                    if np.abs(x - _herm(x)).max() > TOL:
                        f.append('not Hermitian')
                    if not tc and np.iscomplexobj(x):
                        f.append('complex for tag_complex=False')
                    if eig is not None:
                        ev = np.linalg.eigvalsh((x + _herm(x)) / 2)
                        if ev[0] < eig[0] - TOL or ev[-1] > eig[1] + TOL:
                            f.append('eigenvalues %s outside %s' % (ev, eig))
                    return f
                add('rand_hermitian_matrix', 'd=%d,eig=%s,tag_complex=%s' % (d, eig, tc),
                    lambda nq, s, d=d, eig=eig, tc=tc: nq.random.rand_hermitian_matrix(d, eig=eig, tag_complex=tc, seed=s), val, light=eig == (0.5, 0.5))
    for (di, nt) in ((2, 1), (2, 3), (3, 4)):
        def val(x, di=di, nt=nt):
            f = []
            if x.shape != (nt, di, di):
                return ['shape %s' % (x.shape,)]
            if np.abs(x - x.conj().transpose(0, 2, 1)).max() > TOL:
                f.append('not Hermitian')
            if np.abs(x[0] - np.eye(di)).max() > 0:
                f.append('first element is not the identity')
            return f
        add('rand_channel_matrix_space', 'dim_in=%d,num_term=%d' % (di, nt), lambda nq, s, di=di, nt=nt: nq.random.rand_channel_matrix_space(di, nt, seed=s), val)
    for (di, nh) in ((2, 1), (2, 3), (3, 5), (3, (2, 1)), (3, (1, 0)), (3, (3, 1)), (2, 4), (3, 9), (3, (6, 3))):   # last three: the maxima of num_hermite
        def val(x, di=di, nh=nh):
            f = []
            n = nh if isinstance(nh, int) else sum(nh)
            if x.shape != (n, di, di):
                return ['shape %s expected %s' % (x.shape, (n, di, di))]
            if np.abs(x[0] - np.eye(di)).max() > 0:
                f.append('identity missing')
            if isinstance(nh, int):
                if np.abs(x - x.conj().transpose(0, 2, 1)).max() > TOL:
                    f.append('not Hermitian')
            else:
                ns = nh[0]
                if np.abs(x[:ns] - x[:ns].transpose(0, 2, 1)).max() > TOL:
                    f.append('symmetric part not symmetric')
                if nh[1] and np.abs(x[ns:] + x[ns:].transpose(0, 2, 1)).max() > TOL:
                    f.append('antisymmetric part not antisymmetric')
            r = np.linalg.matrix_rank(x.reshape(n, -1), tol=1e-9)
            if r != n:
                f.append('elements linearly dependent')
            return f
        add('rand_quantum_channel_matrix_subspace', 'dim_in=%d,num_hermite=%s' % (di, nh),
            lambda nq, s, di=di, nh=nh: nq.random.rand_quantum_channel_matrix_subspace(di, nh, seed=s), val, light=(di, nh) in ((2, 4), (3, 9), (3, (6, 3))))
    for (dA, dB, k) in ((2, 2, 1), (2, 2, 2), (2, 2, 3), (3, 2, 2)):
        def val(x, dA=dA, dB=dB, k=k):
            N = dA * dB**k
            f = v_dm(x, N)
            if f:
                return f
            t = x.reshape([dA] + [dB] * k + [dA] + [dB] * k)
            for a in range(k - 1):
                perm = list(range(2 * k + 2))
                perm[1 + a], perm[2 + a] = perm[2 + a], perm[1 + a]
                perm[k + 2 + a], perm[k + 3 + a] = perm[k + 3 + a], perm[k + 2 + a]
                if np.abs(t.transpose(perm) - t).max() > TOL:
                    f.append('not invariant under exchange of copies %d,%d' % (a, a + 1))
            return f
        add('rand_ABk_density_matrix', 'dimA=%d,dimB=%d,kext=%d' % (dA, dB, k), lambda nq, s, dA=dA, dB=dB, k=k: nq.random.rand_ABk_density_matrix(dA, dB, k, seed=s), val)
    for (nm, part) in ((2, (1, 2)), (3, (2, 2))):
        for ru in (False, True):
            def val(x, nm=nm, part=part, ru=ru):
                N = sum(part)
                ms, u = x if ru else (x, None)
                f = []
                if ms.shape != (nm, N, N):
                    return ['shape %s' % (ms.shape,)]
                if ru:
                    f += v_unitary(u, special=True, real=True)
                    if not f:
                        blk = u @ ms @ u.T
                        mask = np.zeros((N, N), dtype=bool)
                        o = 0
                        for p in part:
                            mask[o:o + p, o:o + p] = True
                            o += p
                        if np.abs(blk[:, ~mask]).max() > 1e-9:
                            f.append('not block diagonal in the returned basis')
                return f
            def cross(nq, s, x, nm=nm, part=part):
                # return_unitary only selects what is returned: the same seed gives the identical subspace, and that subspace is
                # block diagonal (blocks = partition) in the basis returned by the return_unitary=True call
                ms2, u = nq.random.rand_reducible_matrix_subspace(nm, part, return_unitary=True, seed=s)
                if not (isinstance(x, np.ndarray) and x.shape == ms2.shape and np.array_equal(x, ms2)):
                    return ['subspace differs from the return_unitary=True call with the same seed']
                f = v_unitary(u, special=True, real=True)
                blk = u @ x @ u.T
                mask = np.zeros(blk.shape[1:], dtype=bool)
                o = 0
                for p_ in part:
                    mask[o:o + p_, o:o + p_] = True
                    o += p_
                if np.abs(blk[:, ~mask]).max() > 1e-9:
                    f.append('not block diagonal under the unitary of the same seed')
                return f
            add('rand_reducible_matrix_subspace', 'num_matrix=%d,partition=%s,return_unitary=%s' % (nm, part, ru),
                lambda nq, s, nm=nm, part=part, ru=ru: nq.random.rand_reducible_matrix_subspace(nm, part, return_unitary=ru, seed=s), val,
                cross=None if ru else cross)
    for N0 in (2, 3):
        def val(x, N0=N0):
            B_, U = x
            f = []
            if U.shape != (N0, N0) or B_.ndim != 3 or B_.shape[1:] != (N0, N0):
                return ['shapes %s %s' % (B_.shape, U.shape)]
            for b in B_:
                m = b @ U
                if np.abs(m - m.T).max() > 1e-8:   # x^T B U x = x^T U^T B x for all x  <=>  sym(BU) = sym(U^T B) ... use the documented identity on a basis
                    pass
            # documented: for all x, x^T B U x = x^T U^T B x ; check on the polarisation set of the basis
            eye = np.eye(N0)
            vecs = [eye[i] for i in range(N0)] + [eye[i] + eye[j] for i in range(N0) for j in range(i)]
            for b in B_:
                for v in vecs:
                    if abs(v @ b @ U @ v - v @ U.T @ b @ v) > 1e-8:
                        f.append('x^T B U x != x^T U^T B x')
                        return f
            return f
        add('rand_symmetric_inner_product', 'N0=%d' % N0, lambda nq, s, N0=N0: nq.random.rand_symmetric_inner_product(N0, seed=s), val)
    for (no, dq, nqd, ns, wi) in ((2, 2, 1, None, False), (3, 2, 1, 2, True), (2, 3, 1, None, True), (2, 2, 2, None, False), (2, 2, 1, 1, False), (3, 2, 1, 1, True)):
        def cross_ns1(nq, s, x, no=no, dq=dq, nqd=nqd, wi=wi):
            y = nq.random.rand_orthonormal_matrix_basis(no, dq, nqd, None, wi, seed=s)
            return [] if (isinstance(x, list) and len(x) == 1 and isinstance(y, np.ndarray) and np.array_equal(x[0], y)) else ['num_sample=1 is not the one-element list of the num_sample=None result of the same seed']

        def val(x, no=no, dq=dq, nqd=nqd, ns=ns, wi=wi):
            if (ns is None) != isinstance(x, np.ndarray):
                return ['container type %s for num_sample=%s' % (type(x).__name__, ns)]
            xs = [x] if ns is None else list(x)
            D = dq**nqd
            f = []
            if ns is not None and len(xs) != ns:
                f.append('num_sample')
            for y in xs:
                n_el = no * D + (1 if wi else 0)
                if y.shape != (n_el, D, D):
                    return ['shape %s expected %s' % (y.shape, (n_el, D, D))]
                z = y[1:] if wi else y
                for b in range(no):
                    blk = z[b * D:(b + 1) * D]
                    if np.abs(blk.sum(axis=0) - np.eye(D)).max() > 1e-8:
                        f.append('basis %d does not resolve the identity' % b)
                    for p in blk:
                        if np.abs(p @ p - p).max() > 1e-8 or abs(np.trace(p) - 1) > 1e-8:
                            f.append('element is not a rank-one projector')
                            return f
            return f
        add('rand_orthonormal_matrix_basis', 'num_orthonormal=%d,dim_qudit=%d,num_qudit=%d,num_sample=%s,with_I=%s' % (no, dq, nqd, ns, wi),
            lambda nq, s, no=no, dq=dq, nqd=nqd, ns=ns, wi=wi: nq.random.rand_orthonormal_matrix_basis(no, dq, nqd, ns, wi, seed=s), val, cross=cross_ns1 if ns == 1 else None, light=ns == 1)
    for dim in (2, 5):
        def val(x, dim=dim):
            f = []
            if x.shape != (dim, dim) or x.dtype != np.uint8:
                f.append('shape/dtype %s %s' % (x.shape, x.dtype))
            elif not (np.array_equal(x, x.T) and np.all(np.diag(x) == 0) and set(np.unique(x)) <= {0, 1}):
                f.append('not a symmetric 0/1 matrix with zero diagonal')
            return f
        add('rand_adjacent_matrix', 'dim=%d' % dim, lambda nq, s, dim=dim: nq.random.rand_adjacent_matrix(dim, seed=s), val)
    for dim in (1, 3):
        for size in (None, 3, (2, 2), (), 0):   # size=(): documented shape size+(dim,) = (dim,); size=0: an empty batch of shape (0, dim)
            shp = (dim,) if size is None else ((size,) if isinstance(size, int) else tuple(size)) + (dim,)

            def cross_unit(nq, s, x, dim=dim, which='rand_n_sphere'):
                y = getattr(nq.random, which)(dim, size=None, seed=s)
                return [] if np.array_equal(x, y) else ['size=() differs from size=None with the same seed']
            add('rand_n_sphere', 'dim=%d,size=%s' % (dim, size), lambda nq, s, dim=dim, size=size: nq.random.rand_n_sphere(dim, size=size, seed=s),
                lambda x, shp=shp: (['shape %s != %s' % (x.shape, shp)] if x.shape != shp else []) + ([] if (x.size == 0 or np.abs(np.linalg.norm(x, axis=-1) - 1).max() < TOL) else ['not on the sphere']),
                cross=cross_unit if size == () else None, light=size in ((), 0))
            add('rand_n_ball', 'dim=%d,size=%s' % (dim, size), lambda nq, s, dim=dim, size=size: nq.random.rand_n_ball(dim, size=size, seed=s),
                lambda x, shp=shp: (['shape %s != %s' % (x.shape, shp)] if x.shape != shp else []) + ([] if (x.size == 0 or np.linalg.norm(x, axis=-1).max() <= 1) else ['outside the ball']),
                cross=(lambda nq, s, x, dim=dim: cross_unit(nq, s, x, dim=dim, which='rand_n_ball')) if size == () else None, light=size in ((), 0))
    for size in ((3,), (2, 2), (1,), ()):   # (): rand_F2() without a size returns a 0-d array; both flags on one bit: recorded rejection
        for nz, no_ in ((False, False), (True, False), (False, True), (True, True)):
            if nz and no_ and int(np.prod(size)) <= 1 and size != ():
                continue
            def val(x, size=size, nz=nz, no_=no_):
                f = []
                if x.shape != tuple(size) or x.dtype != np.uint8 or x.max() > 1:
                    f.append('shape/dtype/value')
                if nz and not x.any():
                    f.append('all zero despite not_zero')
                if no_ and x.all():
                    f.append('all one despite not_one')
                return f
            add('rand_F2', 'size=%s,not_zero=%s,not_one=%s' % (size, nz, no_), lambda nq, s, size=size, nz=nz, no_=no_: nq.random.rand_F2(*size, not_zero=nz, not_one=no_, seed=s), val, light=size == ())
    for n in (1, 2, 3):
        for rk in ('matrix', 'int_tuple', 'int_tuple-matrix'):
            def val(x, n=n, rk=rk):
                from mc import ref
                f = []
                mat = x if rk == 'matrix' else (x[1] if rk == 'int_tuple-matrix' else None)
                tup = x if rk == 'int_tuple' else (x[0] if rk == 'int_tuple-matrix' else None)
                if mat is not None:
                    L = ref.symplectic_form(n).astype(int)
                    if mat.shape != (2 * n, 2 * n) or not np.array_equal((mat.astype(int) @ L @ mat.astype(int).T) % 2, L):
                        f.append('not symplectic')
                if tup is not None:
                    base = [b for k in range(1, n + 1) for b in ((1 << (2 * k)) - 1, 1 << (2 * k - 1))]
                    if len(tup) != 2 * n or sorted(base) != sorted(base) or not all(isinstance(t, int) and t >= 0 for t in tup):
                        f.append('bad tuple %s' % (tup,))
                    prod = 1
                    for b in base:
                        prod *= b
                    if prod != ref.sp_order(n):
                        f.append('harness: base table inconsistent')
                return f
            add('rand_SpF2', 'n=%d,return_kind=%s' % (n, rk), lambda nq, s, n=n, rk=rk: nq.random.rand_SpF2(n, return_kind=rk, seed=s), val)
    for n in (1, 2):
        def val(x, n=n):
            from mc import ref
            r, S = x
            L = ref.symplectic_form(n).astype(int)
            f = []
            if r.shape != (2 * n,) or r.dtype != np.uint8 or r.max() > 1:
                f.append('bad phase vector')
            if S.shape != (2 * n, 2 * n) or not np.array_equal((S.astype(int) @ L @ S.astype(int).T) % 2, L):
                f.append('not symplectic')
            return f
        add('rand_Clifford_group', 'n=%d' % n, lambda nq, s, n=n: nq.random.rand_Clifford_group(n, seed=s), val)
    for n in (1, 2):
        for ih in (None, True, False):
            def val(x, n=n, ih=ih):
                from mc import ref
                m = ref.pauli_dense(x.F2)
                herm_ = np.abs(m - m.conj().T).max() < 1e-12
                anti = np.abs(m + m.conj().T).max() < 1e-12
                f = []
                if not (herm_ or anti):
                    f.append('neither Hermitian nor anti-Hermitian')
                if ih is True and not herm_:
                    f.append('is_hermitian=True but anti-Hermitian')
                if ih is False and not anti:
                    f.append('is_hermitian=False but Hermitian')
                return f
            add('rand_pauli', 'n=%d,is_hermitian=%s' % (n, ih), lambda nq, s, n=n, ih=ih: nq.random.rand_pauli(n, is_hermitian=ih, seed=s), val)

    # ---------------- other APIs that accept a seed
    psi5 = np.exp(1j * np.arange(8)) / np.sqrt(8)
    for idx in ((0,), (1, 2), (0, 2)):
        def val(x, idx=idx):
            bits, prob, q = x
            f = []
            if abs(np.linalg.norm(q) - 1) > TOL:
                f.append('post state not normalised')
            if abs(np.sum(prob) - 1) > TOL or np.min(prob) < -TOL:
                f.append('probabilities')
            return f
        add('measure_quantum_vector', 'index=%s' % (idx,), lambda nq, s, idx=idx: nq.sim.state.measure_quantum_vector(psi5.copy(), idx, seed=s), val)

    def circ_measure(nq, s):
        c = nq.sim.Circuit()
        c.H(0)
        c.cnot(0, 1)
        g0 = c.measure((0, 1), seed=s)
        c.H(2)
        g1 = c.measure(2, seed=s)
        q = np.zeros(8, dtype=np.complex128)
        q[0] = 1
        out = c.apply_state(q)
        return (list(g0.bitstr), np.asarray(g0.probability), list(g1.bitstr), out)
    add('Circuit.measure', 'bell+H', circ_measure, lambda x: [] if abs(np.linalg.norm(x[3]) - 1) < TOL and x[0][0] == x[0][1] else ['bad measurement record'])

    def cliff(nq, s):
        c = nq.sim.CliffordCircuit(seed=s)
        for q in (0, 1, 0, 2):
            c.random_one_qubit_gate(q)
        c.random_two_qubit_gate(0, 1)
        c.random_two_qubit_gate(2, 1)
        return [tuple(g) for g in c.gate_index_list]
    def v_cliff(x):
        f = [] if all(g[0] in ('X', 'Y', 'Z', 'H', 'S', 'CX', 'CY', 'CZ') for g in x) else ['bad gate']
        # qubit indices: the two-qubit gates are always recorded, in order, on the requested (control, target); the one-qubit records
        # (the identity records nothing) are a subsequence of the requested qubits 0,1,0,2
        two = [g for g in x if len(g) == 3]
        one = [g[1] for g in x if len(g) == 2]
        it = iter([0, 1, 0, 2])
        if [tuple(g[1:]) for g in two] != [(0, 1), (2, 1)] or x[len(x) - 2:] != two or not all(any(q == r for r in it) for q in one):
            f.append('recorded qubit indices %s do not match the requested ones' % (x,))
        return f
    add('CliffordCircuit.random_gates', 'seeded', cliff, v_cliff)

    rho3 = np.diag([0.5, 0.3, 0.2]).astype(np.complex128)
    rho3[0, 1] = rho3[1, 0] = 0.1
    for dimR in (None, 3, 4):
        def val(x, dimR=dimR):
            if np.abs(x @ x.conj().T - rho3).max() > 1e-9:
                return ['purification does not reproduce rho']
            return []
        add('get_purification', 'dimR=%s' % dimR, lambda nq, s, dimR=dimR: nq.utils.get_purification(rho3, dimR=dimR, seed=s), val)

    def mini(nq, s):
        import torch

        class M(torch.nn.Module):
            def __init__(self):
                super().__init__()
                self.theta = torch.nn.Parameter(torch.zeros(3, dtype=torch.float64))

            def forward(self):
                return torch.sum((self.theta - 0.3)**4) + torch.sin(self.theta[0] * 3)
        m = M()
        r = nq.optimize.minimize(m, theta0='uniform', num_repeat=2, tol=1e-10, print_every_round=0, maxiter=4, seed=s)
        return (np.asarray(r.x), float(r.fun))
    add('optimize.minimize', 'num_repeat=2,maxiter=4', mini, lambda x: [] if np.isfinite(x[1]) else ['non-finite optimum'], heavy=True)

    # every documented form of the initial-point option of the two minimisers
    def _model(nq):
        import torch

        class M(torch.nn.Module):
            def __init__(self):
                super().__init__()
                self.theta = torch.nn.Parameter(torch.zeros(3, dtype=torch.float64))

            def forward(self):
                return torch.sum((self.theta - 0.3)**4) + torch.sin(self.theta[0] * 3)
        return M()
    for t0name, t0 in (('None', None), ('uniform', 'uniform'), ('normal', 'normal'), ('(uniform,-2,2)', ('uniform', -2, 2)), ('(normal,1,0.5)', ('normal', 1, 0.5)),
                       ('callable', lambda size, rng: rng.uniform(0, 1, size=size))):
        def mini2(nq, s, t0=t0):
            r = nq.optimize.minimize(_model(nq), theta0=t0, num_repeat=2, tol=1e-10, print_every_round=0, maxiter=3, seed=s)
            return (np.asarray(r.x), float(r.fun))
        add('optimize.minimize', 'theta0=%s' % t0name, mini2, lambda x: [] if np.isfinite(x[1]) else ['non-finite optimum'], heavy=True)
        if t0name != 'None':
            def adam(nq, s, t0=t0):
                m = _model(nq)
                r = nq.optimize.minimize_adam(m, num_step=3, theta0=t0, seed=s, tqdm_update_freq=0)
                return (nq.optimize.get_model_flat_parameter(m), repr(r)[:60] if not isinstance(r, (float, np.ndarray, tuple)) else r)
            add('optimize.minimize_adam', 'theta0=%s' % t0name, adam, lambda x: [] if np.all(np.isfinite(x[0])) else ['non-finite parameters'], heavy=True)

    # object histories: the seeded minimiser on a model that was used before (stale .grad, moved parameters) must return what it
    # returns on a fresh model: "a function of the arguments and the seed only"
    PRE = ('fresh', 'backward', 'adam', 'minimize_other_seed', 'flat_grad_read')

    def mini_hist(nq, s):
        outs = []
        for pre in (PRE if isinstance(s, (int, np.integer)) else PRE[:1]):  # a generator object as seed is a stream, not a repeatable seed
            m = _model(nq)
            if pre == 'backward':
                m().backward()
            elif pre == 'adam':
                nq.optimize.minimize_adam(m, num_step=2, theta0='uniform', seed=0, tqdm_update_freq=0)
            elif pre == 'minimize_other_seed':
                nq.optimize.minimize(m, theta0='uniform', num_repeat=1, tol=1e-10, print_every_round=0, maxiter=2, seed=int(s) + 1)
            elif pre == 'flat_grad_read':
                (3 * m()).backward()
                nq.optimize.get_model_flat_grad(m)
            r = nq.optimize.minimize(m, theta0='uniform', num_repeat=1, tol=1e-10, print_every_round=0, maxiter=3, seed=s)
            outs.append((np.asarray(r.x), float(r.fun)))
        return outs

    def v_mini_hist(x):
        bad = [PRE[k] for k in range(1, len(x)) if not (np.array_equal(x[k][0], x[0][0]) and x[k][1] == x[0][1])]
        return ['seeded minimize on a model used before (%s) differs from the fresh model' % ','.join(bad)] if bad else []
    add('optimize.minimize', 'model used before (stale grad / adam / other seed)', mini_hist, v_mini_hist, heavy=True)

    def ces(nq, s):
        r = nq.matrix_space.get_completed_entangled_subspace((2, 3), 'quant-ph/0405077', seed=s)
        return (r[0], r[1])
    add('get_completed_entangled_subspace', '(2,3)', ces, lambda x: [] if x[0].shape[0] + x[1].shape[0] == 6 else ['dimensions do not add up'], heavy=True)

    dm_w = np.eye(4) / 4 + 0.1 * np.kron(np.array([[0, 1], [1, 0]]), np.array([[0, 1], [1, 0]]))

    def cha(nq, s):
        m = nq.entangle.CHABoundaryBagging((2, 2))
        return float(m.solve(dm_w, maxiter=2, seed=s))
    add('CHABoundaryBagging.solve', 'dim=(2,2),maxiter=2', cha, lambda x: [] if (np.isfinite(x) and x > 0) else ['non-positive boundary'], heavy=True)
    ops_ud = np.stack([np.array([[0, 1], [1, 0]]), np.array([[0, -1j], [1j, 0]]), np.array([[1, 0], [0, -1]]), np.eye(2)]).astype(np.complex128)

    def ud_is_ud(nq, s):
        try:
            nq.unique_determine.check_UD_is_UD(ops_ud, 'udp', num_round=2, num_repeat_sgd=1, seed=s)
            return 'passed'
        except AssertionError:
            return 'AssertionError'
    add('check_UD_is_UD', 'pauli,udp,num_round=2', ud_is_ud, lambda x: [] if x == 'passed' else ['Pauli measurements reported as not UDP'], heavy=True)

    def ud(nq, s):
        r = nq.unique_determine.check_UD('udp', ops_ud, num_repeat=2, seed=s, dtype='float64')
        return (bool(r[0]), float(r[1]))
    add('check_UD', 'pauli,udp', ud, lambda x: [] if x[0] else ['Pauli measurements reported as not UDP'], heavy=True)
    add('get_mps_dicke_transform_matrix', 'dim=2,num_qudit=3', lambda nq, s: nq.entangle.pureb_quantum.get_mps_dicke_transform_matrix(2, 3, seed=s)[0],
        lambda x: [] if np.abs(np.linalg.norm(x, axis=1) - 1).max() < TOL else ['mps vectors not normalised'], heavy=True)

    dm_iso = 0.7 * np.eye(4) / 4 + 0.3 * np.outer([1, 0, 0, 1], [1, 0, 0, 1]) / 2

    def pureb_boundary(nq, s):
        m = nq.entangle.PureBosonicExt(2, 2, 2, distance_kind='gellmann')
        mark_torch()
        return float(m.get_boundary(dm_iso, xtol=0.05, converge_tol=1e-6, num_repeat=1, use_tqdm=False, seed=s))
    add('PureBosonicExt.get_boundary', 'dims=(2,2),k=2,xtol=0.05', pureb_boundary, lambda x: [] if (np.isfinite(x) and x > 0) else ['non-positive boundary'], heavy=True)

    # ---------------- audit wave: the remaining APIs with a seed parameter (tiny budgets)
    def model_gradient(nq, s):
        m = _model(nq)
        try:
            nq.optimize.check_model_gradient(m, tol=1e-5, zero_eps=1e-4, seed=s)   # |f'''| <= 24*2pi+27: central difference error < 4e-7
            verdict = 'passed'
        except AssertionError:
            verdict = 'AssertionError'
        return (verdict, nq.optimize.get_model_flat_parameter(m), nq.optimize.get_model_flat_grad(m))
    add('optimize.check_model_gradient', 'quartic+sin', model_gradient,
        lambda x: ([] if x[0] == 'passed' else ['a correct autograd gradient was rejected']) + ([] if np.all(np.isfinite(x[1])) and np.all((x[1] > -1e-3) & (x[1] < 2 * np.pi + 1e-3)) else ['evaluation point outside [0, 2pi]']), heavy=True)

    for nis in (0, 1):
        def find_ud(nq, s, nis=nis):
            r = nq.unique_determine.find_optimal_UD('udp', 2, ops_ud, num_repeat=1, num_init_sample=nis, dtype='float64', seed=s)
            return [list(x) for x in r]
        add('find_optimal_UD', 'pauli,udp,num_round=2,num_init_sample=%d' % nis, find_ud,
            lambda x: [] if all(sorted(set(y)) == list(y) and set(y) <= {0, 1, 2, 3} for y in x) and len(x) <= 2 else ['not a list of ascending index lists'], heavy=True)

    op_xx = np.kron(np.array([[0, 1], [1, 0.]]), np.array([[0, 1], [1, 0.]]))
    op_zz = np.diag([1., -1, -1, 1])

    def v_numrange(x):
        # <XX>, <ZZ> of a two-qubit state lie in [-1, 1]; three directions requested
        return [] if (x.shape == (3, 2) and np.all(np.isfinite(x)) and np.abs(x).max() <= 1 + 1e-9) else ['not three points of the joint numerical range box']

    def charee_boundary(nq, s):
        m = nq.entangle.AutodiffCHAREE((2, 2), num_state=3, distance_kind='gellmann')
        mark_torch()
        beta, info = m.get_boundary(dm_iso, xtol=0.2, converge_tol=1e-4, num_repeat=1, use_tqdm=False, return_info=True, seed=s)
        return (float(beta), np.asarray(info, dtype=np.float64))
    add('AutodiffCHAREE.get_boundary', 'dims=(2,2),num_state=3,xtol=0.2', charee_boundary, lambda x: [] if (np.isfinite(x[0]) and x[0] > 0) else ['non-positive boundary'], heavy=True)

    def charee_range(nq, s):
        m = nq.entangle.AutodiffCHAREE((2, 2), num_state=3)
        mark_torch()
        return m.get_numerical_range(op_xx, op_zz, num_theta=3, converge_tol=1e-3, num_repeat=1, use_tqdm=False, seed=s)
    add('AutodiffCHAREE.get_numerical_range', 'dims=(2,2),num_state=3,num_theta=3', charee_range, v_numrange, heavy=True)

    def pureb_range(nq, s):
        m = nq.entangle.PureBosonicExt(2, 2, 2)
        mark_torch()
        return m.get_numerical_range(op_xx, op_zz, num_theta=3, converge_tol=1e-3, num_repeat=1, use_tqdm=False, seed=s)
    add('PureBosonicExt.get_numerical_range', 'dims=(2,2),k=2,num_theta=3', pureb_range, v_numrange, heavy=True)

    psi_pp = np.ones(4, dtype=np.complex128) / 2
    for idx in ((0,), (0, 1)):
        def mgate(nq, s, idx=idx):
            g = nq.sim.circuit.MeasureGate(idx, seed=s)
            rec = []
            for _ in range(3):   # the gate owns its generator: three shots of one gate on |++>
                q1 = g.forward(psi_pp.copy())
                rec.append((list(g.bitstr), np.asarray(g.probability), q1))
            return rec
        add('MeasureGate', 'index=%s,shots=3' % (idx,), mgate,
            lambda x, idx=idx: [] if all(len(b) == len(idx) and abs(np.linalg.norm(q) - 1) < TOL and abs(np.sum(p) - 1) < TOL for (b, p, q) in x) else ['bad measurement record'])
    return B


# a constructor of a torch model draws its (later overwritten) initial parameters from the global torch generator; the branch marks
# the end of construction so that only the seeded call itself is observed
_TORCH_BASE = [None]


class TorchReseedSeam:
    """records every re-seeding / state restore of the global torch generator while it is installed (the calls are executed)"""
    NAMES = [('torch', 'manual_seed'), ('torch', 'seed'), ('torch', 'set_rng_state'), ('torch.random', 'manual_seed'), ('torch.random', 'seed'),
             ('torch.random', 'set_rng_state')]

    def __enter__(self):
        import importlib
        self.hits = []
        self.saved = []
        for modname, attr in self.NAMES:
            mod = importlib.import_module(modname)
            orig = getattr(mod, attr)
            self.saved.append((mod, attr, orig))

            def wrapper(*a, _orig=orig, _w='%s.%s' % (modname, attr), **k):
                if _w not in self.hits:
                    self.hits.append(_w)
                return _orig(*a, **k)
            setattr(mod, attr, wrapper)
        return self

    def __exit__(self, *exc):
        for mod, attr, orig in self.saved:
            setattr(mod, attr, orig)
        return False


def mark_torch():
    import torch
    _TORCH_BASE[0] = torch.get_rng_state()


_BR = None


def get_branches():
    global _BR
    if _BR is None:
        _BR = branches()
    return _BR


def build_cases(tier, seed):
    B = get_branches()
    cases = [{'kind': 'heavy' if b[4] else 'branch', 'index': i, 'name': b[0], 'branch': b[1]} for i, b in enumerate(B)]
    for size in ((1,), (2,), (3,), (2, 2)):
        for nz in (False, True):
            for no_ in (False, True):
                cases.append({'kind': 'f2stub', 'size': list(size), 'not_zero': nz, 'not_one': no_})
    # objects that own a generator (MeasureGate, CliffordCircuit): two live objects used interleaved
    for obj in ('MeasureGate', 'CliffordCircuit'):
        for s0 in (SEEDS if tier == 'quick' else SEEDS + [2, 3, 12345, 2**31 - 1]):
            for ds in (0, 1):
                cases.append({'kind': 'interleave', 'object': obj, 'seed_a': s0, 'seed_b': s0 + ds, 'shots': 3})
    # environment answers for the continuous draws of the sphere / ball generators and for the gate choices of CliffordCircuit
    for fname in ('rand_n_sphere', 'rand_n_ball'):
        for dim in (1, 2, 3):
            for size in (None, 2, (2, 2)):
                cases.append({'kind': 'ballstub', 'function': fname, 'dim': dim, 'size': size if not isinstance(size, tuple) else list(size)})
    cases.append({'kind': 'cliffstub'})
    hl = 2 if tier == 'quick' else 3
    info = {'branches': len(B), 'functions': len({b[0] for b in B}), 'seeds': SEEDS if tier == 'quick' else SEEDS + [2, 3, 12345, 2**31 - 1],
            'events': EVENTS, 'history_length': hl, 'histories_per_branch_seed': len(histories(hl)),
            'heavy_history_length': 1, 'light_history_length': 1 if tier == 'quick' else hl, 'exhaustive': True,
            'f2stub': 'rand_F2 under a stub generator: every sequence of <= 3 draws over all 2^n bit patterns (n <= 4), all four flag combinations',
            'ballstub': 'rand_n_sphere / rand_n_ball under a generator whose normal() and uniform() are harness answers: directions from a menu of 4 per dim, radii u from a menu of 5, all u-tuples for <= 4 points; point = g/|g| * u**(1/dim)',
            'cliffstub': 'CliffordCircuit(seed=stub): program one(0) one(2) two(0,1) two(2,1), all 6*6*3*3 answer tuples: recorded gates and qubit indices',
            'interleave': 'two live objects owning a generator (equal / different int seeds), 3 uses each, all C(6,3)=20 interleavings: each stream equals the stream of the object used alone',
            'note': 'every (branch, seed, history) of the stated menu is executed; heavy APIs (optimiser, LP solver) use histories of length <= 1 and one seed; boundary-value branches (light) use histories of length <= 1 in the quick tier',
            'light_branches': sum(1 for b in B if b[6])}
    return cases, info


def run_f2stub(case, out, env):
    """environment answers: the generator's integers() returns every bit pattern in turn, for every sequence of <= 3 draws.
    rand_F2 must return the first drawn pattern that the flags admit (rejection sampling) and never an excluded one."""
    import numqi
    size = tuple(case['size'])
    n = int(np.prod(size))
    nz, no_ = case['not_zero'], case['not_one']
    pats = [np.array(b, dtype=np.uint8).reshape(size) for b in itertools.product([0, 1], repeat=n)]

    def admissible(x):
        return not (nz and not x.any()) and not (no_ and x.all())
    if nz and no_ and n <= 1:
        out.count('rejected_by_precondition')
        out.state()
        out.trans()
        return
    for L in (1, 2, 3):
        for seq in itertools.product(range(len(pats)), repeat=L):
            answers = [pats[i] for i in seq]
            first = next((a for a in answers if admissible(a)), None)
            # only sequences in which exactly the last draw is the first admissible one are distinct behaviours
            if first is None or not admissible(answers[-1]) or any(admissible(a) for a in answers[:-1]):
                continue
            g = seams.StubGenerator([a.copy() for a in answers])
            out.state()
            out.trans()
            try:
                r = numqi.random.rand_F2(*size, not_zero=nz, not_one=no_, seed=g)
            except seams.StubExhausted:
                out.violation('rand_F2/stub/rejects_admissible_draw', 'rand_F2(size=%s, not_zero=%s, not_one=%s) kept drawing after an admissible pattern %s' % (size, nz, no_, first.tolist()), answers=[a.tolist() for a in answers])
                continue
            bad = []
            if r.shape != size or r.dtype != np.uint8:
                bad.append('shape/dtype')
            elif nz and not r.any():
                bad.append('all zero despite not_zero')
            elif no_ and r.all():
                bad.append('all one despite not_one')
            elif not np.array_equal(r, first):
                bad.append('returned %s, first admissible draw was %s' % (r.tolist(), first.tolist()))
            if bad:
                out.violation('rand_F2/stub/invalid_object', 'rand_F2(size=%s, not_zero=%s, not_one=%s) with generator answers %s: %s' % (size, nz, no_, [a.reshape(-1).tolist() for a in answers], '; '.join(bad)),
                              answers=[a.tolist() for a in answers])
            out.outcome((size, nz, no_, r.tobytes(), L), nontrivial=L > 1)
            out.trace()
    out.sample = {'kind': 'f2stub', 'size': list(size), 'not_zero': nz, 'not_one': no_, 'patterns': len(pats)}


class _ContinuousStub(np.random.Generator):
    """generator whose normal() / uniform() draws are harness answers (shape checked against the request)"""

    def __init__(self, normals, uniforms):
        super().__init__(np.random.PCG64(12345))
        self._normals, self._uniforms, self.log = normals, uniforms, []

    def normal(self, loc=0.0, scale=1.0, size=None):
        self.log.append(('normal', loc, scale, size))
        return np.array(self._normals, dtype=np.float64).reshape(size)

    def uniform(self, low=0.0, high=1.0, size=None):
        self.log.append(('uniform', low, high, size))
        return np.array(self._uniforms, dtype=np.float64).reshape(size)


DIRECTIONS = {1: [[1.0], [-2.5], [1e-8], [-1.0]],
              2: [[1.0, 0.0], [0.0, -3.0], [1.0, 1.0], [-1e-3, 2.0]],
              3: [[1.0, 0.0, 0.0], [1.0, 1.0, 1.0], [0.5, -2.0, 1e-8], [0.0, 0.0, -1.0]]}
RADII_U = [0.0, 1e-300, 0.125, 0.5, 1.0 - 2.0**-53]


def run_ballstub(case, out, env):
    """the point returned for normal draw g and uniform draw u is g/|g| (sphere) resp. g/|g| * u**(1/dim) (uniform in the ball:
    P(r <= t) = t**dim); tolerance 8 eps relative: norm (dim+1)/2 ulp, division, pow and product <= 1 ulp each, dim <= 3"""
    import numqi
    fname, dim = case['function'], case['dim']
    size = case['size'] if not isinstance(case['size'], list) else tuple(case['size'])
    fn = getattr(numqi.random, fname)
    n_pt = 1 if size is None else int(np.prod(size))
    shp = (dim,) if size is None else ((size,) if isinstance(size, int) else size) + (dim,)
    dirs = DIRECTIONS[dim]
    ball = fname == 'rand_n_ball'
    eps = np.finfo(np.float64).eps
    for offset in range(len(dirs)):
        for us in (itertools.product(RADII_U, repeat=n_pt) if ball else [None]):
            g = np.array([dirs[(offset + i) % len(dirs)] for i in range(n_pt)], dtype=np.float64)
            stub = _ContinuousStub(g, us)
            out.state()
            out.trans()
            try:
                r = fn(dim, size=size, seed=stub)
            except Exception as e:
                out.violation('%s/stub/raises_%s' % (fname, type(e).__name__), '%s(dim=%d, size=%s) with harness answers raised %r' % (fname, dim, size, e), normals=g.tolist(), uniforms=us)
                return
            expect = g / np.sqrt((g * g).sum(axis=1, keepdims=True))
            if ball:
                expect = expect * (np.array(us, dtype=np.float64) ** (1.0 / dim))[:, None]
            expect = expect.reshape(shp)
            bad = None
            if not isinstance(r, np.ndarray) or r.shape != shp:
                bad = 'shape %s expected %s' % (getattr(r, 'shape', None), shp)
            elif not np.all(np.abs(r - expect) <= 8 * eps * np.abs(expect)):
                bad = 'point %s, expected direction * u**(1/dim) = %s' % (r.tolist(), expect.tolist())
            if bad:
                out.violation('%s/stub/invalid_object' % fname, '%s(dim=%d, size=%s) with normal draws %s and uniform draws %s: %s' % (fname, dim, size, g.tolist(), us, bad),
                              normals=g.tolist(), uniforms=us)
                return
            out.outcome((fname, dim, shp, core.digest(canon(r))), nontrivial=True)
            out.trace()
    out.sample = {'kind': 'ballstub', 'function': fname, 'dim': dim, 'size': case['size'], 'directions': len(dirs), 'radii': RADII_U if ball else None}


def run_cliffstub(case, out, env):
    """every answer of the generator to random_one_qubit_gate / random_two_qubit_gate: the recorded gate is the chosen one on the requested
    qubits in the requested order; the identity records nothing"""
    import numqi
    cls = numqi.sim.CliffordCircuit
    one, two = list(cls._single_gate_list), list(cls._two_qubit_gate_list)
    if sorted(one) != sorted(['I', 'X', 'Y', 'Z', 'H', 'S']) or sorted(two) != ['CX', 'CY', 'CZ']:
        out.violation('CliffordCircuit/stub/gate_menu', 'gate menus changed: %s %s' % (one, two))
        return
    program = [('one', (0,)), ('one', (2,)), ('two', (0, 1)), ('two', (2, 1))]
    for ans in itertools.product(range(6), range(6), range(3), range(3)):
        g = seams.StubGenerator([int(a) for a in ans])
        c = cls(seed=g)
        out.state()
        out.trans(len(program))
        expect = []
        for (k, idx), a in zip(program, ans):
            if k == 'one':
                c.random_one_qubit_gate(*idx)
                if one[a] != 'I':
                    expect.append((one[a],) + idx)
            else:
                c.random_two_qubit_gate(*idx)
                expect.append((two[a],) + idx)
        got = [tuple(x) for x in c.gate_index_list]
        draws = [(x[0], x[1], x[2]) for x in g.log]
        if got != expect or draws != [('integers', 0, 6), ('integers', 0, 6), ('integers', 0, 3), ('integers', 0, 3)]:
            out.violation('CliffordCircuit/stub/recorded_gates', 'generator answers %s for the program %s: recorded %s, expected %s (draws %s)' % (list(ans), program, got, expect, draws),
                          answers=list(ans))
            return
        out.outcome(('cliffstub', tuple(got)), nontrivial=len(got) == 4)
        out.trace()
    out.sample = {'kind': 'cliffstub', 'program': [list(map(str, p)) for p in program], 'answer_tuples': 324}


def run_interleave(case, out, env):
    """two objects that own their generator, built from int seeds and used interleaved: the stream of each object is a function of
    its own seed and its own use count only (no generator shared through the class, a module global or a per-seed cache)"""
    import numqi
    kind, sa, sb, n = case['object'], case['seed_a'], case['seed_b'], case['shots']
    psi = np.ones(4, dtype=np.complex128) / 2

    def make(seed):
        return numqi.sim.circuit.MeasureGate((0, 1), seed=seed) if kind == 'MeasureGate' else numqi.sim.CliffordCircuit(seed=seed)

    def use(o, k):
        if kind == 'MeasureGate':
            q1 = o.forward(psi.copy())
            return (tuple(int(b) for b in o.bitstr), canon(np.asarray(o.probability)), canon(q1))
        before = len(o.gate_index_list)
        if k % 2 == 0:
            o.random_one_qubit_gate(k)
        else:
            o.random_two_qubit_gate(k, k + 1)
        return tuple(tuple(g) for g in o.gate_index_list[before:])

    def solo(seed):
        o = make(seed)
        return [use(o, k) for k in range(n)]
    with seams.EntropySeam(0) as es:
        ref_a, ref_b = solo(sa), solo(sb)
        for pos_a in itertools.combinations(range(2 * n), n):
            a, b = make(sa), make(sb)
            got_a, got_b = [], []
            for t in range(2 * n):
                if t in pos_a:
                    got_a.append(use(a, len(got_a)))
                else:
                    got_b.append(use(b, len(got_b)))
            out.state()
            out.trans(2 * n)
            out.trace()
            if got_a != ref_a or got_b != ref_b:
                out.violation('%s/interleaved_objects/stream_depends_on_other_object' % kind,
                              'two %s objects (seeds %d, %d) used interleaved (object a at steps %s of %d): the stream of %s differs from the same object used alone'
                              % (kind, sa, sb, list(pos_a), 2 * n, 'a' if got_a != ref_a else 'b'), seed_a=sa, seed_b=sb, positions_a=list(pos_a))
                break
            out.outcome((kind, sa, sb, core.digest(('seq', tuple(canon(list(x)) for x in got_a + got_b)))), nontrivial=len(set(map(repr, got_a))) > 1)
    if es.hits:
        out.violation('%s/unseeded_generator_in_seeded_call' % kind, '%s(seed=int) constructed an unseeded generator at %s' % (kind, sorted({h[1] for h in es.hits})), seed_a=sa)
    if sa == sb and ref_a != ref_b:
        out.violation('%s/not_reproducible' % kind, 'two %s objects built from seed %d produce different streams' % (kind, sa), seed=sa)
    out.sample = {'kind': 'interleave', 'object': kind, 'seeds': [sa, sb], 'shots': n, 'interleavings': 20}


def run_case(case, out, env):
    import numqi
    import torch
    if case['kind'] == 'f2stub':
        return run_f2stub(case, out, env)
    if case['kind'] == 'interleave':
        return run_interleave(case, out, env)
    if case['kind'] == 'ballstub':
        return run_ballstub(case, out, env)
    if case['kind'] == 'cliffstub':
        return run_cliffstub(case, out, env)
    name, label, fn, valid, heavy, cross, light = get_branches()[case['index']]
    seeds = SEEDS if env.tier == 'quick' else SEEDS + [2, 3, 12345, 2**31 - 1]
    hs = histories(2 if env.tier == 'quick' else 3)
    if heavy:
        seeds = seeds[:1] if env.tier == 'quick' else seeds[:2]
        hs = histories(1)
    elif light and env.tier == 'quick':
        hs = histories(1)
    site = name
    key_b = '%s[%s]' % (name, label)

    def call(seed, stream):
        st_np = np.random.get_state()
        st_py = random.getstate()
        # uninitialised memory (np.empty ...) is answered with a different fill in the first and in the second call
        mark_torch()
        with seams.EntropySeam(stream) as es, seams.UninitSeam(fill=1.5e10 if stream == 0 else -3.25e7), TorchReseedSeam() as ts:
            with np.errstate(all='ignore'):
                r = fn(numqi, seed)
        hits = list(es.hits)
        # the global torch generator: re-seeding / restoring it inside a seeded call replaces the user's stream (a hit by itself);
        # merely advancing it is recorded (model constructors draw initial parameters that the seeded optimiser overwrites - the
        # histories with torch events show that the result does not depend on them)
        if ts.hits:
            out.violation('%s/reseeds_global_torch_generator' % site, '%s(seed=%s) called %s: the user\'s global torch stream is replaced by a seeded call' % (key_b, seed if isinstance(seed, (int, np.integer)) else '<Generator>', ts.hits),
                          branch=label)
        if not ts.hits and not torch.equal(_TORCH_BASE[0], torch.get_rng_state()):
            out.count('global_torch_generator_advanced[%s]' % name)
        # the legacy global generators are part of 'what other random calls happened in between': a seeded call must not read them
        st_np2 = np.random.get_state()
        if st_np[0] != st_np2[0] or not np.array_equal(st_np[1], st_np2[1]) or st_np[2:] != st_np2[2:]:
            hits.append(('global numpy.random state consumed', name))
        if random.getstate() != st_py:
            hits.append(('global python random state consumed', name))
        return r, hits

    per_seed = {}
    for seed in seeds:
        seams.reset_global_rngs(0)
        try:
            r0, hits0 = call(seed, 0)
        except Exception as e:
            if isinstance(e, AssertionError) and core.is_precondition_assert(e):
                out.count('rejected_by_precondition')
                return
            out.violation('%s/raises_%s' % (site, type(e).__name__), '%s(seed=%d) raised %r' % (key_b, seed, e), branch=label, seed=seed)
            return
        out.trans()
        c0 = canon(r0)
        per_seed[seed] = c0
        # (2) no fresh entropy inside a seeded call
        if hits0:
            out.violation('%s/unseeded_generator_in_seeded_call' % site,
                          '%s(seed=%d) drew from a source that is not derived from the seed: %s' % (key_b, seed, sorted({'%s @ %s' % (h[0], h[1]) for h in hits0})), branch=label, seed=seed, hits=hits0)
        # (4) validity
        try:
            fails = valid(r0)
        except Exception as e:
            fails = ['validity predicate could not read the object: %r' % (e,)]
        if fails:
            out.violation('%s/invalid_object' % site, '%s(seed=%d) returned an invalid object: %s' % (key_b, seed, '; '.join(fails[:3])), branch=label, seed=seed)
        if cross is not None:
            try:
                with seams.EntropySeam(0):
                    xf = cross(numqi, seed, r0)
            except Exception as e:
                xf = ['cross-option call failed: %r' % (e,)]
            out.trans()
            if xf:
                out.violation('%s/cross_option_mismatch' % site, '%s(seed=%d) is inconsistent with the same call under another option value: %s' % (key_b, seed, '; '.join(xf[:3])),
                              branch=label, seed=seed)
        out.outcome((key_b, seed, core.digest(c0)), nontrivial=True)
        # (5) seed forms: the numpy integer scalar of the same value selects the same stream as the python int
        try:
            r_np, hits_np = call(np.int64(seed), 1)
            out.trans()
            if canon(r_np) != c0 or hits_np:
                out.violation('%s/seed_form/np_int64_differs_from_int' % site, '%s: seed=np.int64(%d) and seed=%d give different results%s' % (key_b, seed, seed, ' (unseeded draws)' if hits_np else ''),
                              branch=label, seed=seed)
        except Exception as e:
            out.violation('%s/seed_form/np_int64_raises_%s' % (site, type(e).__name__), '%s(seed=np.int64(%d)) raised %r' % (key_b, seed, e), branch=label, seed=seed)
        # (1) reproducibility under every intervening history
        n_bad = 0
        for h in hs:
            seams.reset_global_rngs(0)
            r0b, _ = call(seed, 0)
            for ev in h:
                with seams.EntropySeam(5):
                    apply_event(ev, numqi, fn, seed)
            r1, hits1 = call(seed, 1)
            out.state()
            out.trans(2)
            if canon(r0b) != c0 or canon(r1) != c0:
                n_bad += 1
                if n_bad == 1:
                    out.violation('%s/not_reproducible' % site,
                                  '%s(seed=%d) differs between two calls with the same seed (intervening history %s; fresh entropy stream differs between the calls)' % (key_b, seed, list(h)),
                                  branch=label, seed=seed, history=list(h))
            out.trace()
    # (5) an integer seed beyond 64 bits (python ints are unbounded; numpy's SeedSequence and random.Random accept them): reproducible and valid
    big = 2**70 + 3
    try:
        seams.reset_global_rngs(0)
        rb0, hb0 = call(big, 0)
        with seams.EntropySeam(5):
            apply_event('np.rand', numqi, fn, 0)
            apply_event('torch.rand', numqi, fn, 0)
        rb1, hb1 = call(big, 1)
        out.trans(2)
        out.state()
        if canon(rb0) != canon(rb1) or hb0 or hb1:
            out.violation('%s/seed_form/wide_int_not_reproducible' % site, '%s(seed=2**70+3) differs between two calls%s' % (key_b, ' (unseeded draws)' if (hb0 or hb1) else ''), branch=label)
        try:
            fails = valid(rb0)
        except Exception as e:
            fails = ['validity predicate could not read the object: %r' % (e,)]
        if fails:
            out.violation('%s/invalid_object' % site, '%s(seed=2**70+3) returned an invalid object: %s' % (key_b, '; '.join(fails[:3])), branch=label, seed=big)
    except (TypeError, ValueError, OverflowError) as e:
        out.count('wide_int_seed_rejected[%s:%s]' % (name, type(e).__name__))
    except Exception as e:
        out.violation('%s/seed_form/wide_int_raises_%s' % (site, type(e).__name__), '%s(seed=2**70+3) raised %r' % (key_b, e), branch=label)
    # (3) a Generator passed as seed is consumed: consecutive calls differ, and the pair is reproducible
    # (audit wave: also the heavy APIs, Circuit.measure, MeasureGate, CliffordCircuit(seed=Generator) and get_purification)
    if 'rand_F2' not in name:
        try:
            def pair(sd):
                if name in ('rand_SpF2', 'rand_Clifford_group'):
                    g = random.Random(sd)
                else:
                    g = np.random.default_rng(sd)
                with seams.EntropySeam(0) as es:
                    a = fn(numqi, g)
                    b = fn(numqi, g)
                return canon(a), canon(b), es.hits
            a, b, hits = pair(11)
            a2, b2, _ = pair(11)
            out.trans(4)
            if (a, b) != (a2, b2):
                out.violation('%s/generator_seed_not_reproducible' % site, '%s: threading the same generator twice gives different results' % key_b, branch=label)
            deterministic_by_design = (name == 'get_purification' and 'None' in label) or (name == 'measure_quantum_vector') or (name == 'check_UD_is_UD')
            if a == b and not deterministic_by_design and not (name == 'rand_haar_state' and 'dim=1' in label) and not (name == 'rand_haar_unitary' and 'dim=1' in label) \
                    and not (name == 'rand_n_sphere' and 'dim=1' in label):
                out.count('generator_not_advanced[%s]' % name)
            if hits:
                out.violation('%s/unseeded_generator_in_seeded_call' % site, '%s(seed=<Generator>) constructed an unseeded generator at %s' % (key_b, sorted({h[1] for h in hits})), branch=label)
        except Exception as e:
            out.violation('%s/generator_seed_raises_%s' % (site, type(e).__name__), '%s with a generator object as seed raised %r' % (key_b, e), branch=label)
    if len(set(per_seed.values())) == 1 and len(per_seed) > 1:
        out.count('seed_has_no_effect[%s]' % key_b)
    out.sample = {'function': name, 'branch': label, 'seeds': seeds, 'histories': len(hs), 'example_history': list(hs[-1])}
