"""C03 - the state-vector / density-matrix simulator applies gates exactly as the embedded operator.

Spaces (DESIGN.md section 4, C03):
  Part 1, primitives (mode B: complete bases of (multi)linear maps, every index pattern)
    gate    : numqi.sim.state.apply_gate / apply_control_n_gate for EVERY (ordered target tuple of size 1..3, disjoint
              control subset) of n qubits x ALL 4^k matrix units E_ab (+ generic unitary, generic non-unitary)
              x ALL 2^n basis vectors (+ generic vector). (op, state) -> out is bilinear, so agreement on
              {E_ab} x {e_i} implies agreement everywhere; the generic atoms and a linearity residual spot-check the
              bilinearity assumption itself. Extra coordinates: index given as int / tuple, control given as int / set,
              float64 state with a complex operator.
    dm      : numqi.sim.dm.apply_gate for every ordered target tuple x polarisation set of the operator
              {E_i, E_i+E_j, E_i+1j*E_j} (complete for the sesquilinear form (U,V) -> U rho V^dagger; sees a missing
              conjugate) x ALL matrix units of rho (+ generic rho); index as list (bulk), tuple and int (documented forms)
    expect  : numqi.sim.dm.operator_expectation == Tr(rho O_embedded): all matrix units of rho x all matrix units of O
    prob    : numqi.sim.state.reduce_to_probability == Born marginal for EVERY keep-set x polarisation set of states
              {e_a, e_a+e_b, e_a+1j*e_b} (complete for the quadratic form psi -> |psi|^2 marginals)
    inner   : numqi.sim.state.inner_product_psi0_O_psi1: every ordered pair of target tuples (size 1..2) for a two-term
              product A.B, all <e_i| . |e_j> (and complex atoms for the conjugation of psi0); n<=2: all products of
              matrix units; term lists of length 0..3
  Part 2, programs (mode H-stateless)
    prog    : every history up to the depth bound over the event alphabet = every gate-adding method of Circuit
              (X Y Z H S T Swap cnot cx cy cz toffoli rx ry rz u3 rzz crx cry crz cu3 single/double/triple/quadruple_qubit_gate
              controlled_single/double_qubit_gate, two user-registered gates, append_gate of the previous gate object,
              extend_circuit, shift_qubit_index_(+-1)) x every wiring on nq qubits x a parameter alphabet
              {None(=0), pi/3, generic ndarray, generic through circ.P placeholder + setP}. Each history is executed on
              a fresh Circuit; checked: to_unitary() == ordered product of reference embeddings, unitarity,
              apply_state(generic psi) == U_ref psi, reduce_to_probability of the output for every keep-set == Born marginal.
              After the validation every history with a placeholder gate gets a SECOND setP with other values (re-validated), every
              sub-circuit passed to extend_circuit is checked to be unchanged (gate_index_list, unitary), depth-1 histories are also
              applied to a state one qubit wider than num_qubit, and shift_qubit_index_(0) is an event.
    holder  : gate1(placeholder); cnot; gate2(placeholder) for every addressing scheme of circ.P (P[k], P[i] + positional setP, P[k][i],
              P[k][i,j], P[i,j], one key / one element shared by two gates, list / tuple / ndarray containers) x every leaf container
              (float, np.float64, length-1 array/list; tuple/list/array of 3 for u3) x three setP rounds (first, second, partial update)
    gateobj : one Gate object at two positions (append_gate) x ParameterGate.set_args forms (list, tuple, ndarray, list + matrix) x order
              (append/set), copy() independence in both directions (ParameterGate, plain Gate, copy of a placeholder gate), a registered
              gate of kind 'custom' at every program position, Circuit methods with an empty control set (== the uncontrolled gate)
    argform : every vocabulary method with np.int64 indices and set / frozenset / list / tuple / ndarray / set[np.int64] control collections
    gatedef : the matrix stored by every vocabulary method equals the documented formula (finite parameter alphabet).
  Thin slices n = 5 (quick), 5..6 (thorough) for dm / expect: every ordered target tuple x thin_matrix_units(rho) x thin_ops.
  Further coordinates of `gate`: np.int64 / list / ndarray index forms, list / tuple / frozenset / ndarray / reversed-list control
  collections, the EMPTY control set (== apply_gate), dtype alphabet {float64, int64 basis states} x {complex, real, integer operator}.
Oracle: kron + explicit axis permutation (mc.ref.embed), controlled gate as (1-P) + P.embed(U) (mc.ref.controlled),
Born marginals by a loop over basis indices, documented closed forms of the parametrised gates.
"""
import itertools

import numpy as np

from mc import core, ref

PROPERTY = 'C03'
GUARD = ['numqi.sim.state', 'numqi.sim.dm']  # argument-immutability oracle (mc.seams.ImmutabilityGuard)
GUARD_LAYOUT = ['numqi.sim.state', 'numqi.sim.dm']  # memory-layout metamorphic oracle (same wrapper)
LEVEL = 'model_checking'
# additions whose oracle fires on the pinned tree (reported, awaiting a repair of numqi): skipped and counted as pending/<flag>
PENDING = set()
RULE = ('primitives: every (ordered target tuple of size 1..3, disjoint control subset) on n qubits x all matrix units of the '
        'operator (polarisation set where the map is sesquilinear) x all basis vectors / matrix units of the state, plus generic atoms; '
        'programs: every history up to the depth bound over the Circuit vocabulary x all wirings x the parameter alphabet, each on a fresh '
        'Circuit. state = one (index pattern, operator, input) point or one history; transition = one implementation call compared with '
        'the kron/permutation reference; trace = one program validated (to_unitary, apply_state, all marginals). non-trivial = the observed '
        'output differs from the input (gate acted) / the program unitary is not the identity. '
        'Added coordinates: second setP call and partial update, every placeholder addressing scheme x leaf container (kind holder), one Gate '
        'object at two positions x set_args form x copy() (kind gateobj), kind=custom gates, np.int64 / collection argument forms (kind argform '
        'and extra forms of the primitives), empty control set, real and integer dtypes, sub-circuit unchanged after extend_circuit + shift, '
        'state wider than num_qubit, shift by 0, empty op_list, thin slices of dm / expectation for n = 5..6 (all ordered target tuples x '
        'matrix units on the diagonal, first row, first column and anti-diagonal of rho)')
ASSUMPTIONS = [
    'kron + explicit axis permutation (qubit 0 = most significant factor, "count from left to right |0123>") is the embedding',
    'the primitives are multilinear in (operator, state) [einsum/reshape/slice assignment only]; spot-checked by generic atoms and a linearity residual per index pattern',
    'parametrised gates are defined by their docstring formulas exp(-i theta P/2), u3 = Rz(phi)Ry(theta)Rz(lambda)e^{i(phi+lambda)/2}',
    'num_qubit of a circuit is 1 + the largest index used (documented by Circuit.num_qubit); histories without a gate and shifts to negative indices are outside the domain',
    'measure / kraus gates are not part of this property (C11 / not supported by apply_state)',
    'circ.P semantics: P[k] / P[i] / P[k][i] / P[k][i,j] resolve by plain python indexing into what setP stored (positional argument under the key ""); setP re-binds every placeholder '
    'gate on every call and keeps keys that are not passed again; a 0-d array value, set_args(scalar), extend_circuit(self) and holders of another circuit are outside the domain',
    'collections other than the documented int / tuple / set (list, ndarray, frozenset) and integer-dtype states are not promised: a TypeError / precondition assert is counted as a refusal, '
    'an accepted call must give the reference result',
    'n = 5..6 for dm / operator_expectation is a thin slice (every index pattern, thin operator/state alphabets), not the complete basis used for n <= 4',
    'PENDING (oracle in place, skipped until numqi is repaired): ' + (', '.join(sorted(PENDING)) or 'none'),
]
CHUNK = 1

EPS = np.finfo(np.float64).eps
C_SAFE = 1e3


def tol_of(opnorm, statenorm, terms):
    """c * eps * kappa. One gate application computes every output entry as a sum of `terms` (= 2^k, k<=4) products
    op_entry * state_entry; the rounding error of such a sum is <= terms * eps * |op|_max * |state|_max
    <= terms * eps * ||op||_F * ||state||_2 = eps * kappa. c = 1e3 is the fixed safety constant of DESIGN.md 3.2.
    (Observed errors are ~1e-16; a wrong index convention gives O(1).)"""
    return C_SAFE * EPS * max(1, terms) * max(opnorm, 1e-300) * max(statenorm, 1e-300)


# ------------------------------------------------------------------------------------------------ alphabets
def index_patterns(n, kmax=3):
    """all (ordered target tuple of size 1..kmax, control subset disjoint from it) on n qubits; controls ascending tuples"""
    ret = []
    for k in range(1, min(kmax, n) + 1):
        for tgt in itertools.permutations(range(n), k):
            rest = [q for q in range(n) if q not in tgt]
            for r in range(len(rest) + 1):
                for ctl in itertools.combinations(rest, r):
                    ret.append((tuple(tgt), tuple(ctl)))
    ret.sort(key=lambda x: (len(x[0]) + len(x[1]), len(x[0]), x))
    return ret


def matrix_units(d):
    ret = []
    for a in range(d):
        for b in range(d):
            m = np.zeros((d, d), dtype=np.float64)
            m[a, b] = 1
            ret.append(m)
    return ret


def basis_vectors(d, dtype=np.complex128):
    return [np.eye(d, dtype=dtype)[i].copy() for i in range(d)]


def polarisation_ops(d, lo=None, hi=None):
    """{E_i} + {E_i+E_j, E_i+1j*E_j : i<j}; with (lo,hi): only the pairs whose first index i is in [lo,hi)"""
    units = matrix_units(d)
    ret = []
    if lo is None:
        lo, hi = 0, len(units)
    for i in range(lo, hi):
        ret.append(('E%d' % i, units[i]))
        for j in range(i + 1, len(units)):
            ret.append(('E%d+E%d' % (i, j), units[i] + units[j]))
            ret.append(('E%d+iE%d' % (i, j), units[i] + 1j * units[j]))
    return ret


def thin_matrix_units(D):
    """n >= 5: the matrix units E_ij on the diagonal, the first row, the first column and the anti-diagonal (every row index and every
    column index occurs, with equal and with different partner): a thin slice of the complete basis used for n <= 4"""
    ret = []
    for i in range(D):
        for j in range(D):
            if i == j or i == 0 or j == 0 or i + j == D - 1:
                m = np.zeros((D, D), dtype=np.complex128)
                m[i, j] = 1
                ret.append(('E%d_%d' % (i, j), m))
    return ret


def thin_ops(A, k, kfull):
    """operator alphabet of the thin slices: all matrix units for k <= kfull; first row + diagonal units above; + the generic atoms"""
    d = 2**k
    units = [('E%d' % i, m) for i, m in enumerate(matrix_units(d))]
    if k > kfull:
        units = [u for i, u in enumerate(units) if i < d or i % (d + 1) == 0]
    return units + [('U', A['U%d' % k]), ('M', A['M%d' % k])]


def polarisation_states(d):
    ret = [('e%d' % a, np.eye(d, dtype=np.complex128)[a].copy()) for a in range(d)]
    for a in range(d):
        for b in range(a + 1, d):
            v = np.zeros(d, dtype=np.complex128)
            v[a] = 1
            v[b] = 1
            ret.append(('e%d+e%d' % (a, b), v))
            v = np.zeros(d, dtype=np.complex128)
            v[a] = 1
            v[b] = 1j
            ret.append(('e%d+ie%d' % (a, b), v))
    return ret


_ATOMS = {}


def atoms(env):
    """the generic atoms: the only seed-dependent inputs"""
    key = env.seed
    if key not in _ATOMS:
        rng = env.rng('C03', 'atoms')
        A = {}
        for k in (1, 2, 3, 4):
            d = 2**k
            A['U%d' % k] = ref.haar_unitary(rng, d)
            A['V%d' % k] = ref.haar_unitary(rng, d)
            A['M%d' % k] = rng.normal(size=(d, d)) + 1j * rng.normal(size=(d, d))  # generic non-unitary
        for n in range(1, 9):
            A['psi%d' % n] = ref.rand_state(rng, 2**n)
            A['phi%d' % n] = ref.rand_state(rng, 2**n)
        for n in (1, 2, 3, 4):
            A['rho%d' % n] = ref.rand_dm(rng, 2**n)
        A['theta'] = rng.uniform(0.3, 2 * np.pi - 0.3, size=6)
        for n in (5, 6):  # drawn last: the atoms above are the same as before these were added
            A['rho%d' % n] = ref.rand_dm(rng, 2**n)
        _ATOMS.clear()
        _ATOMS[key] = A
    return _ATOMS[key]


def born_marginal(psi, n, keep):
    """loop over basis indices; kept qubits in ascending order, qubit 0 most significant"""
    keep = sorted(keep)
    out = np.zeros(2**len(keep), dtype=np.float64)
    for i in range(2**n):
        bits = [(i >> (n - 1 - q)) & 1 for q in range(n)]
        j = 0
        for q in keep:
            j = 2 * j + bits[q]
        out[j] += abs(psi[i])**2
    return out


def ref_operator(op, ctl, tgt, n):
    if len(ctl) == 0:
        return ref.embed(op, list(tgt), n)
    return ref.controlled(op, list(ctl), list(tgt), n)


def order_class(tgt):
    return 'asc' if list(tgt) == sorted(tgt) else 'perm'


def _call(out, key_prefix, what, fn, detail):
    """run a library call on an admissible input; any exception is a violation (DESIGN 3.3)"""
    try:
        return True, fn()
    except Exception as e:  # noqa
        site = core.exc_site(e)
        out.violation('%s/%s' % (key_prefix, type(e).__name__),
                      '%s raised %s: %s (at %s)' % (what, type(e).__name__, str(e)[:160], site), **detail)
        return False, None


def _compare(out, got, exp, tol, key, what, detail, shape=None):
    got = np.asarray(got)
    if shape is not None and got.shape != shape:
        out.violation(key + '/shape', '%s: shape %s instead of %s' % (what, got.shape, shape), **detail)
        return False
    if not np.all(np.isfinite(got)):
        out.violation(key + '/nonfinite', '%s: NaN/Inf in the result' % what, observed=got, expected=exp, **detail)
        return False
    err = float(np.abs(got - exp).max()) if got.size else 0.0
    if err > tol:
        out.violation(key, '%s: max deviation %.3g > tol %.3g' % (what, err, tol), observed=got, expected=exp, err=err, tol=tol, **detail)
        return False
    return True


# ------------------------------------------------------------------------------------------------ Part 1 runners
def run_gate(case, out, env):
    import numqi
    st = numqi.sim.state
    A = atoms(env)
    n, tgt, ctl = case['n'], tuple(case['tgt']), tuple(case['ctl'])
    k = len(tgt)
    d, D = 2**k, 2**n
    oc = order_class(tgt)
    if ctl:
        site = 'sim.state/apply_control_n_gate'
        cfg = '%s/nctl=%d' % (oc, len(ctl)) if len(ctl) < 2 else '%s/nctl>=2' % oc

        def impl(q, op):
            return st.apply_control_n_gate(q, op, set(ctl), tgt)
    else:
        site = 'sim.state/apply_gate'
        cfg = oc

        def impl(q, op):
            return st.apply_gate(q, op, tgt)

    def impl_ct(q, op, c, t):
        return st.apply_control_n_gate(q, op, set(c), t) if c else st.apply_gate(q, op, t)
    ops = [('E%d' % i, m) for i, m in enumerate(matrix_units(d))] + [('U', A['U%d' % k]), ('M', A['M%d' % k])]
    states = [('e%d' % i, v) for i, v in enumerate(basis_vectors(D))] + [('psi', A['psi%d' % n])]
    for oname, op in ops:
        W = ref_operator(op, ctl, tgt, n)
        opn = max(1.0, float(np.linalg.norm(op)))
        for sname, q in states:
            out.state()
            out.trans()
            det = dict(n=n, targets=list(tgt), controls=list(ctl), op=op, state=q)
            ok, got = _call(out, site, '%s(n=%d, targets=%s, controls=%s)' % (site, n, tgt, ctl), lambda: impl(q.copy(), op.copy()), det)
            if not ok:
                continue
            exp = W @ q
            _compare(out, got, exp, tol_of(opn, 1.0, d), '%s/mismatch/%s/k=%d' % (site, cfg, k),
                     '%s(n=%d, targets=%s, controls=%s, op=%s, state=%s) != embedded operator @ state' % (site, n, tgt, ctl, oname, sname),
                     det, shape=(D,))
            g = np.asarray(got)
            out.outcome((n, g), nontrivial=bool(g.shape == q.shape and np.abs(g - q).max() > 1e-9 and np.abs(g).max() > 1e-9))
    # ---- multilinearity residual (trusted base of mode B, spot-checked)
    U, M, psi, phi = A['U%d' % k], A['M%d' % k], A['psi%d' % n], A['phi%d' % n]
    a, b = 0.7 - 0.4j, -1.3 + 0.2j
    det = dict(n=n, targets=list(tgt), controls=list(ctl))
    ok, r = _call(out, site, 'linearity probe', lambda: (impl(a * psi + b * phi, U), impl(psi, U), impl(phi, U), impl(psi, a * U + b * M), impl(psi, M)), det)
    if ok:
        out.trans(5)
        # each side carries a rounding error <= tol_of(...) with ||a psi + b phi|| <= |a|+|b| < 3, ||aU+bM||_F <= 3 ||M||_F
        tl = tol_of(3 * max(np.linalg.norm(U), np.linalg.norm(M)), 3.0, d)
        if np.abs(r[0] - (a * r[1] + b * r[2])).max() > tl:
            out.violation(site + '/not_linear_in_state', 'f(a psi + b phi) != a f(psi) + b f(phi)', op=U, psi=psi, phi=phi, **det)
        if len(ctl) == 0 and np.abs(r[3] - (a * r[1] + b * r[4])).max() > tl:
            out.violation(site + '/not_linear_in_op', 'f(psi; aU+bM) != a f(psi;U) + b f(psi;M)', U=U, M=M, psi=psi, **det)
        if len(ctl) > 0:
            # controlled gate is affine in op: C(op) = (1-P) + P.op  =>  C(aU+bM) - a C(U) - b C(M) = (1-a-b)(1-P)
            P1 = ref_operator(np.eye(d), ctl, tgt, n) - ref_operator(np.zeros((d, d)), ctl, tgt, n)  # = P
            rest = (1 - a - b) * ((np.eye(D) - P1) @ psi)
            if np.abs(r[3] - (a * r[1] + b * r[4]) - rest).max() > tl:
                out.violation(site + '/not_affine_in_op', 'controlled gate is not (1-P) + P.op in op', U=U, M=M, psi=psi, **det)
    # ---- documented argument forms: index as int (k=1), control as int (one control), target as list
    forms = []
    if ctl:
        if len(ctl) == 1:
            forms.append(('control=int', lambda q, op: st.apply_control_n_gate(q, op, ctl[0], tgt)))
        if k == 1:
            forms.append(('target=int', lambda q, op: st.apply_control_n_gate(q, op, set(ctl), tgt[0])))
    else:
        if k == 1:
            forms.append(('index=int', lambda q, op: st.apply_gate(q, op, tgt[0])))
    # ---- further argument forms (np.int64 indices, list / ndarray / frozenset / tuple collections; sub-alphabet of states: the conversion
    #      happens before any arithmetic): np.int64 is an int; the other collections are not documented -> a refusal is counted
    forms2 = [('index=np.int64', lambda q, op: impl_ct(q, op, ctl, tuple(np.int64(x) for x in tgt)), True)]
    if k == 1:
        forms2.append(('index=np.int64', lambda q, op: impl_ct(q, op, ctl, np.int64(tgt[0])), True))
    forms2.append(('index=list', lambda q, op: impl_ct(q, op, ctl, list(tgt)), False))
    forms2.append(('index=ndarray', lambda q, op: impl_ct(q, op, ctl, np.array(tgt, dtype=np.int64)), False))
    # the same ordered targets as non-contiguous index arrays: a reversed view and every second entry of a padded buffer
    forms2.append(('index=ndarray[reversed view]', lambda q, op: impl_ct(q, op, ctl, np.array(tgt[::-1], dtype=np.int64)[::-1]), False))
    forms2.append(('index=ndarray[strided view]', lambda q, op: impl_ct(q, op, ctl, np.stack([np.array(tgt, dtype=np.int64), np.full(len(tgt), 99)], axis=1)[:, 0]), False))
    if ctl:
        if len(ctl) == 1:
            forms2.append(('control=np.int64', lambda q, op: st.apply_control_n_gate(q, op, np.int64(ctl[0]), tgt), True))
        forms2.append(('control=set[np.int64]', lambda q, op: st.apply_control_n_gate(q, op, {np.int64(x) for x in ctl}, tgt), True))
        for cname, cf in (('list', list), ('tuple', tuple), ('frozenset', frozenset), ('ndarray', lambda c: np.array(c, dtype=np.int64)), ('reversed_list', lambda c: list(c)[::-1])):
            forms2.append(('control=' + cname, lambda q, op, cf=cf: st.apply_control_n_gate(q, op, cf(ctl), tgt), False))
    else:
        # a controlled gate without any control qubit is the gate itself (other empty collections than set())
        for cname, cf in (('frozenset()', frozenset), ('[]', list), ('()', tuple)):
            forms2.append(('control=' + cname, lambda q, op, cf=cf: st.apply_control_n_gate(q, op, cf(), tgt), False))
    W = ref_operator(U, ctl, tgt, n)
    for fname, fn, documented in forms2:
        for sname, q in states[-2:]:
            out.state()
            out.trans()
            det = dict(n=n, targets=list(tgt), controls=list(ctl), op=U, state=q, form=fname)
            try:
                got = fn(q.copy(), U.copy())
            except Exception as e:  # noqa
                if not documented and ((isinstance(e, AssertionError) and core.is_precondition_assert(e)) or isinstance(e, TypeError)):
                    out.count('undocumented_form_rejected[%s]' % fname)
                else:
                    out.violation('%s/%s/%s' % (site, fname, type(e).__name__), '%s with %s raised %s: %s' % (site, fname, type(e).__name__, str(e)[:160]), **det)
                continue
            _compare(out, got, W @ q, tol_of(np.linalg.norm(U), 1.0, d), '%s/mismatch/%s' % (site, fname),
                     '%s(%s) != embedded operator @ state' % (site, fname), det, shape=(D,))
    if not ctl:
        # ---- EMPTY control set: apply_control_n_gate(q, op, set(), tgt) == apply_gate(q, op, tgt) (own branch of the slicing code; the arithmetic is the apply_gate
        #      enumerated above): complete operator alphabet for k<=2, first-row matrix units + generic atoms for k=3, all states
        for oname, op in (ops if k <= 2 else ops[:d] + ops[-2:]):
            W0 = ref.embed(op, list(tgt), n)
            for sname, q in states:
                out.state()
                out.trans()
                det = dict(n=n, targets=list(tgt), controls=[], op=op, state=q)
                ok, got = _call(out, 'sim.state/apply_control_n_gate/empty_control', 'apply_control_n_gate(q, op, set(), %s)' % (tgt,), lambda: st.apply_control_n_gate(q.copy(), op.copy(), set(), tgt), det)
                if ok:
                    _compare(out, got, W0 @ q, tol_of(max(1.0, float(np.linalg.norm(op))), 1.0, d), 'sim.state/apply_control_n_gate/mismatch/empty_control/k=%d' % k,
                             'apply_control_n_gate(n=%d, controls=set(), targets=%s, op=%s, state=%s) != embedded operator @ state' % (n, tgt, oname, sname), det, shape=(D,))
    for fname, fn in forms:
        for sname, q in states:
            out.state()
            out.trans()
            det = dict(n=n, targets=list(tgt), controls=list(ctl), op=U, state=q, form=fname)
            ok, got = _call(out, '%s/%s' % (site, fname), '%s with %s' % (site, fname), lambda: fn(q.copy(), U.copy()), det)
            if ok:
                _compare(out, got, W @ q, tol_of(np.linalg.norm(U), 1.0, d), '%s/mismatch/%s' % (site, fname),
                         '%s(%s) != embedded operator @ state' % (site, fname), det, shape=(D,))
    # ---- a float64 vector is a state too: real basis vectors x the complex generic unitary
    for i, q in enumerate(basis_vectors(D, dtype=np.float64)):
        out.state()
        out.trans()
        det = dict(n=n, targets=list(tgt), controls=list(ctl), op=U, state=q, state_dtype='float64')
        ok, got = _call(out, site + '/float64_state', '%s on a float64 state' % site, lambda: impl(q.copy(), U.copy()), det)
        if ok:
            _compare(out, got, W @ q, tol_of(np.linalg.norm(U), 1.0, d), '%s/mismatch/float64_state_complex_op' % site,
                     '%s(float64 basis state e%d, complex unitary, n=%d, targets=%s, controls=%s) != embedded operator @ state '
                     '(imaginary part lost?)' % (site, i, n, tgt, ctl), det, shape=(D,))
            out.outcome((n, 'f64', np.asarray(got)), nontrivial=True)
    # ---- dtype alphabet (n <= 3: the dtype handling does not depend on n): real / integer basis states x complex / real / integer operator.
    #      float64 x float64 is a documented ndarray input; integer arrays are not promised -> a TypeError is counted, a wrong cast is a violation
    if n <= 3:
        R = np.ascontiguousarray(M.real)
        Xi = np.eye(d, dtype=np.int64)[::-1].copy()  # integer permutation matrix (X on every target)
        for sdt, oname, op in (('float64', 'real', R), ('int64', 'complex', U), ('int64', 'real', R), ('int64', 'int', Xi)):
            Wd = ref_operator(op.astype(np.complex128), ctl, tgt, n)
            for i, q in enumerate(basis_vectors(D, dtype=getattr(np, sdt))):
                out.state()
                out.trans()
                det = dict(n=n, targets=list(tgt), controls=list(ctl), op=op, state=q, state_dtype=sdt, op_dtype=oname)
                try:
                    got = impl(q.copy(), op.copy())
                except TypeError:
                    if sdt == 'int64':
                        out.count('integer_state_rejected')
                        continue
                    raise
                _compare(out, got, Wd @ q, tol_of(max(1.0, float(np.linalg.norm(op))), 1.0, d), '%s/mismatch/dtype/%s_state_%s_op' % (site, sdt, oname),
                         '%s(%s basis state e%d, %s operator, n=%d, targets=%s, controls=%s) != embedded operator @ state' % (site, sdt, i, oname, n, tgt, ctl), det, shape=(D,))
    out.trace()
    out.sample = {'kind': 'gate', 'n': n, 'targets': list(tgt), 'controls': list(ctl), 'n_ops': len(ops), 'n_states': len(states)}


def run_dm(case, out, env):
    import numqi
    dmm = numqi.sim.dm
    A = atoms(env)
    n, tgt = case['n'], tuple(case['tgt'])
    k = len(tgt)
    d, D = 2**k, 2**n
    oc = order_class(tgt)
    site = 'sim.dm/apply_gate'
    thin = case['mode'] == 'thin'
    if thin:
        ops = thin_ops(A, k, case['kfull'])[:-2]
    elif case['mode'] == 'polar':
        ops = polarisation_ops(d, case['lo'], case['hi'])
    else:
        ops = [('E%d' % i, m) for i, m in enumerate(matrix_units(d))]
    if case.get('lo', 0) == 0:
        ops = ops + [('U', A['U%d' % k]), ('M', A['M%d' % k])]
    if thin:
        rhos = thin_matrix_units(D) + [('rho', A['rho%d' % n])]
    else:
        rhos = [('E%d' % i, m.astype(np.complex128)) for i, m in enumerate(matrix_units(D))] + [('rho', A['rho%d' % n])]
    for oname, op in ops:
        W = ref.embed(op, list(tgt), n)
        Wd = W.conj().T
        opn = max(1.0, float(np.linalg.norm(op)))
        for rname, rho in rhos:
            out.state()
            out.trans()
            det = dict(n=n, index=list(tgt), index_form='list', op=op, dm=rho)
            ok, got = _call(out, site + '/index=list', 'sim.dm.apply_gate(index=%s)' % (list(tgt),), lambda: dmm.apply_gate(rho.copy(), op.copy(), list(tgt)), det)
            if not ok:
                continue
            exp = W @ rho @ Wd
            # two applications (left, right): kappa = ||op||_F^2 * ||rho||_F, 2^k terms each
            _compare(out, got, exp, tol_of(opn * opn, max(1.0, np.linalg.norm(rho)), 2 * d), '%s/mismatch/%s/k=%d' % (site, oc, k),
                     'sim.dm.apply_gate(n=%d, index=%s, op=%s, dm=%s) != U rho U^dagger' % (n, list(tgt), oname, rname), det, shape=(D, D))
            g = np.asarray(got)
            out.outcome((n, g), nontrivial=bool(g.shape == rho.shape and np.abs(g - rho).max() > 1e-9 and np.abs(g).max() > 1e-9))
    # ---- the documented index forms int | tuple[int] (sub-alphabet: generic atoms and the complex polarisation elements of E_0)
    if case.get('lo', 0) == 0 and not thin:
        forms = [('tuple', tuple(tgt)), ('tuple[np.int64]', tuple(np.int64(x) for x in tgt))] + ([('int', tgt[0]), ('np.int64', np.int64(tgt[0]))] if k == 1 else [])
        sub_ops = [('U', A['U%d' % k]), ('M', A['M%d' % k])] + polarisation_ops(d, 0, 1)[:7]
        for fname, idx in forms:
            for oname, op in sub_ops:
                W = ref.embed(op, list(tgt), n)
                for rname, rho in (rhos[:D + 1] + rhos[-1:]):
                    out.state()
                    out.trans()
                    det = dict(n=n, index=idx, index_form=fname, op=op, dm=rho)
                    ok, got = _call(out, '%s/index=%s' % (site, fname), 'sim.dm.apply_gate(dm, op, index=%r) [documented: int|tuple[int]]' % (idx,),
                                    lambda: dmm.apply_gate(rho.copy(), op.copy(), idx), det)
                    if ok:
                        _compare(out, got, W @ rho @ W.conj().T, tol_of(max(1.0, np.linalg.norm(op))**2, max(1.0, np.linalg.norm(rho)), 2 * d),
                                 '%s/mismatch/index=%s' % (site, fname), 'sim.dm.apply_gate(index=%r) != U rho U^dagger' % (idx,), det, shape=(D, D))
        # linearity in rho (mode B trusted base)
        U, r1, r2 = A['U%d' % k], A['rho%d' % n], rhos[min(3, len(rhos) - 1)][1]
        ok, r = _call(out, site + '/index=list', 'linearity probe', lambda: (dmm.apply_gate(0.3 * r1 + 2j * r2, U, list(tgt)), dmm.apply_gate(r1, U, list(tgt)), dmm.apply_gate(r2, U, list(tgt))), dict(n=n, index=list(tgt)))
        if ok:
            out.trans(3)
            if np.abs(r[0] - 0.3 * r[1] - 2j * r[2]).max() > tol_of(np.linalg.norm(U)**2, 3.0, 2 * d):
                out.violation(site + '/not_linear_in_dm', 'apply_gate(a r1 + b r2) != a apply_gate(r1) + b apply_gate(r2)', n=n, index=list(tgt), op=U, r1=r1, r2=r2)
        # ---- dtype alphabet: a float64 (real) density matrix with a real and with a complex operator
        R = np.ascontiguousarray(A['M%d' % k].real)
        for oname, op in (('real', R), ('complex', A['U%d' % k])):
            W = ref.embed(op, list(tgt), n)
            for rname, rho in rhos[:D + 2]:
                rho = np.ascontiguousarray(rho.real)
                out.state()
                out.trans()
                det = dict(n=n, index=list(tgt), op=op, dm=rho, dm_dtype='float64', op_dtype=oname)
                ok, got = _call(out, site + '/float64_dm', 'sim.dm.apply_gate on a float64 density matrix', lambda: dmm.apply_gate(rho.copy(), op.copy(), list(tgt)), det)
                if ok:
                    _compare(out, got, W @ rho @ W.conj().T, tol_of(max(1.0, np.linalg.norm(op))**2, 1.0, 2 * d), '%s/mismatch/dtype/float64_dm_%s_op' % (site, oname),
                             'sim.dm.apply_gate(float64 dm=%s, %s op, index=%s) != U rho U^dagger' % (rname, oname, list(tgt)), det, shape=(D, D))
    out.trace()
    out.sample = {'kind': 'dm', 'n': n, 'index': list(tgt), 'mode': case['mode'], 'n_ops': len(ops), 'n_dm': len(rhos)}


def run_expect(case, out, env):
    import numqi
    dmm = numqi.sim.dm
    A = atoms(env)
    n, tgt = case['n'], tuple(case['tgt'])
    k = len(tgt)
    d, D = 2**k, 2**n
    site = 'sim.dm/operator_expectation'
    oc = order_class(tgt)
    if case.get('thin'):
        ops = thin_ops(A, k, case['kfull'])
        rhos = thin_matrix_units(D) + [('rho', A['rho%d' % n])]
    else:
        ops = [('E%d' % i, m) for i, m in enumerate(matrix_units(d))] + [('U', A['U%d' % k]), ('M', A['M%d' % k])]
        rhos = [('E%d' % i, m.astype(np.complex128)) for i, m in enumerate(matrix_units(D))] + [('rho', A['rho%d' % n])]
    forms = [('list', list(tgt)), ('tuple', tuple(tgt)), ('tuple[np.int64]', tuple(np.int64(x) for x in tgt))] + ([('int', tgt[0]), ('np.int64', np.int64(tgt[0]))] if k == 1 else [])
    if case.get('thin'):
        forms = forms[:1]  # index forms and dtypes are converted before any arithmetic: enumerated for n <= 4 only
    for fname, idx in forms:
        for oname, op in (ops if fname == 'list' else ops[-2:] + ops[:4]):
            W = ref.embed(op, list(tgt), n)
            for rname, rho in (rhos if fname == 'list' else rhos[-1:] + rhos[:D + 1]):
                out.state()
                out.trans()
                det = dict(n=n, index=idx, index_form=fname, op=op, dm=rho)
                ok, got = _call(out, '%s/index=%s' % (site, fname), 'sim.dm.operator_expectation(dm, op, index=%r) [documented: int|tuple[int]]' % (idx,),
                                lambda: dmm.operator_expectation(rho.copy(), op.copy(), idx), det)
                if not ok:
                    continue
                exp = np.trace(rho @ W)
                # Tr(rho O): sum of 4^n products; kappa = ||rho||_F ||O||_F
                good = _compare(out, np.asarray(got).reshape(()), exp, tol_of(max(1.0, np.linalg.norm(op)), max(1.0, np.linalg.norm(rho)), D * D),
                                '%s/mismatch/%s/index=%s' % (site, oc, fname), 'operator_expectation(n=%d, index=%r, op=%s, dm=%s) != Tr(rho O_embedded)' % (n, idx, oname, rname), det)
                if good:
                    out.outcome((n, complex(np.asarray(got).reshape(()))), nontrivial=abs(exp) > 1e-9)
    # ---- dtype alphabet: float64 (real) density matrix x real / complex operator
    R = np.ascontiguousarray(A['M%d' % k].real)
    for oname, op in (() if case.get('thin') else (('real', R), ('complex', A['U%d' % k]))):
        W = ref.embed(op, list(tgt), n)
        for rname, rho in rhos[:D + 2]:
            rho = np.ascontiguousarray(rho.real)
            out.state()
            out.trans()
            det = dict(n=n, index=list(tgt), op=op, dm=rho, dm_dtype='float64', op_dtype=oname)
            ok, got = _call(out, site + '/float64_dm', 'operator_expectation on a float64 density matrix', lambda: dmm.operator_expectation(rho.copy(), op.copy(), list(tgt)), det)
            if ok:
                _compare(out, np.asarray(got).reshape(()), np.trace(rho @ W), tol_of(max(1.0, np.linalg.norm(op)), 1.0, D * D), '%s/mismatch/dtype/float64_dm_%s_op' % (site, oname),
                         'operator_expectation(float64 dm=%s, %s op, index=%s) != Tr(rho O_embedded)' % (rname, oname, list(tgt)), det)
    out.trace()
    out.sample = {'kind': 'expect', 'n': n, 'index': list(tgt)}


def run_prob(case, out, env):
    import numqi
    st = numqi.sim.state
    A = atoms(env)
    n = case['n']
    D = 2**n
    states = polarisation_states(D) + [('psi', A['psi%d' % n]), ('2.5psi', 2.5 * A['phi%d' % n])]
    subsets = []
    for r in range(n + 1):
        subsets += [tuple(c) for c in itertools.combinations(range(n), r)]
    for keep in subsets[case['lo']:case['hi']]:
        for sname, q in states:
            out.state()
            out.trans()
            det = dict(n=n, keep=list(keep), state=q)
            ok, got = _call(out, 'sim.state/reduce_to_probability', 'reduce_to_probability(keep=%s)' % (set(keep),), lambda: st.reduce_to_probability(q.copy(), set(keep)), det)
            if not ok:
                continue
            exp = born_marginal(q, n, keep)
            # sum of 2^(n-|keep|) non-negative terms |psi_i|^2 <= ||psi||^2
            good = _compare(out, got, exp, tol_of(1.0, float(np.vdot(q, q).real), D), 'sim.state/reduce_to_probability/mismatch/%s' % ('all_or_none' if len(keep) in (0, n) else 'proper_subset'),
                            'reduce_to_probability(n=%d, keep=%s, state=%s) != Born marginal' % (n, set(keep), sname), det, shape=(2**len(keep),))
            if good:
                out.outcome((n, len(keep), np.asarray(got)), nontrivial=bool(0 < len(keep) < n and np.count_nonzero(np.asarray(got) > 1e-9) > 1))
    out.trace()
    out.sample = {'kind': 'prob', 'n': n, 'keep_sets': [list(s) for s in subsets[case['lo']:case['lo'] + 3]], 'n_states': len(states)}


def run_inner(case, out, env):
    import numqi
    st = numqi.sim.state
    A = atoms(env)
    n = case['n']
    D = 2**n
    site = 'sim.state/inner_product_psi0_O_psi1'
    tA, tB = tuple(case['tA']), tuple(case['tB'])
    kA, kB = len(tA), len(tB)
    basis = basis_vectors(D)
    MA, MB = A['M%d' % kA], A['V%d' % kB] @ np.diag(np.arange(1, 2**kB + 1)) @ A['U%d' % kB]  # two non-commuting non-unitary atoms
    WA, WB = ref.embed(MA, list(tA), n), ref.embed(MB, list(tB), n)
    kap = max(1.0, np.linalg.norm(MA)) * max(1.0, np.linalg.norm(MB))
    terms = [[], [(MA,) + tA], [(MA,) + tA, (MB,) + tB], [(MB,) + tB, (MA,) + tA], [(MA,) + tA, (MB,) + tB, (MA.conj().T,) + tA]]
    Wterms = [np.eye(D), WA, WA @ WB, WB @ WA, WA @ WB @ WA.conj().T]
    kaps = [1.0, kap, kap, kap, kap * max(1.0, np.linalg.norm(MA))]
    pairs = [(basis[i], basis[j], 'e%d' % i, 'e%d' % j) for i in range(D) for j in range(D)]
    pairs += [(A['psi%d' % n], A['phi%d' % n], 'psi', 'phi'), (A['psi%d' % n] * (0.6 + 0.8j), basis[0], '(0.6+0.8i)psi', 'e0')]
    for p0, p1, n0, n1 in pairs:
        out.state()
        out.trans()
        det = dict(n=n, tA=list(tA), tB=list(tB), A=MA, B=MB, psi0=p0, psi1=p1,
                   op_list='[[], [A@tA], [A@tA, B@tB], [B@tB, A@tA], [A@tA, B@tB, A^dagger@tA]]')
        ok, got = _call(out, site, site, lambda: st.inner_product_psi0_O_psi1(p0.copy(), p1.copy(), terms), det)
        if not ok:
            continue
        exp = np.array([np.vdot(p0, W @ p1) for W in Wterms])
        got = np.asarray(got)
        if got.shape != exp.shape:
            out.violation(site + '/shape', 'result has shape %s for %d terms' % (got.shape, len(terms)), **det)
            continue
        for t in range(len(terms)):
            # up to 3 gate applications + one vdot (2^n terms)
            if not (abs(got[t] - exp[t]) <= tol_of(kaps[t], 1.0, 3 * 4 + D)):
                cls = ['empty_term', 'one_op', 'two_ops', 'two_ops', 'three_ops'][t]
                out.violation('%s/mismatch/%s' % (site, cls), 'term %d of inner_product_psi0_O_psi1(psi0=%s, psi1=%s, tA=%s, tB=%s): %r != <psi0|O|psi1> = %r (product is left to right)'
                              % (t, n0, n1, tA, tB, complex(got[t]), complex(exp[t])), term=t, observed=got, expected=exp, **det)
        out.outcome((n, got), nontrivial=bool(np.abs(got[1:]).max() > 1e-9))
    # an empty operator list (a sum without terms): an empty result vector
    out.state()
    out.trans()
    ok, got = _call(out, site + '/empty_op_list', 'inner_product_psi0_O_psi1(psi0, psi1, [])', lambda: st.inner_product_psi0_O_psi1(basis[0].copy(), basis[0].copy(), []), dict(n=n))
    if ok:
        out.check(np.asarray(got).shape == (0,), site + '/shape/empty_op_list', 'inner_product_psi0_O_psi1(.., []) returned shape %s, expected (0,)' % (np.asarray(got).shape,), n=n)
    # n<=2: all products of matrix units E_ab@tA . E_cd@tB on all <e_i| . |e_j>
    if case['units']:
        UA, UB = matrix_units(2**kA), matrix_units(2**kB)
        op_list = [[(a,) + tA, (b,) + tB] for a in UA for b in UB]
        Wl = [ref.embed(a, list(tA), n) @ ref.embed(b, list(tB), n) for a in UA for b in UB]
        for i in range(D):
            for j in range(D):
                out.state(len(op_list))
                out.trans()
                det = dict(n=n, tA=list(tA), tB=list(tB), psi0=basis[i], psi1=basis[j], op_list='[[E_a@tA, E_b@tB] for all matrix units a, b]')
                ok, got = _call(out, site, site, lambda: st.inner_product_psi0_O_psi1(basis[i].copy(), basis[j].copy(), op_list), det)
                if not ok:
                    continue
                exp = np.array([W[i, j] for W in Wl])
                _compare(out, got, exp, tol_of(1.0, 1.0, 8 + D), site + '/mismatch/matrix_unit_products',
                         'inner_product_psi0_O_psi1(e%d, e%d, [[E_a@%s, E_b@%s]]) != <e_i|E_a E_b|e_j>' % (i, j, tA, tB), det, shape=exp.shape)
    out.trace()
    out.sample = {'kind': 'inner', 'n': n, 'tA': list(tA), 'tB': list(tB)}


# ------------------------------------------------------------------------------------------------ Part 2: programs
def _rot(P, theta):
    """exp(-i theta P / 2) for an involution P (P.P = 1): cos(theta/2) 1 - i sin(theta/2) P"""
    return np.cos(theta / 2) * np.eye(len(P)) - 1j * np.sin(theta / 2) * P


def ref_rx(t):
    return _rot(ref.X, t)


def ref_ry(t):
    return _rot(ref.Y, t)


def ref_rz(t):
    return _rot(ref.Z, t)


def ref_rzz(t):
    return _rot(np.kron(ref.Z, ref.Z), t)


def ref_u3(theta, phi, lam):
    return ref_rz(phi) @ ref_ry(theta) @ ref_rz(lam) * np.exp(0.5j * (phi + lam))


SWAP = np.array([[1, 0, 0, 0], [0, 0, 1, 0], [0, 1, 0, 0], [0, 0, 0, 1]], dtype=np.complex128)
FIXED1 = {'X': ref.X, 'Y': ref.Y, 'Z': ref.Z, 'H': ref.H, 'S': ref.S, 'T': ref.T}
CTRL1 = {'cnot': ref.X, 'cx': ref.X, 'cy': ref.Y, 'cz': ref.Z}
PAR1 = {'rx': ref_rx, 'ry': ref_ry, 'rz': ref_rz}
CPAR1 = {'crx': ref_rx, 'cry': ref_ry, 'crz': ref_rz}


def param1(env, pid):
    """-> (value passed to numqi, numeric value)"""
    th = atoms(env)['theta']
    if pid == 'none':
        return None, 0.0
    if pid == 'pi3':
        return np.pi / 3, np.pi / 3
    if pid == 'gen':
        return np.array([th[0]]), float(th[0])  # the form the repository's tests use (ndarray of size 1)
    if pid == 'hold':
        return 'HOLD', float(th[1])
    raise ValueError(pid)


def param3(env, pid):
    th = atoms(env)['theta']
    p3 = np.pi / 3
    tab = {'none': (None, (0.0, 0.0, 0.0)), 't': ((p3, 0.0, 0.0),) * 2, 'p': ((0.0, p3, 0.0),) * 2, 'l': ((0, 0, p3), (0.0, 0.0, p3)),
           'gen': (tuple(float(x) for x in th[2:5]),) * 2, 'hold': ('HOLD', tuple(float(x) for x in th[3:6]))}
    return tab[pid]


def event_list(nq, level):
    """the event alphabet on nq qubits. level: 'full' | 'medium' | 'reduced' | 'wide' (4-qubit vocabulary, depth 1).
    'medium' = 'full' without the parameter values that make a parametrised gate the identity / a repetition of another value
    (those are covered at depth 1); 'reduced' = one representative method per category, generic parameter only."""
    Q = range(nq)
    pairs = list(itertools.permutations(Q, 2))
    ev = []
    full = level in ('full', 'medium')
    allpar = level == 'full'
    if level == 'wide':
        for p in itertools.permutations(Q, 4):
            ev.append(('quadruple',) + p)
        for p in itertools.permutations(Q, 3):
            ev.append(('triple',) + p)
        for t in pairs:
            rest = [q for q in Q if q not in t]
            for r in range(1, len(rest) + 1):
                for c in itertools.combinations(rest, r):
                    ev.append(('cdouble', tuple(c), tuple(t)))
        for t in Q:
            rest = [q for q in Q if q != t]
            for r in range(2, len(rest) + 1):
                for c in itertools.permutations(rest, r):
                    ev.append(('csingle', tuple(c), t))
                for c in itertools.combinations(rest, r):
                    ev.append(('CP', 'cry', tuple(c), t, 'gen'))
                    ev.append(('cu3', tuple(c), t, 'gen'))
        for c in pairs:
            for t in Q:
                if t not in c:
                    ev.append(('toffoli', tuple(c), t))
        return ev
    for g in (FIXED1 if full else ['H', 'T']):
        ev += [('U1', g, q) for q in Q]
    ev += [('Swap', a, b) for a, b in pairs]
    for g in (CTRL1 if full else ['cy']):
        ev += [('C1', g, a, b) for a, b in pairs]
    if nq >= 3:
        for t in Q:
            rest = [q for q in Q if q != t]
            for c in (itertools.permutations(rest, 2) if full else itertools.combinations(rest, 2)):
                ev.append(('toffoli', tuple(c), t))
    for g in (PAR1 if full else ['ry']):
        for q in Q:
            ev += [('P1', g, q, pid) for pid in (('none', 'pi3', 'gen', 'hold') if allpar else ('pi3', 'gen', 'hold') if full else ('gen',))]
    for q in Q:
        ev += [('u3', q, pid) for pid in (('none', 't', 'p', 'l', 'gen', 'hold') if allpar else ('l', 'gen', 'hold') if full else ('gen',))]
    for a, b in pairs:
        ev += [('rzz', a, b, pid) for pid in (('none', 'pi3', 'gen', 'hold') if allpar else ('gen', 'hold') if full else ('gen',))]
    cwires = [((a,), b) for a, b in pairs]
    if nq >= 3:
        for t in Q:
            rest = [q for q in Q if q != t]
            cwires += [(tuple(c), t) for c in itertools.combinations(rest, 2)]
    for g in (CPAR1 if full else ['crx']):
        for c, t in cwires:
            ev += [('CP', g, c, t, pid) for pid in (('none', 'pi3', 'gen') if allpar else ('gen',))]
    for c, t in cwires:
        ev += [('cu3', c, t, pid) for pid in (('none', 'gen') if allpar else ('gen',))]
    ev += [('single', q) for q in Q]
    ev += [('double', a, b) for a, b in pairs]
    if nq >= 3:
        ev += [('triple',) + p for p in itertools.permutations(Q, 3)]
    for c, t in cwires:
        ev.append(('csingle', c, t))
        if len(c) == 2 and full:
            ev.append(('csingle', c[::-1], t))
    if nq >= 3:
        for t in pairs:
            for c in Q:
                if c not in t:
                    ev.append(('cdouble', (c,), tuple(t)))
    ev += [('custom_u', q) for q in Q]
    if full:
        ev += [('custom_c', a, b) for a, b in pairs]
    ev += [('append_prev', r) for r in ((0, 1, 2) if full else (1,))]
    ev += [('extend', s) for s in ((['A', 'B', 'C'] if nq >= 3 else ['A', 'B']) if full else ['B'])]
    ev += [('shift', 1), ('shift', -1)]
    if full:
        ev.append(('shift', 0))  # documented no-op
    return ev


SUBCIRC = {
    'A': [('U1', 'H', 0), ('C1', 'cnot', 0, 1)],
    'B': [('CP', 'cry', (1,), 0, 'gen'), ('rzz', 1, 0, 'pi3')],
    'C': [('toffoli', (0, 2), 1), ('U1', 'T', 2)],
}

_CUSTOM = {}


def custom_classes(numqi, env):
    if 'c' not in _CUSTOM:
        A = atoms(env)

        def hf_ry_rx(alpha, beta):
            return ref_ry(float(beta)) @ ref_rx(float(alpha))

        class RyRxGate(numqi.sim.ParameterGate):
            def __init__(self, index, alpha=0, beta=0, requires_grad=False):
                super().__init__(kind='unitary', hf0=hf_ry_rx, args=(alpha, beta), name='ry_rx', requires_grad=requires_grad)
                self.index = index,  # as in the repository's own example: must be a tuple of int

        class MyControlGate(numqi.sim.Gate):
            def __init__(self, control, target):
                super().__init__('control', A['V1'].copy(), name='my_control')
                self.index = ({int(control)}, (int(target),))
        _CUSTOM['c'] = (RyRxGate, MyControlGate)
    return _CUSTOM['c']


class Builder:
    """interprets a history simultaneously on the real Circuit and on the reference op list [(matrix, controls, targets)]"""

    def __init__(self, numqi, env):
        self.numqi = numqi
        self.env = env
        self.A = atoms(env)
        self.circ = numqi.sim.Circuit()
        Ry, Mc = custom_classes(numqi, env)
        self.circ.register_custom_gate('ry_rx', Ry)
        self.circ.register_custom_gate('my_control', Mc)
        self.ops = []          # reference program
        self.last_gate = None  # gate object returned by the last gate-adding call
        self.holders = {}
        self.tags = []         # aligned with self.ops: None | (placeholder key, value -> matrix) for gates bound to circ.P
        self.last_tag = None
        self.inner = []        # (sub-circuit, its reference program) of every extend_circuit event
        self.status = 'ok'

    def _ctl_arg(self, c):
        return c[0] if len(c) == 1 else tuple(c)

    def add(self, ev, circ=None, ops=None, top=True):
        circ = self.circ if circ is None else circ
        ops = self.ops if ops is None else ops
        A, env = self.A, self.env
        kind = ev[0]
        g = None
        self._tag = None
        if kind == 'U1':
            g = getattr(circ, ev[1])(ev[2])
            ops.append((FIXED1[ev[1]], (), (ev[2],)))
        elif kind == 'Swap':
            g = circ.Swap(ev[1], ev[2])
            ops.append((SWAP, (), (ev[1], ev[2])))
        elif kind == 'C1':
            g = getattr(circ, ev[1])(ev[2], ev[3])
            ops.append((CTRL1[ev[1]], (ev[2],), (ev[3],)))
        elif kind == 'toffoli':
            g = circ.toffoli(tuple(ev[1]), ev[2])
            ops.append((ref.X, tuple(ev[1]), (ev[2],)))
        elif kind == 'P1':
            arg, val = param1(env, ev[3])
            arg = self._holder(arg, val, circ, PAR1[ev[1]])
            g = getattr(circ, ev[1])(ev[2], arg)
            ops.append((PAR1[ev[1]](val), (), (ev[2],)))
        elif kind == 'u3':
            arg, val = param3(env, ev[2])
            arg = self._holder(arg, np.array(val), circ, lambda v: ref_u3(*v))
            g = circ.u3(ev[1], arg)
            ops.append((ref_u3(*val), (), (ev[1],)))
        elif kind == 'rzz':
            arg, val = param1(env, ev[3])
            arg = self._holder(arg, val, circ, ref_rzz)
            g = circ.rzz((ev[1], ev[2]), arg)
            ops.append((ref_rzz(val), (), (ev[1], ev[2])))
        elif kind == 'CP':
            arg, val = param1(env, ev[4])
            g = getattr(circ, ev[1])(self._ctl_arg(ev[2]), ev[3], arg)
            ops.append((CPAR1[ev[1]](val), tuple(ev[2]), (ev[3],)))
        elif kind == 'cu3':
            arg, val = param3(env, ev[3])
            g = circ.cu3(self._ctl_arg(ev[1]), ev[2], arg)
            ops.append((ref_u3(*val), tuple(ev[1]), (ev[2],)))
        elif kind == 'single':
            g = circ.single_qubit_gate(A['U1'].copy(), ev[1])
            ops.append((A['U1'], (), (ev[1],)))
        elif kind == 'double':
            g = circ.double_qubit_gate(A['U2'].copy(), ev[1], ev[2])
            ops.append((A['U2'], (), (ev[1], ev[2])))
        elif kind == 'triple':
            g = circ.triple_qubit_gate(A['U3'].copy(), ev[1], ev[2], ev[3])
            ops.append((A['U3'], (), tuple(ev[1:4])))
        elif kind == 'quadruple':
            g = circ.quadruple_qubit_gate(A['U4'].copy(), ev[1], ev[2], ev[3], ev[4])
            ops.append((A['U4'], (), tuple(ev[1:5])))
        elif kind == 'csingle':
            g = circ.controlled_single_qubit_gate(A['V1'].copy(), set(ev[1]) if len(ev[1]) == 1 else tuple(ev[1]), ev[2])
            ops.append((A['V1'], tuple(ev[1]), (ev[2],)))
        elif kind == 'cdouble':
            g = circ.controlled_double_qubit_gate(A['V2'].copy(), set(ev[1]), tuple(ev[2]))
            ops.append((A['V2'], tuple(ev[1]), tuple(ev[2])))
        elif kind == 'custom_u':
            th = A['theta']
            g = circ.ry_rx(ev[1], float(th[4]), float(th[5]))
            ops.append((ref_ry(th[5]) @ ref_rx(th[4]), (), (ev[1],)))
        elif kind == 'custom_c':
            g = circ.my_control(ev[1], ev[2])
            ops.append((A['V1'], (ev[1],), (ev[2],)))
        elif kind == 'append_prev':
            if self.last_gate is None or not ops:
                self.status = 'no_previous_gate'
                return
            n = program_nq(ops)
            r = ev[1]
            perm = {0: (lambda q: q), 1: (lambda q: (q + 1) % n), 2: (lambda q: n - 1 - q)}[r]
            m, c, t = self.last_ref
            c2, t2 = tuple(perm(q) for q in c), tuple(perm(q) for q in t)
            if c2:
                circ.append_gate(self.last_gate, (set(c2), t2))
            else:
                circ.append_gate(self.last_gate, t2 if len(t2) > 1 else t2[0])
            ops.append((m, c2, t2))
            self._pad_tags(self.last_tag)  # the same Gate object: follows the same placeholder
            return
        elif kind == 'extend':
            other = self.numqi.sim.Circuit()
            oops = []
            for e in SUBCIRC[ev[1]]:
                self.add(e, circ=other, ops=oops, top=False)
            circ.extend_circuit(other)
            ops.extend(oops)
            self.inner.append((other, oops))
            self._pad_tags(None)
            return
        elif kind == 'shift':
            if ops and min(min(c + t) for _, c, t in ops) + ev[1] < 0:
                self.status = 'negative_index'
                return
            circ.shift_qubit_index_(ev[1])
            ops[:] = [(m, tuple(q + ev[1] for q in c), tuple(q + ev[1] for q in t)) for m, c, t in ops]
            if self.last_gate is not None:
                m, c, t = self.last_ref
                self.last_ref = (m, tuple(q + ev[1] for q in c), tuple(q + ev[1] for q in t))
            return
        else:
            raise ValueError(ev)
        if top:
            self.last_gate = g
            self.last_ref = ops[-1]
            self.last_tag = self._tag
            self._pad_tags(self._tag)

    def _pad_tags(self, tag):
        self.tags += [None] * (len(self.ops) - len(self.tags))
        if tag is not None:
            self.tags[-1] = tag

    def _holder(self, arg, val, circ, fn=None):
        if isinstance(arg, str) and arg == 'HOLD':
            key = 'h%d' % len(self.holders)
            self.holders[key] = val
            self._tag = (key, fn)
            return self.circ.P[key]
        return arg

    def finish(self):
        if self.holders:
            self.circ.setP(**self.holders)

    def rebind(self):
        """second setP call with other values (v -> v + 1 + index): -> the reference program for the new values"""
        new = {k: v + 1.0 + i for i, (k, v) in enumerate(sorted(self.holders.items()))}
        self.circ.setP(**new)
        self.holders = new
        return [((tag[1](new[tag[0]]), c, t) if tag is not None else (m, c, t)) for (m, c, t), tag in zip(self.ops, self.tags)]


def program_nq(ops):
    return 1 + max(max(c + t) for _, c, t in ops)


_EMB = {}


def ref_unitary(ops):
    n = program_nq(ops)
    U = np.eye(2**n, dtype=np.complex128)
    for m, c, t in ops:
        key = (m.tobytes(), c, t, n)
        W = _EMB.get(key)
        if W is None:
            if len(_EMB) > 50000:
                _EMB.clear()
            W = _EMB[key] = ref_operator(m, c, t, n)
        U = W @ U
    return n, U


def ev_method(ev):
    return ev[1] if ev[0] in ('U1', 'C1', 'P1', 'CP') else {'single': 'single_qubit_gate', 'double': 'double_qubit_gate', 'triple': 'triple_qubit_gate',
                                                             'quadruple': 'quadruple_qubit_gate', 'csingle': 'controlled_single_qubit_gate',
                                                             'cdouble': 'controlled_double_qubit_gate', 'custom_u': 'register_custom_gate[unitary]',
                                                             'custom_c': 'register_custom_gate[control]', 'append_prev': 'append_gate',
                                                             'extend': 'extend_circuit', 'shift': 'shift_qubit_index_'}.get(ev[0], ev[0])


def ev_category(ev):
    k = ev[0]
    if k in ('U1', 'Swap', 'single', 'double', 'triple', 'quadruple'):
        return 'unitary'
    if k in ('C1', 'toffoli', 'csingle', 'cdouble'):
        return 'control'
    if k in ('P1', 'u3', 'rzz'):
        return 'param'
    if k in ('CP', 'cu3'):
        return 'cparam'
    if k in ('custom_u', 'custom_c'):
        return 'custom'
    return k


def hist_class(hist):
    if len(hist) == 1:
        return 'depth1/' + ev_method(hist[0])
    return 'depth>=2/' + '+'.join(sorted({ev_category(e) for e in hist}))


_SUBSETS = {}


def run_history(numqi, out, env, hist):
    b = Builder(numqi, env)
    hl = [list(e) for e in hist]
    try:
        for ev in hist:
            b.add(ev)
            if b.status != 'ok':
                out.count('history_outside_domain[%s]' % b.status)
                return
        if not b.ops:
            out.count('history_outside_domain[no_gate]')
            return
        b.finish()
    except Exception as e:  # noqa
        out.violation('sim.Circuit/build/%s/%s' % (type(e).__name__, hist_class(hist)), 'building the circuit for history %s raised %s: %s' % (hl, type(e).__name__, str(e)[:160]), history=hl)
        return
    out.state()
    cls = hist_class(hist)
    det = dict(history=hl)
    validate(numqi, out, env, b.circ, b.ops, cls, 'history %s' % hl, det, wide=len(hist) == 1)
    if b.holders:
        # ---- setP is not one-shot: a second call with other values re-binds every placeholder gate
        try:
            ops2 = b.rebind()
        except Exception as e:  # noqa
            out.violation('sim.Circuit/setP/second_call/%s/%s' % (type(e).__name__, cls), 'second setP call for history %s raised %s: %s' % (hl, type(e).__name__, str(e)[:160]), history=hl)
            ops2 = None
        if ops2 is not None:
            out.state()
            validate(numqi, out, env, b.circ, ops2, cls, 'history %s after a second setP(%s)' % (hl, b.holders), dict(second_setP=dict(b.holders), **det),
                     marginals=False, site='sim.Circuit/setP/second_call')
    for other, oops in b.inner:
        # ---- extend_circuit shares the Gate objects but not the index bookkeeping: the sub-circuit itself is unchanged by whatever
        #      happened to the outer circuit afterwards (shift_qubit_index_, further gates)
        check_circuit_is(numqi, out, env, other, oops, 'sim.Circuit/extend_circuit/inner_changed/' + cls, 'sub-circuit passed to extend_circuit in history %s' % hl, det)
    out.trace()


def index_signature(circ):
    """gate_index_list indices in the canonical form (sorted controls, targets)"""
    ret = []
    for gate, index in circ.gate_index_list:
        if gate.kind == 'control':
            ret.append((tuple(sorted(int(x) for x in index[0])), tuple(int(x) for x in index[1])))
        else:
            ret.append(((), tuple(int(x) for x in index)))
    return ret


def check_circuit_is(numqi, out, env, circ, ops, key, what, det):
    """bookkeeping (gate_index_list) and unitary of `circ` are those of the reference program `ops`"""
    out.trans()
    sig = index_signature(circ)
    exp = [(tuple(sorted(c)), tuple(t)) for _, c, t in ops]
    if sig != exp:
        out.violation(key + '/gate_index_list', '%s: gate_index_list indices %s instead of %s' % (what, sig, exp), observed=repr(sig), expected=repr(exp), **det)
        return False
    n, Uref = ref_unitary(ops)
    ok, U = _call(out, key, '%s: to_unitary()' % what, lambda: circ.to_unitary(), det)
    return ok and _compare(out, U, Uref, tol_of(1.0, 1.0, 16 * len(ops)), key + '/unitary', '%s: to_unitary() != its own reference program' % what, det, shape=(2**n, 2**n))


def validate(numqi, out, env, circ, ops, cls, what, det, marginals=True, wide=False, site='sim.Circuit'):
    """to_unitary == ordered product of the reference embeddings, unitarity, apply_state(generic psi), all marginals;
    wide: apply_state on a state with one more qubit than circ.num_qubit acts as U (x) 1"""
    st = numqi.sim.state
    n, Uref = ref_unitary(ops)
    D = 2**n
    det = dict(num_qubit=n, **det)
    # gates are unitary: every application has kappa = 1; len(ops) applications of <= 2^4 terms
    tl = tol_of(1.0, 1.0, 16 * len(ops))
    out.trans()
    ok, U = _call(out, '%s/to_unitary/%s' % (site, cls), 'Circuit.to_unitary() for %s' % what, lambda: circ.to_unitary(), det)
    if ok:
        if _compare(out, U, Uref, tl, '%s/to_unitary/mismatch/%s' % (site, cls), 'to_unitary() for %s != ordered product of the embedded gates (%d qubits)' % (what, n), det, shape=(D, D)):
            Ua = np.asarray(U)
            if np.abs(Ua.conj().T @ Ua - np.eye(D)).max() > tl * D:
                out.violation('%s/to_unitary/not_unitary/%s' % (site, cls), 'to_unitary() is not unitary for %s' % what, observed=Ua, **det)
        out.outcome((n, np.asarray(U)), nontrivial=bool(np.abs(Uref - np.eye(D)).max() > 1e-9))
    psi = atoms(env)['psi%d' % n]
    out.trans()
    ok, got = _call(out, '%s/apply_state/%s' % (site, cls), 'Circuit.apply_state(psi) for %s' % what, lambda: circ.apply_state(psi.copy()), dict(state=psi, **det))
    if ok:
        exp = Uref @ psi
        good = _compare(out, got, exp, tl, '%s/apply_state/mismatch/%s' % (site, cls), 'apply_state(generic psi) for %s != U_ref psi' % what, dict(state=psi, **det), shape=(D,))
        if good and marginals:
            if n not in _SUBSETS:
                _SUBSETS[n] = [tuple(c) for r in range(n + 1) for c in itertools.combinations(range(n), r)]
            for keep in _SUBSETS[n]:
                out.trans()
                ok2, p = _call(out, 'sim.state/reduce_to_probability', 'reduce_to_probability after %s' % what, lambda: st.reduce_to_probability(got, set(keep)), dict(keep=list(keep), **det))
                if ok2:
                    _compare(out, p, born_marginal(exp, n, keep), tl + tol_of(1.0, 1.0, D), 'sim.Circuit/marginal/mismatch', 'marginal on %s of the output of %s != Born marginal of U_ref psi' % (set(keep), what),
                             dict(keep=list(keep), state=psi, **det), shape=(2**len(keep),))
    if wide:
        # a register wider than circ.num_qubit: the gates act on the leading qubits ("count from left to right"), identity on the rest
        psi = atoms(env)['psi%d' % (n + 1)]
        out.trans()
        ok, got = _call(out, '%s/apply_state/wide_state/%s' % (site, cls), 'Circuit.apply_state(psi on num_qubit+1 qubits) for %s' % what, lambda: circ.apply_state(psi.copy()), dict(state=psi, **det))
        if ok:
            _compare(out, got, np.kron(Uref, np.eye(2)) @ psi, tl, '%s/apply_state/mismatch/wide_state' % site, 'apply_state(psi on %d qubits) for %s != (U_ref (x) 1) psi' % (n + 1, what),
                     dict(state=psi, **det), shape=(2 * D,))


def run_prog(case, out, env):
    import numqi
    evs = event_list(case['nq'], case['level'])
    depth = case['depth']
    if case['first'] is None:
        hists = [(e,) for e in evs]
    else:
        hists = ((evs[case['first']],) + tail for tail in itertools.product(evs, repeat=depth - 1))
    for h in hists:
        run_history(numqi, out, env, h)
    out.sample = {'kind': 'prog', 'nq': case['nq'], 'depth': depth, 'level': case['level'], 'alphabet': len(evs),
                  'example_history': [list(e) for e in ([evs[case['first'] or 0]] + [evs[-3]] * (depth - 1))]}


def run_prog3s(case, out, env):
    import numqi
    evs = event_list(case['nq'], case['level'])
    second = [('append_prev', 0), ('append_prev', 1), ('append_prev', 2), ('extend', 'A'), ('extend', 'B')]
    third = [('shift', 1), ('shift', 2), ('shift', -1), ('shift', 0)]
    for e1 in evs[case['lo']:case['hi']]:
        for e2 in second:
            for e3 in third:
                run_history(numqi, out, env, (e1, e2, e3))
    out.sample = {'kind': 'prog3s', 'example_history': [list(evs[case['lo']]), list(second[0]), list(third[0])]}


# ------------------------------------------------------------------------------------------------ placeholders (circ.P / setP)
HOLD_SCHEMES = ['key,key', 'shared_key', 'pos0,pos1', 'pos1,pos0', 'pos,key[0]', 'key[0],key[1]/list', 'key[0],key[1]/tuple', 'key[0],key[1]/ndarray',
                'shared_elem', 'key[i,j]', 'pos[i,j]']
HOLD_NDARRAY = ('key[0],key[1]/ndarray', 'key[i,j]', 'pos[i,j]')   # the container is one ndarray: leaves are its elements / rows
HOLD_SAME_ARITY = ('shared_key', 'shared_elem') + HOLD_NDARRAY
LEAF = {1: ['float', 'float64', 'arr1', 'list1'], 3: ['tuple3', 'list3', 'arr3']}
HOLD_GATES = {'rx': (1, (0,), lambda v: ref_rx(v[0])), 'ry': (1, (0,), lambda v: ref_ry(v[0])), 'rz': (1, (0,), lambda v: ref_rz(v[0])),
              'rzz': (1, (1, 0), lambda v: ref_rzz(v[0])), 'u3': (3, (0,), lambda v: ref_u3(*v))}


def make_leaf(form, v):
    v = [float(x) for x in v]
    return {'float': lambda: v[0], 'float64': lambda: np.float64(v[0]), 'arr1': lambda: np.array(v), 'list1': lambda: list(v),
            'tuple3': lambda: tuple(v), 'list3': lambda: list(v), 'arr3': lambda: np.array(v), 'ndarray': lambda: (v[0] if len(v) == 1 else v)}[form]()


def hold_binding(P, scheme, L1, L2):
    """-> (placeholder of gate 1, placeholder of gate 2, positional args of setP, keyword args of setP)"""
    junk = 0.123 if np.ndim(L1) == 0 else [0.123, 0.456, 0.789]
    if scheme == 'key,key':
        return P['a'], P['b'], (), dict(a=L1, b=L2)
    if scheme == 'shared_key':
        return P['a'], P['a'], (), dict(a=L1)
    if scheme == 'pos0,pos1':
        return P[0], P[1], ([L1, L2],), {}
    if scheme == 'pos1,pos0':
        return P[1], P[0], ([L2, L1],), {}
    if scheme == 'pos,key[0]':  # the form of the repository's own test
        return P[0], P['a'][0], ([L1],), dict(a=[L2])
    if scheme == 'key[0],key[1]/list':
        return P['a'][0], P['a'][1], (), dict(a=[L1, L2])
    if scheme == 'key[0],key[1]/tuple':
        return P['a'][0], P['a'][1], (), dict(a=(L1, L2))
    if scheme == 'key[0],key[1]/ndarray':
        return P['a'][0], P['a'][1], (), dict(a=np.array([L1, L2]))
    if scheme == 'shared_elem':
        return P['a'][1], P['a'][1], (), dict(a=[junk, L1])
    arr = np.array([[junk, L1], [L2, junk]])
    if scheme == 'key[i,j]':
        return P['a'][0, 1], P['a'][1, 0], (), dict(a=arr)
    if scheme == 'pos[i,j]':
        return P[0, 1], P[1, 0], (arr,), {}
    raise ValueError(scheme)


def run_holder(case, out, env):
    """gate1(placeholder) ; cnot(0,1) ; gate2(placeholder) on 2 qubits for every addressing scheme x leaf container; three setP rounds"""
    import numqi
    th = atoms(env)['theta']
    g1, g2 = case['g1'], case['g2']
    (a1, w1, f1), (a2, _, f2) = HOLD_GATES[g1], HOLD_GATES[g2]
    w2 = (1,)
    for scheme in HOLD_SCHEMES:
        if scheme in HOLD_SAME_ARITY and a1 != a2:
            out.count('holder_scheme_needs_equal_arity')
            continue
        for l1, l2 in ([('ndarray', 'ndarray')] if scheme in HOLD_NDARRAY else itertools.product(LEAF[a1], LEAF[a2])):
            shared = scheme in ('shared_key', 'shared_elem')
            if shared and l1 != l2:
                continue
            cls = 'holder/' + scheme
            hl = dict(gate1=g1, gate2=g2, scheme=scheme, leaf1=l1, leaf2=l2)
            out.state()
            circ = numqi.sim.Circuit()
            v1 = th[0:a1]
            v2 = v1 if shared else th[2:2 + a2]
            try:
                h1, h2, pa, kw = hold_binding(circ.P, scheme, make_leaf(l1, v1), make_leaf(l2, v2))
                getattr(circ, g1)(w1 if len(w1) > 1 else w1[0], h1)
                circ.cnot(0, 1)
                getattr(circ, g2)(w2[0], h2)
            except Exception as e:  # noqa
                out.violation('sim.Circuit/build/%s/%s' % (type(e).__name__, cls), 'building %s raised %s: %s' % (hl, type(e).__name__, str(e)[:160]), **hl)
                continue
            # an unbound placeholder gate has no matrix: apply_state refuses (ValueError with the hint to call setP)
            try:
                circ.apply_state(np.array([1, 0, 0, 0], dtype=np.complex128))
                out.violation('sim.Circuit/apply_state/unbound_placeholder_accepted', 'apply_state before setP did not raise for %s' % hl, **hl)
            except ValueError:
                out.count('unbound_placeholder_rejected')

            def ops_of(x1, x2):
                return [(f1(x1), (), w1), (ref.X, (0,), (1,)), (f2(x2), (), w2)]
            rounds = [('first_call', v1, v2, pa, kw)]
            u1 = v1 + 1.0
            u2 = u1 if shared else v2 + 2.0
            _, _, pa2, kw2 = hold_binding(circ.P, scheme, make_leaf(l1, u1), make_leaf(l2, u2))
            rounds.append(('second_call', u1, u2, pa2, kw2))
            if scheme in ('key,key', 'pos,key[0]'):
                # the store behind circ.P keeps what is not passed again: updating one key leaves the other gate where it was
                t2 = v2 - 0.25
                kw3 = dict(b=make_leaf(l2, t2)) if scheme == 'key,key' else dict(a=[make_leaf(l2, t2)])
                rounds.append(('partial_update', u1, t2, (), kw3))
            for rname, x1, x2, pa_, kw_ in rounds:
                det = dict(setP_args=repr(pa_), setP_kwargs=repr(kw_), round=rname, **hl)
                ok, _ = _call(out, 'sim.Circuit/setP/%s/%s' % (rname, cls), 'setP(*%r, **%r) [%s] for %s' % (pa_, kw_, rname, hl), lambda: circ.setP(*pa_, **kw_), det)
                if not ok:
                    break
                out.state()
                validate(numqi, out, env, circ, ops_of(x1, x2), cls, '%s after setP(*%r, **%r) [%s]' % (hl, pa_, kw_, rname), det, marginals=False, site='sim.Circuit/setP/' + rname)
            out.trace()
    out.sample = {'kind': 'holder', 'gate1': g1, 'gate2': g2, 'schemes': HOLD_SCHEMES, 'leaf_containers': LEAF}


# ------------------------------------------------------------------------------------------------ Gate objects: sharing, set_args, copy
# method -> (arity, [three wirings (controls, targets)], values -> matrix)
OBJ_W1 = [((), (0,)), ((), (2,)), ((), (1,))]
OBJ_W2 = [((), (0, 1)), ((), (2, 0)), ((), (1, 2))]
OBJ_WC = [((0,), (1,)), ((2,), (0,)), ((0, 1), (2,))]
OBJ_GATES = {'rx': (1, OBJ_W1, lambda v: ref_rx(v[0])), 'ry': (1, OBJ_W1, lambda v: ref_ry(v[0])), 'rz': (1, OBJ_W1, lambda v: ref_rz(v[0])),
             'u3': (3, OBJ_W1, lambda v: ref_u3(*v)), 'rzz': (1, OBJ_W2, lambda v: ref_rzz(v[0])),
             'crx': (1, OBJ_WC, lambda v: ref_rx(v[0])), 'cry': (1, OBJ_WC, lambda v: ref_ry(v[0])), 'crz': (1, OBJ_WC, lambda v: ref_rz(v[0])),
             'cu3': (3, OBJ_WC, lambda v: ref_u3(*v)), 'ry_rx': (2, OBJ_W1, lambda v: ref_ry(v[1]) @ ref_rx(v[0]))}
SETARG_FORMS = ['list', 'tuple', 'ndarray', 'list+array']


def _index_arg(c, t):
    return (set(c), tuple(t)) if c else (t if len(t) > 1 else t[0])


def run_gateobj(case, out, env):
    """one Gate object at several positions (append_gate) + ParameterGate.set_args (documented container forms) + copy():
    every position holding the object follows set_args, a copy is independent in both directions"""
    import numqi
    A = atoms(env)
    th = A['theta']
    name = case['gate']
    if name in OBJ_GATES:
        ar, W, f = OBJ_GATES[name]
        vs = [th[i:i + ar] + 0.1 * i for i in range(4)]  # four distinct parameter points

        def form_args(form, v):
            v = [float(x) for x in v]
            return {'list': list(v), 'tuple': tuple(v), 'ndarray': np.array(v), 'list+array': list(v)}[form]

        def set_args(g, form, v):
            if form == 'list+array':  # the two-argument form used by numqi's own torch wrapper: the matrix is supplied
                g.set_args(form_args(form, v), f(v))
            else:
                g.set_args(form_args(form, v))
        for form in SETARG_FORMS:
            for order in ('append,set', 'set,append'):
                cls = 'gateobj/%s' % form
                hl = dict(gate=name, set_args_form=form, order=order)
                out.state()
                circ = numqi.sim.Circuit()
                Ry, Mc = custom_classes(numqi, env)
                circ.register_custom_gate('ry_rx', Ry)
                steps = []  # (site, reference program)
                try:
                    (c0, t0), (c1, t1), (c2, t2) = W
                    v0 = vs[0]
                    a0 = v0[0] if ar == 1 else tuple(v0)
                    if name == 'ry_rx':
                        g = circ.ry_rx(t0[0], *v0)
                    elif c0:
                        g = getattr(circ, name)(c0[0], t0[0], a0)
                    else:
                        g = getattr(circ, name)(_index_arg(c0, t0), a0)
                    circ.H(2)
                    if order == 'append,set':
                        circ.append_gate(g, _index_arg(c1, t1))
                        steps.append(('sim.Circuit/append_gate/shared', [(f(v0), c0, t0), (ref.H, (), (2,)), (f(v0), c1, t1)]))
                        _flush(numqi, out, env, circ, steps, cls, hl)
                        set_args(g, form, vs[1])
                    else:
                        set_args(g, form, vs[1])
                        steps.append(('sim.ParameterGate/set_args', [(f(vs[1]), c0, t0), (ref.H, (), (2,))]))
                        _flush(numqi, out, env, circ, steps, cls, hl)
                        circ.append_gate(g, _index_arg(c1, t1))
                    base = [(f(vs[1]), c0, t0), (ref.H, (), (2,)), (f(vs[1]), c1, t1)]
                    steps.append(('sim.ParameterGate/set_args/shared', base))
                    _flush(numqi, out, env, circ, steps, cls, hl)
                    got_args = np.asarray(g.args, dtype=np.float64).reshape(-1)
                    out.check(got_args.shape == (ar,) and np.abs(got_args - vs[1]).max() < 1e-12, 'sim.ParameterGate/set_args/args_not_stored',
                              'gate.args after set_args(%s) is %r, expected the values %r' % (form, g.args, list(vs[1])), **hl)
                    g2 = g.copy()
                    circ.append_gate(g2, _index_arg(c2, t2))
                    steps.append(('sim.ParameterGate/copy/not_equal', base + [(f(vs[1]), c2, t2)]))
                    _flush(numqi, out, env, circ, steps, cls, hl)
                    set_args(g2, form, vs[2])
                    steps.append(('sim.ParameterGate/copy/original_follows_copy', base + [(f(vs[2]), c2, t2)]))
                    _flush(numqi, out, env, circ, steps, cls, hl)
                    set_args(g, form, vs[3])
                    steps.append(('sim.ParameterGate/copy/copy_follows_original', [(f(vs[3]), c0, t0), (ref.H, (), (2,)), (f(vs[3]), c1, t1), (f(vs[2]), c2, t2)]))
                    _flush(numqi, out, env, circ, steps, cls, hl)
                except Exception as e:  # noqa
                    out.violation('sim.Circuit/build/%s/%s' % (type(e).__name__, cls), 'Gate-object history %s raised %s: %s (at %s)' % (hl, type(e).__name__, str(e)[:160], core.exc_site(e)), **hl)
                out.trace()
    elif name == 'Gate.copy':
        # plain Gate: copy() owns its matrix (in-place edits of the copy's array do not reach the original, and vice versa); kind is kept
        for kind in ('unitary', 'control'):
            hl = dict(gate='Gate(%s)' % kind)
            out.state()
            circ = numqi.sim.Circuit()
            U, V = A['U1'], A['V1']
            if kind == 'unitary':
                g = circ.single_qubit_gate(U.copy(), 0)
                w0, w1 = ((), (0,)), ((), (1,))
            else:
                g = circ.controlled_single_qubit_gate(U.copy(), {1}, 0)
                w0, w1 = ((1,), (0,)), ((0,), (1,))
            g2 = g.copy()
            out.check(g2.kind == g.kind and g2 is not g, 'sim.Gate/copy/kind', 'Gate.copy() changed the kind / returned the same object', **hl)
            circ.append_gate(g2, _index_arg(*w1))
            steps = [('sim.Gate/copy/not_equal', [(U,) + w0, (U,) + w1])]
            _flush(numqi, out, env, circ, steps, 'gateobj/Gate', hl)
            g2.array[...] = V
            steps.append(('sim.Gate/copy/original_follows_copy', [(U,) + w0, (V,) + w1]))
            _flush(numqi, out, env, circ, steps, 'gateobj/Gate', hl)
            g.array[...] = U @ V
            steps.append(('sim.Gate/copy/copy_follows_original', [(U @ V,) + w0, (V,) + w1]))
            _flush(numqi, out, env, circ, steps, 'gateobj/Gate', hl)
            out.trace()
    elif name == 'copy_of_placeholder':
        # copy() of a gate bound to circ.P is bound to the same placeholder: both follow setP (before and after the first setP)
        for when in ('before_setP', 'after_setP'):
            for meth, f in (('rx', ref_rx), ('rzz', ref_rzz)):
                hl = dict(gate=meth, copy=when)
                out.state()
                circ = numqi.sim.Circuit()
                w0, w1 = (((), (0,)), ((), (1,))) if meth == 'rx' else (((), (0, 1)), ((), (2, 1)))
                try:
                    g = getattr(circ, meth)(_index_arg(*w0), circ.P['a'])
                    if when == 'after_setP':
                        circ.setP(a=float(th[0]))
                    circ.append_gate(g.copy(), _index_arg(*w1))
                    steps = []
                    for v in (float(th[1]), float(th[2])):
                        circ.setP(a=v)
                        steps.append(('sim.ParameterGate/copy/placeholder_lost', [(f(v),) + w0, (f(v),) + w1]))
                        _flush(numqi, out, env, circ, steps, 'gateobj/placeholder', hl)
                except Exception as e:  # noqa
                    out.violation('sim.Circuit/build/%s/gateobj/placeholder' % type(e).__name__, 'history %s raised %s: %s' % (hl, type(e).__name__, str(e)[:160]), **hl)
                out.trace()
    elif name == 'custom_kind':
        # a user gate of kind 'custom' (any object with kind/name/requires_grad/forward): apply_state calls forward() in program order
        V = A['V1']

        class MyCustom:
            def __init__(self, index):
                self.kind = 'custom'
                self.name = 'my_custom'
                self.requires_grad = False
                self.index = (int(index),)

            def forward(self, q0):
                return numqi.sim.state.apply_gate(q0, V, self.index)
        for pos in range(4):
            for q in (0, 1):
                hl = dict(gate='custom_kind', position=pos, qubit=q)
                out.state()
                circ = numqi.sim.Circuit()
                circ.register_custom_gate('my_custom', MyCustom)
                prog = [('H', (0,), ref.H, ()), ('cnot', (0, 1), ref.X, (0,)), ('ry', (1, float(th[0])), ref_ry(th[0]), ())]
                ops = []
                for i in range(4):
                    if i == pos:
                        circ.my_custom(q)
                        ops.append((V, (), (q,)))
                    if i < 3:
                        m, args, mat, ctl = prog[i]
                        getattr(circ, m)(*args)
                        ops.append((mat, ctl, (args[1],) if ctl else (args[0],)))
                validate(numqi, out, env, circ, ops, 'custom_kind', 'program with a kind=custom gate %s' % hl, hl, marginals=False)
                out.trace()
    elif name == 'empty_control':
        # a controlled gate with NO control qubit is the gate itself; the Circuit methods' own asserts accept an empty control set
        if 'empty_control' in PENDING:
            out.count('pending/empty_control')
        else:
            V1, V2 = A['V1'], A['V2']
            progs = [('controlled_single_qubit_gate', lambda c: c.controlled_single_qubit_gate(V1.copy(), set(), 1), (V1, (), (1,))),
                     ('controlled_double_qubit_gate', lambda c: c.controlled_double_qubit_gate(V2.copy(), set(), (1, 0)), (V2, (), (1, 0))),
                     ('cry', lambda c: c.cry((), 1, float(th[0])), (ref_ry(th[0]), (), (1,))),
                     ('append_gate', lambda c: c.append_gate(numqi.sim.Gate('control', V1.copy()), (set(), (1,))), (V1, (), (1,)))]
            for meth, fn, op in progs:
                for with_other in (False, True):
                    hl = dict(method=meth, other_gate=with_other)
                    out.state()
                    circ = numqi.sim.Circuit()
                    ops = [op]
                    try:
                        if with_other:
                            circ.H(2)
                            ops = [(ref.H, (), (2,)), op]
                        fn(circ)
                    except AssertionError as e:
                        if core.is_precondition_assert(e):
                            out.count('rejected_by_precondition[empty_control]')
                            continue
                        raise
                    validate(numqi, out, env, circ, ops, 'empty_control/' + meth, 'Circuit.%s with an empty control set %s' % (meth, hl), hl, marginals=False)
                    out.trace()
    out.sample = {'kind': 'gateobj', 'gate': name}


def _flush(numqi, out, env, circ, steps, cls, hl):
    site, ops = steps[-1]
    validate(numqi, out, env, circ, ops, cls, 'Gate-object history %s, step %d' % (hl, len(steps)), dict(step=len(steps), **hl), marginals=False, site=site)


# ------------------------------------------------------------------------------------------------ argument forms of the Circuit vocabulary
INT_FORMS = {'int': int, 'np.int64': np.int64}
CTL_FORMS = {'set': set, 'frozenset': frozenset, 'list': list, 'tuple': tuple, 'ndarray': lambda c: np.array(list(c), dtype=np.int64),
             'set[np.int64]': lambda c: {np.int64(x) for x in c}}
DOCUMENTED_CTL = ('set', 'tuple')
ORDERED_FORMS = ('list', 'tuple', 'ndarray')  # usable for an ordered target tuple


def argform_programs(numqi, A, th, I, C, T):
    """[(method, build(circ), reference program)]: one call per vocabulary method with every qubit index through I, every
    control collection through C and every ordered multi-target collection through T"""
    v, trip = float(th[0]), tuple(float(x) for x in th[2:5])
    P = []
    for g, m in FIXED1.items():
        P.append((g, (lambda c, g=g: getattr(c, g)(I(1))), [(m, (), (1,))]))
    P.append(('Swap', lambda c: c.Swap(I(2), I(0)), [(SWAP, (), (2, 0))]))
    for g, m in CTRL1.items():
        P.append((g, (lambda c, g=g: getattr(c, g)(C((2,)), I(0))), [(m, (2,), (0,))]))
        P.append((g + '[control=scalar]', (lambda c, g=g: getattr(c, g)(I(2), C((0,)))), [(m, (2,), (0,))]))
    P.append(('toffoli', lambda c: c.toffoli(C((2, 0)), I(1)), [(ref.X, (0, 2), (1,))]))
    for g, f in PAR1.items():
        P.append((g, (lambda c, g=g: getattr(c, g)(I(1), v)), [(f(v), (), (1,))]))
    P.append(('u3', lambda c: c.u3(I(1), trip), [(ref_u3(*trip), (), (1,))]))
    P.append(('rzz', lambda c: c.rzz(T((I(2), I(0))), v), [(ref_rzz(v), (), (2, 0))]))
    for g, f in CPAR1.items():
        P.append((g, (lambda c, g=g: getattr(c, g)(C((0,)), I(2), v)), [(f(v), (0,), (2,))]))
        P.append((g + '[2 controls]', (lambda c, g=g: getattr(c, g)(C((1, 0)), I(2), v)), [(f(v), (0, 1), (2,))]))
    P.append(('cu3', lambda c: c.cu3(C((2, 1)), I(0), trip), [(ref_u3(*trip), (1, 2), (0,))]))
    P.append(('single_qubit_gate', lambda c: c.single_qubit_gate(A['U1'].copy(), I(1)), [(A['U1'], (), (1,))]))
    P.append(('double_qubit_gate', lambda c: c.double_qubit_gate(A['U2'].copy(), I(2), I(0)), [(A['U2'], (), (2, 0))]))
    P.append(('triple_qubit_gate', lambda c: c.triple_qubit_gate(A['U3'].copy(), I(2), I(0), I(1)), [(A['U3'], (), (2, 0, 1))]))
    P.append(('quadruple_qubit_gate', lambda c: c.quadruple_qubit_gate(A['U4'].copy(), I(3), I(0), I(2), I(1)), [(A['U4'], (), (3, 0, 2, 1))]))
    P.append(('controlled_single_qubit_gate', lambda c: c.controlled_single_qubit_gate(A['V1'].copy(), C((2, 1)), I(0)), [(A['V1'], (1, 2), (0,))]))
    P.append(('controlled_double_qubit_gate', lambda c: c.controlled_double_qubit_gate(A['V2'].copy(), C((1,)), T((I(2), I(0)))), [(A['V2'], (1,), (2, 0))]))
    P.append(('append_gate[unitary]', lambda c: c.append_gate(c.single_qubit_gate(A['U1'].copy(), 0), I(2)), [(A['U1'], (), (0,)), (A['U1'], (), (2,))]))
    P.append(('append_gate[control]', lambda c: c.append_gate(c.cy(0, 1), (C((2, 1)), (I(0),))), [(ref.Y, (0,), (1,)), (ref.Y, (1, 2), (0,))]))
    P.append(('shift_qubit_index_', lambda c: (c.cy(0, 1), c.shift_qubit_index_(I(1))), [(ref.Y, (1,), (2,))]))
    return P


def run_argform(case, out, env):
    import numqi
    A = atoms(env)
    iform, cform = case['int'], case['ctl']
    documented = cform in DOCUMENTED_CTL
    for meth, build, ops in argform_programs(numqi, A, A['theta'], INT_FORMS[iform], CTL_FORMS[cform], CTL_FORMS[cform] if cform in ORDERED_FORMS else tuple):
        hl = dict(method=meth, int_form=iform, collection_form=cform)
        cls = 'argform/%s/%s' % (iform, cform)
        out.state()
        circ = numqi.sim.Circuit()
        try:
            build(circ)
        except Exception as e:  # noqa
            if not documented and ((isinstance(e, AssertionError) and core.is_precondition_assert(e)) or isinstance(e, TypeError)):
                out.count('undocumented_form_rejected[%s]' % cform)  # outside the documented argument forms: a refusal is fine
                continue
            out.violation('sim.Circuit/build/%s/%s' % (type(e).__name__, cls), 'Circuit.%s with %s raised %s: %s (at %s)' % (meth, hl, type(e).__name__, str(e)[:160], core.exc_site(e)), **hl)
            continue
        out.count('argform_accepted[%s]' % cform)
        validate(numqi, out, env, circ, ops, cls, 'Circuit.%s called with %s' % (meth, hl), hl, marginals=False)
        out.trace()
    out.sample = {'kind': 'argform', 'int_form': iform, 'collection_form': cform}


def run_gatedef(case, out, env):
    """the matrix each vocabulary method stores == the documented formula"""
    import numqi
    th = atoms(env)['theta']
    vals = [0.0, np.pi / 3, np.pi, -2.0, float(th[0]), float(th[1]), 4 * np.pi - 0.5]
    Ry, Mc = custom_classes(numqi, env)

    def chk(name, gate, exp, **detail):
        out.state()
        out.trans()
        arr = np.asarray(gate.array)
        _compare(out, arr, exp, tol_of(2.0, 1.0, 8), 'sim.Circuit/%s/gate_matrix' % name, 'Circuit.%s stores a matrix that differs from the documented gate' % name,
                 dict(method=name, **detail), shape=exp.shape)
        out.outcome((name, arr), nontrivial=bool(np.abs(exp - np.eye(len(exp))).max() > 1e-9))
    for name, m in FIXED1.items():
        chk(name, getattr(numqi.sim.Circuit(), name)(0), m)
    chk('Swap', numqi.sim.Circuit().Swap(0, 1), SWAP)
    for name, m in CTRL1.items():
        g = getattr(numqi.sim.Circuit(), name)(0, 1)
        chk(name, g, m)
        out.check(g.kind == 'control', 'sim.Circuit/%s/kind' % name, '%s is not stored as a control gate' % name)
    chk('toffoli', numqi.sim.Circuit().toffoli((0, 1), 2), ref.X)
    for v in vals:
        for name, f in PAR1.items():
            chk(name, getattr(numqi.sim.Circuit(), name)(0, v), f(v), theta=v)
        for name, f in CPAR1.items():
            chk(name, getattr(numqi.sim.Circuit(), name)(0, 1, v), f(v), theta=v)
        chk('rzz', numqi.sim.Circuit().rzz((0, 1), v), ref_rzz(v), theta=v)
    for trip in itertools.product([0.0, np.pi / 3, float(th[2])], repeat=3):
        chk('u3', numqi.sim.Circuit().u3(0, trip), ref_u3(*trip), args=list(trip))
        chk('cu3', numqi.sim.Circuit().cu3(0, 1, trip), ref_u3(*trip), args=list(trip))
    out.trace()
    out.sample = {'kind': 'gatedef', 'theta_alphabet': vals}


# ------------------------------------------------------------------------------------------------ engine interface
def prepare(env):
    atoms(env)


def ref_apply_bits(psi, op, tgt, ctl, n):
    """bit-level reference: out[i] = sum_j op[t(i), j] psi[i with the target bits set to j] on the all-ones control subspace
    (qubit 0 = most significant bit), identity elsewhere; no 2^n x 2^n matrix is formed"""
    N = 1 << n
    idx = np.arange(N)
    k = len(tgt)
    sh = [n - 1 - q for q in tgt]
    tb = np.zeros(N, dtype=np.int64)
    for q, s_ in zip(range(k), sh):
        tb = (tb << 1) | ((idx >> s_) & 1)
    base = idx.copy()
    for s_ in sh:
        base &= ~(1 << s_)
    mask = np.ones(N, dtype=bool)
    for c in ctl:
        mask &= ((idx >> (n - 1 - c)) & 1).astype(bool)
    out_ = np.zeros(N, dtype=np.complex128)
    for j in range(1 << k):
        src = base.copy()
        for q, s_ in zip(range(k), sh):
            if (j >> (k - 1 - q)) & 1:
                src |= (1 << s_)
        out_ += op[tb, j] * psi[src]
    return np.where(mask, out_, psi)


def run_bign(case, out, env):
    import numqi
    st = numqi.sim.state
    n = case['n']
    rng = env.rng('bign%d' % n)
    N = 1 << n
    qs = sorted({0, 1, n // 2, n - 2, n - 1})
    gen = rng.normal(size=N) + 1j * rng.normal(size=N)
    gen /= np.linalg.norm(gen)
    states = [('generic', gen)]
    for b in (N - 1, (N // 3) | 1):
        e = np.zeros(N, dtype=np.complex128)
        e[b] = 1
        states.append(('e%d' % b, e))
    pats = []
    for k in (1, 2, 3):
        tl = list(itertools.permutations(qs, k)) if k < 3 else [t for t in itertools.permutations(qs, 3) if t[0] in (qs[0], qs[-1], qs[2])][:24]
        for t in tl:
            rest = [q for q in qs if q not in t]
            cl = [()] + [(c,) for c in rest] + ([tuple(rest[:2])] if len(rest) >= 2 and k == 1 else [])
            for c in cl:
                if k == 3 and c:
                    continue
                pats.append((t, c))
    ops = {}
    for k in (1, 2, 3):
        d = 1 << k
        perm = np.zeros((d, d), dtype=np.complex128)
        perm[np.arange(d), (np.arange(d) + 1) % d] = 1
        ops[k] = [('generic', rng.normal(size=(d, d)) + 1j * rng.normal(size=(d, d))), ('shift', perm)]
    for (t, c) in pats:
        k = len(t)
        for oname, U in ops[k]:
            for sname, psi in (states if (k == 1 or oname == 'generic') else states[:1]):
                out.state()
                out.trans()
                exp = ref_apply_bits(psi, U, t, c, n)
                try:
                    if c:
                        got = st.apply_control_n_gate(psi.copy(), U.copy(), set(c), list(t))
                        fn = 'apply_control_n_gate'
                    else:
                        got = st.apply_gate(psi.copy(), U.copy(), list(t))
                        fn = 'apply_gate'
                except Exception as e:  # noqa
                    out.violation('sim.state/bign/%s' % type(e).__name__, 'n=%d targets=%s controls=%s raised %s: %s' % (n, t, c, type(e).__name__, str(e)[:160]), n=n, tgt=list(t), ctl=list(c))
                    continue
                got = np.asarray(got)
                tol = tol_of(float(np.abs(U).sum()), 1.0, 1 << k)
                if got.shape != exp.shape or not np.all(np.isfinite(got)) or np.abs(got - exp).max() > tol:
                    err = float(np.abs(got - exp).max()) if got.shape == exp.shape else float('nan')
                    out.violation('sim.state/%s/mismatch/large_register/k=%d' % (fn, k),
                                  '%s(n=%d, controls=%s, targets=%s, op=%s, state=%s) != bit-level reference: max deviation %.3g > tol %.3g' % (fn, n, set(c), t, oname, sname, err, tol),
                                  n=n, tgt=list(t), ctl=list(c), op=U)
                out.outcome(('bign', n, t, c, oname, sname, np.round(got[:4], 6)), nontrivial=bool(np.abs(got - psi).max() > 1e-9))
        out.trace()
    out.sample = {'kind': 'bign', 'n': n, 'patterns': len(pats)}


def build_cases(tier, seed):
    quick = tier == 'quick'
    cases, info = [], {}
    n_gate = 4 if quick else 6
    npat = 0
    for n in range(1, n_gate + 1):
        for tgt, ctl in index_patterns(n):
            cases.append({'kind': 'gate', 'n': n, 'tgt': list(tgt), 'ctl': list(ctl)})
            npat += 1
    info['gate'] = {'n_max': n_gate, 'index_patterns': npat, 'operator_alphabet': '4^k matrix units + generic unitary + generic non-unitary',
                    'state_alphabet': '2^n basis vectors + generic vector (+ float64 basis vectors x complex unitary)'}
    # ---- large registers (thin): size-dependent code paths (fast paths gated on the number of amplitudes) are outside the
    # exhaustive range n <= 6; a thin slice of index patterns is run at n = 10, 11, 12 (13 in thorough) against a bit-level reference
    bign = (10, 11, 12) if quick else (10, 11, 12, 13)
    for n in bign:
        cases.append({'kind': 'bign', 'n': n})
    info['bign'] = {'n': list(bign), 'patterns': 'targets of size 1..3 and control sets of size 0..2 over the qubits {0, 1, n//2, n-2, n-1}, ordered targets incl. descending / interleaved',
                    'states': '2 basis vectors + 1 generic vector', 'ops': 'generic complex matrix + X-like permutation'}
    # ---- dm: (n, kmax with full polarisation set, kmax with matrix units only)
    dm_cfg = [(1, 1, 1), (2, 2, 2), (3, 2, 3)] if quick else [(1, 1, 1), (2, 2, 2), (3, 3, 3), (4, 2, 3)]
    info['dm'] = [{'n': a, 'k_polarisation': b, 'k_units': c} for a, b, c in dm_cfg]
    for n, kpol, kunit in dm_cfg:
        for k in range(1, min(kunit, n) + 1):
            for tgt in itertools.permutations(range(n), k):
                if k <= kpol:
                    nunit = 4**k
                    # work units of roughly equal size: pairs (i<j) are grouped by i
                    step = 1 if (k == 3 or n >= 4) else 4
                    for lo in range(0, nunit, step):
                        cases.append({'kind': 'dm', 'n': n, 'tgt': list(tgt), 'mode': 'polar', 'lo': lo, 'hi': min(lo + step, nunit)})
                else:
                    cases.append({'kind': 'dm', 'n': n, 'tgt': list(tgt), 'mode': 'units', 'lo': 0, 'hi': 0})
    n_exp = 3 if quick else 4
    for n in range(1, n_exp + 1):
        for k in range(1, min(3, n) + 1):
            for tgt in itertools.permutations(range(n), k):
                cases.append({'kind': 'expect', 'n': n, 'tgt': list(tgt)})
    # thin slices for n = 5 (6): every ordered target tuple, thin matrix-unit alphabet of rho (thin_matrix_units), operator alphabet thin_ops
    thin_cfg = [(5, 2)] if quick else [(5, 3), (6, 3)]
    for n, kmax in thin_cfg:
        for k in range(1, kmax + 1):
            for tgt in itertools.permutations(range(n), k):
                cases.append({'kind': 'dm', 'n': n, 'tgt': list(tgt), 'mode': 'thin', 'lo': 0, 'hi': 0, 'kfull': 1 if quick else 2})
                cases.append({'kind': 'expect', 'n': n, 'tgt': list(tgt), 'thin': True, 'kfull': 1 if quick else 2})
    info['dm'] += [{'n': a, 'k_thin_slice': b, 'all_matrix_units_of_op_up_to_k': 1 if quick else 2} for a, b in thin_cfg]
    info['expect'] = {'n_max': n_exp, 'thin_slices': [{'n': a, 'k_max': b} for a, b in thin_cfg]}
    n_prob = 4 if quick else 6
    for n in range(1, n_prob + 1):
        step = 2**n if n <= 4 else 4
        for lo in range(0, 2**n, step):
            cases.append({'kind': 'prob', 'n': n, 'lo': lo, 'hi': min(lo + step, 2**n)})
    info['prob'] = {'n_max': n_prob, 'keep_sets': 'all 2^n', 'states': 'polarisation set + 2 generic'}
    n_inner = 3 if quick else 4
    for n in range(1, n_inner + 1):
        tl = [t for k in (1, 2) for t in itertools.permutations(range(n), k)]
        for tA in tl:
            for tB in tl:
                cases.append({'kind': 'inner', 'n': n, 'tA': list(tA), 'tB': list(tB), 'units': n <= 2})
    info['inner'] = {'n_max': n_inner, 'matrix_unit_products_n_max': 2}
    cases.append({'kind': 'gatedef'})
    for g1 in HOLD_GATES:
        for g2 in ('ry', 'u3'):
            cases.append({'kind': 'holder', 'g1': g1, 'g2': g2})
    OBJ = list(OBJ_GATES) + ['Gate.copy', 'copy_of_placeholder', 'custom_kind', 'empty_control']
    for g in OBJ:
        cases.append({'kind': 'gateobj', 'gate': g})
    info['gateobj'] = {'histories': OBJ, 'set_args_forms': SETARG_FORMS, 'orders': ['append,set', 'set,append']}
    for i in INT_FORMS:
        for c in CTL_FORMS:
            cases.append({'kind': 'argform', 'int': i, 'ctl': c})
    info['argform'] = {'int_forms': list(INT_FORMS), 'collection_forms': list(CTL_FORMS), 'methods': 'every gate-adding method, append_gate, shift_qubit_index_'}
    info['holder'] = {'gate1': list(HOLD_GATES), 'gate2': ['ry', 'u3'], 'schemes': HOLD_SCHEMES, 'leaf_containers': LEAF, 'setP_rounds': ['first_call', 'second_call', 'partial_update']}
    # ---- programs
    prog_cfg = [(3, 'full', 1), (3, 'medium', 2), (4, 'wide', 1)] if quick else [(3, 'full', 2), (4, 'wide', 1), (2, 'full', 3), (3, 'reduced', 3)]
    info['programs'] = []
    for nq, level, depth in prog_cfg:
        evs = event_list(nq, level)
        info['programs'].append({'nq': nq, 'alphabet': level, 'events': len(evs), 'max_depth': depth,
                                 'histories': sum(len(evs)**L for L in range(1, depth + 1))})
        cases.append({'kind': 'prog', 'nq': nq, 'level': level, 'depth': 1, 'first': None})
        for L in range(2, depth + 1):
            for i in range(len(evs)):
                cases.append({'kind': 'prog', 'nq': nq, 'level': level, 'depth': L, 'first': i})
    # structured depth-3 slice 're-use then shift': [any event of the medium alphabet ; re-use a gate object / a sub-circuit ; shift],
    # i.e. every history in which one Gate object sits at two positions when the indices are shifted
    evs_m = event_list(3, 'medium')
    for i in range(0, len(evs_m), 12):
        cases.append({'kind': 'prog3s', 'nq': 3, 'level': 'medium', 'lo': i, 'hi': min(i + 12, len(evs_m)), 'depth': 3})
    info['programs'].append({'nq': 3, 'alphabet': 'medium x {append_prev 0,1,2; extend A,B} x {shift +1,+2,-1,0}', 'events': len(evs_m), 'max_depth': 3,
                             'histories': len(evs_m) * 5 * 4})
    order = {'gatedef': 0, 'holder': 0.5, 'gateobj': 0.6, 'argform': 0.7, 'gate': 1, 'bign': 1.5, 'prob': 2, 'expect': 3, 'dm': 4, 'inner': 5, 'prog': 6, 'prog3s': 7}
    cases.sort(key=lambda c: (order[c['kind']], c.get('depth', 0), c.get('n', c.get('nq', 0)), len(c.get('tgt', [])) + len(c.get('ctl', []))))
    info['exhaustive'] = True
    info['note'] = ('exhaustive within the stated bounds: every index pattern for n<=%d, complete operator/state bases, every history to the depth bound '
                    'over the stated event alphabets; modulo the multilinearity assumption (spot-checked)' % n_gate)
    return cases, info


def run_case(case, out, env):
    kind = case['kind']
    {'gate': run_gate, 'dm': run_dm, 'expect': run_expect, 'prob': run_prob, 'inner': run_inner, 'prog': run_prog, 'prog3s': run_prog3s, 'gatedef': run_gatedef, 'holder': run_holder, 'gateobj': run_gateobj, 'argform': run_argform, 'bign': run_bign}[kind](case, out, env)
