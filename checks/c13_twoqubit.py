"""C13 - two-qubit measures agree with each other; convex-roof ansaetze bound from above (DESIGN.md section 4 / C13).

Part A (mode H, the mixing search of C05 with entangled components added).  A state is an explicit ensemble
{(w_i, |v_i>)} reached from one component by mix-in events  rho -> (1-w) rho + w sigma ; sigma runs over the complete
component alphabet (all 49 products of the local alphabets of C05, the Bell states, partially / weakly entangled pure
states, generic entangled atoms, the maximally mixed state), w in {1/2, 0.1, 1e-6}.  Ranks 1..4, separable, boundary and
near-separable states all arise.  At every state (deduplicated by the rounded matrix) the closed forms
get_concurrence_2qubit / get_eof_2qubit / get_gme_2qubit / get_negativity are invariants against an independent reference
computed from the *ensemble* (never from the implementation): Wootters' lambdas are the singular values of
tau_ij = <w_i| Y(x)Y |w_j*>, which needs no square root of a spectrum and is accurate to ~10 eps.
      'pure'   : the pure-state lattice (F1 (x) F2)(cos t |00> + sin t |11>), all local frames x all Schmidt angles.
      'family' : Bell-diagonal simplex lattice, Werner / isotropic line incl. the PPT boundary, equal mixtures, diagonal states.
Part B (mode P).  For every state of a declared sub-alphabet x model x rank option x ensemble size x theta lattice point
the model's forward() is executed; the Stiefel matrix and sqrt(rho) are read back, the ensemble is recomputed with plain
numpy, must reproduce rho, its average measure must equal the loss (lock-step), and the loss must not be below the closed form.
Audit wave: the same with the two-qubit state zero-padded into 2x3 / 3x2 (the dimA<dimB / dimA>dimB contraction branches; convex-roof values
unchanged), DensityMatrixGMEModel(CPrank in {2,3}) (loss = 1 - sum_a |<phi_a|psi_a>|^2 with phi_a the normalised sum of CPrank product states
recomputed from the raw coefficients; only 0 <= loss <= 1 remains of the bound), get_state(tag_grad) against what forward() used,
get_eof_pure(eps in {0,1e-14,1e-6}) on the pure lattice, and the list / np.int64 / ndarray forms of get_negativity's dim.
"""
import itertools

import numpy as np

from mc import core
from mc import ref
from checks import c05_separable as c05

PROPERTY = 'C13'
GUARD = ['numqi.entangle.eof', 'numqi.entangle.measure', 'numqi.entangle._misc']  # argument-immutability oracle (mc.seams.ImmutabilityGuard)
GUARD_LAYOUT = ['numqi.entangle._misc', 'numqi.entangle.eof.get_', 'numqi.entangle.measure.get_gme_2qubit']  # memory-layout metamorphic oracle: eigenvalue-based functions only (SDP / LP optima differ by solver tolerance)
LEVEL = 'model_checking'
RULE = ('part A: state = explicit two-qubit ensemble reached by mix-in events (weights 1/2, 0.1, 1e-6) from one component of the alphabet '
        '{49 product states of the C05 local alphabets, 4 Bell states, partially/weakly entangled pure states, generic entangled atoms, '
        '1/4}; all event sequences to the depth bound, deduplicated by the rounded matrix; plus the complete pure-state lattice '
        '(local frame x local frame x Schmidt angle) and analytic families; transition = one numqi call compared with the ensemble-based '
        'reference (Wootters via singular values of tau, partial transpose by reshape); local unitaries {1,H,S,g}x{1,H,S,g} at every state '
        'of depth <= 1.  part B: configuration = (state, model, rank option, ensemble size) x theta lattice (structured isometry frames + '
        'scale*generic atom); transition = one forward() compared with the average measure of the independently recomputed ensemble and with '
        'the closed form; the configuration also carries dims in {2x2, 2x3, 3x2} (state zero-padded) and, for the GME model, CPrank in {1,2,3} '
        'x coefficient patterns, with get_state(tag_grad in {False,True}) compared at every GME evaluation; the pure lattice also runs get_eof_pure over '
        'eps in {0,1e-14,1e-6} and get_negativity over the dim forms {tuple, list, np.int64 pair, int64 ndarray}.  non-trivial = entangled mixed states (part A) / losses strictly above the closed form (part B)')
ASSUMPTIONS = [
    'reference concurrence: singular values of tau = W^dagger (Y(x)Y) W^* for the explicit ensemble W (Wootters 1998); self-checked against 2|det| on pure states, 2 p_max - 1 on Bell-diagonal states and the Verstraete et al. bounds against the negativity',
    'convex roofs on two qubits: E_F = h((1+sqrt(1-C^2))/2), GME = (1-sqrt(1-C^2))/2 (Wei-Goldbart), linear entropy of entanglement C^2/2 (Osborne); negativity N obeys sqrt((1-C)^2+C^2)-(1-C) <= 2N <= C',
    'TOL_C = 1e-6 for a closed-form concurrence (sqrt of a 4x4 Hermitian spectrum with backward error ~100 eps: 3 sqrt(100 eps) = 4.5e-7); E_F and GME are compared through the monotone maps C -> E_F, GME evaluated at C_ref -+ TOL_C',
    'models: the Stiefel matrix and sqrt(rho) are read back from the model (attributes manifold / manifold_stiefel / _sqrt_rho); ensemble sizes below 2 are rejected by numqi.manifold.Stiefel (dim>=2) and counted, not checked',
    'theta lattice points whose frame has condition number > 1e3 (float64) / 10 (float32) are outside the stated conditioning bound of the polar map and are skipped (counted)',
    'padded dimensions: a two-qubit state embedded in levels {0,1}x{0,1} of 2x3 / 3x2 has the same convex-roof values (every member of every decomposition lies in the support); rank option None then means 6',
    'CPrank>1: phi_a = sum_c k_ac |u_ac>|v_ac> normalised, k_ac read from manifold_coeff (softplus); tolerances scale with kphi = (sum_c k_ac)^2/|sum_c ..|^2, points with kphi > 1e3 are outside (counted); the closed form is not a bound there, only 0 <= loss <= 1',
    'get_state(tag_grad): equality with the chart outputs within the chart error; requires_grad of the returned tensors equals tag_grad (its only visible effect)',
    'get_eof_pure(eps): weights <= eps dropped; |E - E_ref| <= e|log e| + 1e3 EPS with e = eps + 16 EPS, and E = entropy of the weights above eps within 16 EPS |log 16 EPS| + 1e3 EPS (weights within 16 EPS of eps may go either way)',
    'generic atoms (local alphabet atoms of C05, entangled atoms, local unitaries, theta atoms) are drawn once from VERIF_SEED',
]
CHUNK = 1

EPS = float(np.finfo(np.float64).eps)
EPS32 = float(np.finfo(np.float32).eps)
# closed-form concurrence: lambda_i = sqrt(mu_i), mu_i eigenvalues of the Hermitian 4x4 matrix sqrt(rho) rho~ sqrt(rho) of norm <= 1,
# formed by two matrix products and two eigh: backward error <= ~100 eps.  |d lambda| <= sqrt(100 eps) = 1.5e-7 where mu ~ 0, three such
# lambdas are subtracted: 4.5e-7.  Fixed at 1e-6 (the same constant C05 uses for "zero on separable states").
TOL_C = 1e-6
# get_concurrence_pure = sqrt(2 (1 - tr rho_A^2)): the argument carries an absolute error <= 32 eps (4 products, 4 squares summed),
# so |C_impl^2 - C^2| <= 64 eps and |C_impl - C| <= sqrt(64 eps) = 1.2e-7.
TOL_CPURE = float(np.sqrt(64 * EPS))
# get_eof_pure(eps=1e-10) drops Schmidt weights below its documented eps: error <= eps |log eps| = 2.3e-9 ; + rounding
TOL_EPURE = 5e-9
# get_eof_pure(psi, eps): Schmidt weights lambda <= eps are dropped (documented: "a small number to avoid log(0)").  The weights come from eigvalsh
# of a Gram matrix of norm 1 (absolute error <= 16 EPS), so a weight is certainly kept if lambda > eps + 16 EPS, certainly dropped if
# lambda < eps - 16 EPS.  (i) whatever is dropped is <= e' = eps + 16 EPS and at most one of the two weights can be (the other is >= 1/2):
# |E - E_ref| <= e' |log e'| (x|log x| increasing below 1/e) ; (ii) sharp form: E equals the entropy of the kept weights, where a weight perturbed by
# 16 EPS changes x log x by at most |16 EPS log(16 EPS)| = 1.2e-13 ; + TOL_PLAIN for the evaluation.
EOF_EPS = [0.0, 1e-14, 1e-6]
TOL_EIG = 16 * EPS


def tol_eof_eps(eps_):
    e1 = eps_ + TOL_EIG
    return float(e1 * abs(np.log(e1)) + 1e3 * EPS)


TOL_EPURE_SHARP = float(TOL_EIG * abs(np.log(TOL_EIG)) + 1e3 * EPS)
# plain formula evaluations (no square root at a spectrum edge): 1e3 eps
TOL_PLAIN = 1e3 * EPS
# GME relation (1-sqrt(1-C^2))/2 : 1-C^2 carries an absolute error <= 4 eps, |sqrt a - sqrt b| <= sqrt|a-b| = 3e-8 ; /2, twice (impl and reference)
TOL_GREL = float(2 * np.sqrt(4 * EPS))
# negativity: eigenvalues of a Hermitian 4x4 matrix of norm <= 1 by a general eigensolver, 4 of them summed: 1e3 eps * 4
TOL_NEG = 4e3 * EPS
LOG2 = float(np.log(2.0))

YY = np.kron(ref.Y, ref.Y)
WEIGHTS = c05.WEIGHTS


# ------------------------------------------------------------------------------------------------ reference model
def F_id(c):
    return float(min(max(c, 0.0), 1.0))


def F_eof(c):
    """binary entropy of (1+sqrt(1-C^2))/2, small branch evaluated as C^2/(2(1+sqrt(1-C^2))) (no cancellation)"""
    c = F_id(c)
    if c == 0.0:
        return 0.0
    s = np.sqrt((1.0 - c) * (1.0 + c))
    x = (1.0 + s) / 2
    y = c * c / (2 * (1.0 + s))
    return float(-x * np.log(x) - y * np.log(y))


def F_gme(c):
    c = F_id(c)
    s = np.sqrt((1.0 - c) * (1.0 + c))
    return float(c * c / (2 * (1.0 + s)))


def F_le(c):
    c = F_id(c)
    return c * c / 2


def ens_W(ens):
    return np.stack([np.sqrt(w) * v for w, v in ens], axis=1)  # 4 x n


def ens_rho(ens):
    W = ens_W(ens)
    rho = W @ W.conj().T
    return (rho + rho.conj().T) / 2


def ens_mix(ensA, ensB, w):
    return [((1 - w) * a, v) for a, v in ensA] + [(w * b, u) for b, u in ensB]


def ref_concurrence_W(W):
    tau = W.conj().T @ YY @ W.conj()
    sv = np.linalg.svd(tau, compute_uv=False)
    return float(max(0.0, 2 * sv[0] - sv.sum()))


def ref_negativity(rho):
    ev = np.linalg.eigvalsh(ref.partial_transpose(rho, (2, 2), 1))
    return float(-ev[ev < 0].sum()), float(ev[0])


def neg_lower(c):
    """Verstraete, Audenaert, Dehaene, De Moor (2001): 2N >= sqrt((1-C)^2+C^2)-(1-C)"""
    c = F_id(c)
    return float((np.sqrt((1 - c) ** 2 + c * c) - (1 - c)) / 2)


def conc_upper_from_neg(n):
    """largest C compatible with negativity n (inverse of neg_lower): C <= -2N + sqrt(8N^2+4N)"""
    n = max(n, 0.0)
    return float(min(1.0, -2 * n + np.sqrt(8 * n * n + 4 * n)))


class Ref:
    """everything the oracle knows about one state, computed from the explicit ensemble"""

    def __init__(self, ens):
        self.ens = ens
        W = ens_W(ens)
        self.rho = W @ W.conj().T
        self.rho = (self.rho + self.rho.conj().T) / 2
        self.C = ref_concurrence_W(W)
        self.N, self.pt_min = ref_negativity(self.rho)
        ev = np.linalg.eigvalsh(self.rho)
        self.rank = int((ev > 1e-11).sum())
        self.ev = ev
        # self-check of the oracle (a failure here is a harness error, never a verdict)
        if not (neg_lower(self.C) - 1e-12 <= self.N <= self.C / 2 + 1e-12):
            raise RuntimeError('oracle self-check failed: C_ref=%r N_ref=%r violate the Verstraete bounds' % (self.C, self.N))


# ------------------------------------------------------------------------------------------------ alphabets
def bell_states():
    s = 1 / np.sqrt(2)
    return [('Phi+', np.array([s, 0, 0, s], dtype=np.complex128)), ('Phi-', np.array([s, 0, 0, -s], dtype=np.complex128)),
            ('Psi+', np.array([0, s, s, 0], dtype=np.complex128)), ('Psi-', np.array([0, s, -s, 0], dtype=np.complex128))]


_COMP = {}


def components(env):
    """the component alphabet: list of (label, ensemble)"""
    if env.seed in _COMP:
        return _COMP[env.seed]
    comps = []
    prods = c05.product_alphabet((2, 2), env)  # the 7 x 7 product vectors of C05 (6 axis states + 1 generic atom per side)
    for i, v in enumerate(prods):
        comps.append(('prod%d' % i, [(1.0, v)]))
    for name, v in bell_states():
        comps.append((name, [(1.0, v)]))
    comps.append(('Phi+i', [(1.0, np.array([1, 0, 0, 1j], dtype=np.complex128) / np.sqrt(2))]))
    for name, t, idx in (('schmidt(pi/8)', np.pi / 8, (0, 3)), ('schmidt(1e-4)', 1e-4, (1, 2)), ('schmidt(1e-8)', 1e-8, (0, 3))):
        v = np.zeros(4, dtype=np.complex128)
        v[idx[0]] = np.cos(t)
        v[idx[1]] = np.sin(t)
        comps.append((name, [(1.0, v)]))
    for k in range(2):
        comps.append(('ent_atom%d' % k, [(1.0, ref.rand_state(env.rng('C13', 'ent', k), 4))]))
    eye = np.eye(4, dtype=np.complex128)
    comps.append(('mm', [(0.25, eye[i]) for i in range(4)]))
    _COMP[env.seed] = comps
    return comps


N_COMP = 49 + 4 + 1 + 3 + 2 + 1


def local_unitaries(env):
    g0 = ref.haar_unitary(env.rng('C13', 'lu', 0), 2)
    g1 = ref.haar_unitary(env.rng('C13', 'lu', 1), 2)
    A = [('1', ref.I2), ('H', ref.H), ('S', ref.S), ('g0', g0)]
    B = [('1', ref.I2), ('H', ref.H), ('S', ref.S), ('g1', g1)]
    return [('%sx%s' % (a[0], b[0]), np.kron(a[1], b[1])) for a in A for b in B][1:]


def local_frames(env, n_generic):
    """2x2 unitaries whose first column runs over the qubit alphabet {0,1,+,-,+i,-i}, the rational-looking real direction (1/3, sqrt(8)/3)
    and generic atoms"""
    X, H, S = ref.X, ref.H, ref.S
    c, s = 1 / 3, np.sqrt(8) / 3
    fr = [('0', ref.I2, True), ('1', X, True), ('+', H, True), ('-', H @ X, True), ('+i', S @ H, False), ('-i', S.conj() @ H, False),
          ('r3', np.array([[c, -s], [s, c]], dtype=np.complex128), True)]
    for k in range(n_generic):
        fr.append(('g%d' % k, ref.haar_unitary(env.rng('C13', 'frame', k), 2), False))
    return fr


ANGLES = [0.0, 1e-9, 1e-8, 1e-6, 1e-4, 1e-2, np.pi / 8, 0.6, np.pi / 4 - 1e-4, np.pi / 4 - 1e-8, np.pi / 4]


# ------------------------------------------------------------------------------------------------ part A: invariants
def _scalar(v):
    if isinstance(v, (int, float, np.floating, np.integer)):
        return float(v)
    v = np.asarray(v)
    if v.ndim == 0 and v.dtype.kind in 'fiu':
        return float(v)
    if v.ndim == 0 and v.dtype.kind == 'c' and abs(v.imag) == 0:
        return float(v.real)
    return None


def call(out, site, name, fn, **detail):
    """one implementation call; exception -> violation. returns (ok, float or None)"""
    out.trans()
    try:
        with np.errstate(all='ignore'):
            v = fn()
    except Exception as e:  # every input handed in is a valid two-qubit state / normalised pure state
        out.violation('%s/%s/raises_%s' % (site, name, type(e).__name__), '%s raised %r on an admissible input (%s)' % (name, e, detail.get('state')), **detail)
        return False, None
    s = _scalar(v)
    if s is None:
        out.violation('%s/%s/not_a_real_scalar' % (site, name), '%s returned %r (%s)' % (name, v, detail.get('state')), **detail)
        return False, None
    if not np.isfinite(s):
        out.violation('%s/%s/not_finite' % (site, name), '%s returned %r where the reference is finite (%s)' % (name, s, detail.get('state')), **detail)
        return False, None
    return True, s


DIM_FORMS = [('list', lambda: [2, 2]), ('np.int64 pair', lambda: (np.int64(2), np.int64(2))), ('int64 ndarray', lambda: np.array([2, 2], dtype=np.int64))]


def check_closed(nq, out, R, site, label, rho=None, with_relations=True, dim_forms=False):
    """closed-form invariants on one state (reference R); returns the observed (C, E, G, N)"""
    E = nq.entangle
    rho = R.rho if rho is None else rho
    lo_c, hi_c = R.C - TOL_C, R.C + TOL_C
    okc, c = call(out, site, 'get_concurrence_2qubit', lambda: E.get_concurrence_2qubit(rho), rho=rho, state=label)
    oke, e = call(out, site, 'get_eof_2qubit', lambda: E.get_eof_2qubit(rho), rho=rho, state=label)
    okg, g = call(out, site, 'get_gme_2qubit', lambda: E.get_gme_2qubit(rho), rho=rho, state=label)
    if okc:
        if not (0.0 <= c <= 1.0 + 4 * EPS):
            out.violation('%s/get_concurrence_2qubit/out_of_range' % site, 'concurrence %r outside [0,1] (%s)' % (c, label), rho=rho)
        if not (lo_c <= c <= hi_c):
            out.violation('%s/get_concurrence_2qubit/differs_from_wootters_reference' % site,
                          'concurrence %.12g, reference %.12g (tol %g) (%s)' % (c, R.C, TOL_C, label), rho=rho, expected=R.C, observed=c)
    if oke:
        if not (0.0 <= e <= LOG2 + 4 * EPS):
            out.violation('%s/get_eof_2qubit/out_of_range' % site, 'EOF %r outside [0,log 2] (%s)' % (e, label), rho=rho)
        if not (F_eof(lo_c) - TOL_PLAIN <= e <= F_eof(hi_c) + TOL_PLAIN):
            out.violation('%s/get_eof_2qubit/differs_from_reference' % site,
                          'EOF %.12g, reference h(C_ref)=%.12g (C_ref=%.9g -+ %g) (%s)' % (e, F_eof(R.C), R.C, TOL_C, label), rho=rho, expected=F_eof(R.C), observed=e)
    if okg:
        if not (0.0 <= g <= 0.5 + 4 * EPS):
            out.violation('%s/get_gme_2qubit/out_of_range' % site, 'GME %r outside [0,1/2] (%s)' % (g, label), rho=rho)
        if not (F_gme(lo_c) - TOL_GREL <= g <= F_gme(hi_c) + TOL_GREL):
            out.violation('%s/get_gme_2qubit/differs_from_reference' % site,
                          'GME %.12g, reference %.12g (C_ref=%.9g -+ %g) (%s)' % (g, F_gme(R.C), R.C, TOL_C, label), rho=rho, expected=F_gme(R.C), observed=g)
    n = None
    if with_relations:
        # defining monotone formulas between the *observed* values
        if okc and oke and abs(e - F_eof(c)) > TOL_PLAIN:
            out.violation('%s/get_eof_2qubit/not_h_of_concurrence' % site, 'EOF %.15g but h((1+sqrt(1-C^2))/2) = %.15g for the returned C=%.15g (%s)' % (e, F_eof(c), c, label), rho=rho)
        if okc and okg and abs(g - F_gme(c)) > TOL_GREL:
            out.violation('%s/get_gme_2qubit/not_formula_of_concurrence' % site, 'GME %.15g but (1-sqrt(1-C^2))/2 = %.15g for the returned C=%.15g (%s)' % (g, F_gme(c), c, label), rho=rho)
        okn, n = call(out, site, 'get_negativity', lambda: E.get_negativity(rho, (2, 2)), rho=rho, state=label)
        if okn and abs(n - R.N) > TOL_NEG:
            out.violation('%s/get_negativity/differs_from_partial_transpose' % site, 'negativity %.15g, sum of |negative eigenvalues| of the partial transpose %.15g (%s)' % (n, R.N, label), rho=rho)
        if dim_forms and okn:
            # other forms of the dim argument accepted by the function's own asserts (len(dim)==2, int(dim[i])): same computation, same bits
            for fname, mk in DIM_FORMS:
                okf, nf = call(out, site, 'get_negativity[dim form]', lambda mk=mk: E.get_negativity(rho, mk()), rho=rho, dim_form=fname, state=label)
                if okf and nf != n:
                    out.violation('%s/get_negativity[dim form]/differs_from_tuple_call' % site, 'get_negativity(rho, %s) = %.17g but %.17g with dim=(2,2) (%s)' % (fname, nf, n, label), rho=rho, dim_form=fname)
        # non-zero exactly when the partial transpose has a negative eigenvalue, with the dead band given by the Verstraete bounds:
        #   NPT by more than TOL_C  =>  C >= 2N > 2 TOL_C, so every measure must come out strictly positive
        #   PPT up to 1e-13        =>  C <= C_max(1e-13) = 6.3e-7, so every measure must come out (numerically) zero
        if R.N > TOL_C:
            for nm, ok_, v_ in (('get_concurrence_2qubit', okc, c), ('get_eof_2qubit', oke, e), ('get_gme_2qubit', okg, g)):
                if ok_ and not v_ > 0:
                    out.violation('%s/%s/zero_on_npt_state' % (site, nm), '%s = %r although the partial transpose has eigenvalue %.3g (%s)' % (nm, v_, R.pt_min, label), rho=rho)
            if okc and c < 2 * R.N - TOL_C:
                out.violation('%s/get_concurrence_2qubit/below_twice_negativity' % site, 'C=%.9g < 2N=%.9g (%s)' % (c, 2 * R.N, label), rho=rho)
        elif R.pt_min >= -1e-13:
            cmax = conc_upper_from_neg(1e-13) + TOL_C
            for nm, ok_, v_, F in (('get_concurrence_2qubit', okc, c, F_id), ('get_eof_2qubit', oke, e, F_eof), ('get_gme_2qubit', okg, g, F_gme)):
                if ok_ and v_ > F(cmax) + TOL_PLAIN:
                    out.violation('%s/%s/nonzero_on_ppt_state' % (site, nm), '%s = %.6g on a state whose partial transpose is positive (min eigenvalue %.3g) (%s)' % (nm, v_, R.pt_min, label), rho=rho)
        else:
            out.count('npt_dead_band')
    out.state()
    return c, e, g, n


def check_lu(nq, out, R, LU, label):
    for name, U in LU:
        rho2 = U @ R.rho @ U.conj().T
        rho2 = (rho2 + rho2.conj().T) / 2
        check_closed(nq, out, R, 'lu', '%s ; conjugated by %s' % (label, name), rho=rho2, with_relations=False)
        out.count('lu_states')


def check_pure(nq, out, psi, t, label, real_too):
    """pure state psi (4-vector, Schmidt angle t known by construction)"""
    E = nq.entangle
    c_ref = float(2 * abs(psi[0] * psi[3] - psi[1] * psi[2]))
    sv = np.linalg.svd(psi.reshape(2, 2), compute_uv=False)
    p = sv ** 2
    e_ref = float(-sum(x * np.log(x) for x in p if x > 0))
    R = Ref([(1.0, psi)])
    if abs(R.C - c_ref) > 1e-13 or abs(c_ref - np.sin(2 * t)) > 1e-13:
        raise RuntimeError('oracle self-check failed: pure state C_ref %r, 2|det| %r, sin 2t %r' % (R.C, c_ref, np.sin(2 * t)))
    variants = [('complex128', psi)]
    if real_too and np.abs(psi.imag).max() == 0:
        variants.append(('float64', psi.real.copy()))
    for dt, v in variants:
        m = v.reshape(2, 2)
        pads = [('2x2', m), ('2x3', np.concatenate([m, np.zeros((2, 1), dtype=m.dtype)], axis=1)), ('3x2', np.concatenate([m, np.zeros((1, 2), dtype=m.dtype)], axis=0))]
        for pn, mm in pads:
            ok, c = call(out, 'pure', 'get_concurrence_pure', lambda mm=mm: E.get_concurrence_pure(mm), psi=mm, state=label)
            if ok and abs(c - c_ref) > TOL_CPURE:
                out.violation('pure/get_concurrence_pure/differs_from_2absdet', 'get_concurrence_pure = %.12g, 2|det psi| = %.12g (%s, %s, %s)' % (c, c_ref, label, dt, pn), psi=mm)
            ok, e = call(out, 'pure', 'get_eof_pure', lambda mm=mm: E.get_eof_pure(mm), psi=mm, state=label)
            if ok and abs(e - e_ref) > TOL_EPURE:
                out.violation('pure/get_eof_pure/differs_from_schmidt_entropy', 'get_eof_pure = %.12g, entropy of the Schmidt weights = %.12g (%s, %s, %s)' % (e, e_ref, label, dt, pn), psi=mm)
            if ok and abs(e - F_eof(c_ref)) > TOL_EPURE + TOL_PLAIN:
                out.violation('pure/get_eof_pure/not_h_of_concurrence', 'get_eof_pure = %.12g, h(C) = %.12g (%s)' % (e, F_eof(c_ref), label), psi=mm)
            for eps_ in EOF_EPS:
                ok, e = call(out, 'pure', 'get_eof_pure[eps]', lambda mm=mm, eps_=eps_: E.get_eof_pure(mm, eps=eps_), psi=mm, eps=eps_, state=label)
                if not ok:
                    continue
                if abs(e - e_ref) > tol_eof_eps(eps_):
                    out.violation('pure/get_eof_pure[eps]/differs_from_schmidt_entropy_by_more_than_eps_log_eps',
                                  'get_eof_pure(eps=%g) = %.12g, entropy of the Schmidt weights = %.12g, allowed %.3g (%s, %s, %s)' % (eps_, e, e_ref, tol_eof_eps(eps_), label, dt, pn), psi=mm, eps=eps_)
                keep = [float(-xlogx(x)) for x in p if x > eps_ + TOL_EIG]
                maybe = [float(-xlogx(x)) for x in p if eps_ - TOL_EIG <= x <= eps_ + TOL_EIG]
                cands = [sum(keep) + sum(sub) for k in range(len(maybe) + 1) for sub in itertools.combinations(maybe, k)]
                if min(abs(e - c_) for c_ in cands) > TOL_EPURE_SHARP:
                    out.violation('pure/get_eof_pure[eps]/not_entropy_of_weights_above_eps',
                                  'get_eof_pure(eps=%g) = %.15g, entropy of the Schmidt weights above eps = %s (weights %s) (%s, %s, %s)' % (eps_, e, cands, p, label, dt, pn), psi=mm, eps=eps_)
                out.count('eof_pure_eps_weight_dropped' if len(keep) < len(p) else 'eof_pure_eps_all_kept')
        rho = np.outer(v, v.conj())
        check_closed(nq, out, R, 'pure', '%s, %s projector' % (label, dt), rho=rho, dim_forms=True)
    return c_ref


# ------------------------------------------------------------------------------------------------ part B: models
MODEL_CONFIGS = [
    ('EOF', {}), ('CONC', {}), ('LE', {'kind': 'convex', 'method': 'polar'}), ('LE', {'kind': 'concave', 'method': 'polar'}),
    ('GME', {'dtype': 'float64'}), ('GME', {'dtype': 'float32'}),
    ('LE', {'kind': 'convex', 'method': 'qr'}), ('LE', {'kind': 'convex', 'method': 'choleskyL'}), ('LE', {'kind': 'convex', 'method': 'euler'}),
    ('LE', {'kind': 'convex', 'method': 'so-exp'}), ('LE', {'kind': 'convex', 'method': 'so-cayley'}),
]


def cfg_name(cfg, dims=(2, 2), cp=1):
    name, opts = MODEL_CONFIGS[cfg]
    opts = dict(opts)
    if tuple(dims) != (2, 2):
        opts['dim'] = '%dx%d' % tuple(dims)
    if cp != 1:
        opts['CPrank'] = cp
    full = {'EOF': 'EntanglementFormationModel', 'CONC': 'ConcurrenceModel', 'LE': 'DensityMatrixLinearEntropyModel', 'GME': 'DensityMatrixGMEModel'}[name]
    if opts:
        full += '[' + ','.join('%s=%s' % kv for kv in sorted(opts.items())) + ']'
    return full


def model_states(env, tier):
    """the declared sub-alphabet of part B: (label, ensemble)"""
    comps = dict(components(env))
    B = dict(bell_states())
    e = np.eye(4, dtype=np.complex128)
    mm = comps['mm']
    S = []
    S.append(('|00>', [(1.0, e[0])]))
    S.append(('generic product', comps['prod48']))
    S.append(('Phi+', [(1.0, B['Phi+'])]))
    S.append(('schmidt(1e-4)', comps['schmidt(1e-4)']))
    S.append(('entangled atom', comps['ent_atom0']))
    S.append(('(|00><00|+|11><11|)/2', [(0.5, e[0]), (0.5, e[3])]))
    S.append(('(Phi+ + Psi-)/2', [(0.5, B['Phi+']), (0.5, B['Psi-'])]))
    S.append(('|00> mixed with Phi+ w=1/2', [(0.5, e[0]), (0.5, B['Phi+'])]))
    S.append(('|00> mixed with Phi+ w=1e-6', [(1 - 1e-6, e[0]), (1e-6, B['Phi+'])]))
    S.append(('(Phi+ + entangled atom)/2', [(0.5, B['Phi+']), (0.5, comps['ent_atom1'][0][1])]))
    S.append(('(Phi+ + |01> + generic product)/3', [(1 / 3, B['Phi+']), (1 / 3, e[1]), (1 / 3, comps['prod48'][0][1])]))
    S.append(('maximally mixed', mm))
    for p in (1 / 3, 0.5, 0.9, 1 - 1e-6):
        S.append(('Werner p=%.9g' % p, ens_mix(mm, [(1.0, B['Psi-'])], p)))
    ng = 1 if tier == 'quick' else 4
    for k in range(ng):
        rng = env.rng('C13', 'fullrank', k)
        w = rng.uniform(0.05, 1, size=4)
        w = w / w.sum()
        S.append(('full-rank atom %d' % k, [(float(w[i]), ref.rand_state(rng, 4)) for i in range(4)]))
    if tier == 'thorough':
        S.append(('Psi+ mixed with |+,+i> w=0.1', ens_mix([(1.0, B['Psi+'])], comps['prod18'], 0.1)))
        S.append(('Werner p=1/3+1e-6', ens_mix(mm, [(1.0, B['Psi-'])], 1 / 3 + 1e-6)))
        S.append(('schmidt(pi/8) mixed with 1/4 w=1e-6', ens_mix(comps['schmidt(pi/8)'], mm, 1e-6)))
    return S


N_MODEL_STATES = {'quick': 17, 'thorough': 23}


def frame_bases(n, r):
    """structured n x r frames of full column rank (special sub-varieties of the Stiefel parametrisation)"""
    eye_first = np.zeros((n, r), dtype=np.complex128)
    eye_first[:r] = np.eye(r)                      # ensemble = the eigen-ensemble itself + (n-r) members of probability zero
    eye_last = np.zeros((n, r), dtype=np.complex128)
    eye_last[n - r:] = np.eye(r)[::-1]
    a = np.arange(n)[:, None]
    k = np.arange(r)[None, :]
    fourier = np.exp(2j * np.pi * a * k / n) / np.sqrt(n)      # every member mixes every eigenvector with equal modulus
    had = np.array([[(-1.0) ** bin(i & j).count('1') for j in range(r)] for i in range(n)], dtype=np.complex128)
    return [('eye_first', eye_first), ('eye_last', eye_last), ('fourier', fourier), ('hadamard', had)]


def pack_frame(M):
    """documented layout of to_stiefel_polar / to_stiefel_qr: theta = [Re M ; Im M] flattened"""
    return np.concatenate([M.real.reshape(-1), M.imag.reshape(-1)])


def theta_lattice(env, tier, method, n, r, npar):
    """list of (label, theta vector for the Stiefel parameter)"""
    G = 2 if tier == 'quick' else 6
    atoms = [env.rng('C13', 'theta', npar, k).normal(size=npar) for k in range(G)]
    ret = []
    s0 = [0.1, 1.0, 10.0] if tier == 'quick' else [1e-3, 0.1, 1.0, 10.0, 100.0]
    if method in ('polar', 'qr'):
        # the orthonormalising charts are scale invariant: every theta != 0 is admissible, including tiny norms
        # (an absolute regularisation of the Gram matrix is only visible there)
        s0 = [1e-14, 1e-8, 1e-5] + s0  # 1e-14: below the default eps (1e-12) of library normalisers such as torch.nn.functional.normalize
    for s in s0:
        for k, g in enumerate(atoms):
            ret.append(('%g*atom%d' % (s, k), s * g))
    if method == 'polar':
        s1 = [0.1, 1.0] if tier == 'quick' else [1e-3, 0.1, 1.0]
        for i, (bn, M) in enumerate(frame_bases(n, r)):
            b = pack_frame(M)
            assert b.shape[0] == npar
            ret.append((bn, b))
            if tier == 'quick':      # quick: one perturbed point per (frame, scale), atoms alternating; thorough: the full product
                pert = [(s, (i + j) % G) for j, s in enumerate(s1)]
            else:
                pert = [(s, k) for s in s1 for k in range(G)]
            for s, k in pert:
                ret.append(('%s+%g*atom%d' % (bn, s, k), b + s * atoms[k]))
    else:
        ret.append(('zero', np.zeros(npar)))
        e0 = np.zeros(npar)
        e0[0] = 1.0
        ret.append(('e0', e0))
        ret.append(('-ones', -np.ones(npar)))
    return ret


def chart_kappa(method, theta, n, r):
    """condition number of the frame that the chart orthonormalises (only used to scale tolerances / to skip ill-conditioned lattice points).
    polar: cond(M)^2 enters M (M^dagger M)^(-1/2); choleskyL: cond of [unit lower triangular ; block] (layout of the docstring); QR (Householder)
    is orthogonal to eps for any frame; euler / so-exp / so-cayley are products of rotations, an exponential or one linear solve with 1-A, whose
    error grows with the norm of the generator: 1+|theta|."""
    npar = theta.shape[0]
    if method == 'polar':
        M = theta[:npar // 2].reshape(n, r) + 1j * theta[npar // 2:].reshape(n, r)
    elif method == 'choleskyL':
        N1 = (r * (r - 1)) // 2
        L = np.eye(r, dtype=np.complex128)
        il = np.tril_indices(r, -1)
        L[il] = theta[:N1] + 1j * theta[N1:2 * N1]
        rest = theta[2 * N1:].reshape(2, n - r, r)
        M = np.concatenate([L, rest[0] + 1j * rest[1]], axis=0)
    elif method == 'qr':
        return 1.0
    else:
        return 1.0 + float(np.linalg.norm(theta))
    sv = np.linalg.svd(M, compute_uv=False)
    return float(sv[0] / sv[-1]) if sv[-1] > 0 else np.inf


QUBIT = [np.array(v, dtype=np.complex128) / np.linalg.norm(v) for v in ([1, 0], [0, 1], [1, 1], [1, -1], [1, 1j], [1, -1j])]
_W3 = np.exp(2j * np.pi / 3)
# local alphabet of a padded (3-level) side: the qubit alphabet embedded in levels 0,1, the unused level |2> and two vectors with equal weight
# on every level (the product states of the GME model may leave the support of the padded state; the bound must hold all the same)
QUTRIT = [np.concatenate([v, [0]]) for v in QUBIT] + [np.array(v, dtype=np.complex128) / np.linalg.norm(v) for v in ([0, 0, 1], [1, 1, 1], [1, _W3, _W3 ** 2])]
LOCAL_ALPHABET = {2: QUBIT, 3: QUTRIT}


def sphere_lattice(env, tier, n, f32=False, dims=(2, 2), cp=1, co_product=False):
    """product-state parameters of the GME model: list of (label, [theta_A (n*cp,2 dA), theta_B (n*cp,2 dB)], theta_coeff (n*cp,) or None) in the
    quotient layout [Re ; Im].  cp = CPrank: member a owns the rows a*cp .. a*cp+cp-1 and (cp>1) the softplus parameters of its cp coefficients"""
    def pk(vs):
        vs = np.stack(vs)
        return np.concatenate([vs.real, vs.imag], axis=1)
    m = n * cp
    LA, LB = LOCAL_ALPHABET[dims[0]], LOCAL_ALPHABET[dims[1]]
    std = tuple(dims) == (2, 2) and cp == 1
    ret = [('cycle', [pk([LA[a % len(LA)] for a in range(m)]), pk([LB[(2 * a + 1) % len(LB)] for a in range(m)])])]
    if not (f32 and tier == 'quick'):
        ret.append(('all|00>', [pk([LA[0]] * m), pk([LB[0]] * m)]))
    if tier == 'thorough':
        ret.append(('cycle2', [3.0 * pk([LA[(a + 4) % len(LA)] for a in range(m)]), 0.01 * pk([LB[(5 * a + 2) % len(LB)] for a in range(m)])]))
    for k in range(1 if (tier == 'quick' or f32) else 2):
        rng = env.rng('C13', 'sphere', n, k) if std else env.rng('C13', 'sphere', n, k, dims[0], dims[1], cp)
        ret.append(('atom%d' % k, [rng.normal(size=(m, 2 * dims[0])), rng.normal(size=(m, 2 * dims[1]))]))
    if cp == 1:
        return [(lb, th, None) for lb, th in ret]
    # coefficient parameters (PositiveReal, softplus): equal coefficients, a ramp over 3 decades, a generic atom.
    # pattern i of the product states is paired with coefficient pattern i; co_product (thorough, 2x2 float64 CPrank=2): the full product
    co = [('ramp', np.linspace(-3.0, 3.0, m)), ('equal', np.zeros(m)), ('catom', 2.0 * env.rng('C13', 'cpcoeff', n, cp).normal(size=m))]
    if not co_product:
        return [('%s,coeff=%s' % (lb, co[i % 3][0]), th, co[i % 3][1]) for i, (lb, th) in enumerate(ret)]
    return [('%s,coeff=%s' % (lb, cl), th, cv) for lb, th in ret for cl, cv in co]


def pad_state(rho, dims):
    """two-qubit operator embedded in levels {0,1} x {0,1} of C^dA (x) C^dB (zero elsewhere)"""
    dA, dB = dims
    if (dA, dB) == (2, 2):
        return rho
    idx = [i * dB + j for i in range(2) for j in range(2)]
    ret = np.zeros((dA * dB, dA * dB), dtype=rho.dtype)
    ret[np.ix_(idx, idx)] = rho
    return ret


def member_terms(psi_t):
    """psi_t: (n,2,2) unnormalised members. returns p (n,), s1, s2 singular values (n,)"""
    sv = np.linalg.svd(psi_t, compute_uv=False)
    return (sv ** 2).sum(axis=1), sv[:, 0], sv[:, 1]


def xlogx(x):
    x = np.asarray(x, dtype=np.float64)
    return np.where(x > 0, x * np.log(np.where(x > 0, x, 1.0)), 0.0)


def run_model_case(nq, out, env, case):
    import torch
    E = nq.entangle
    name, opts = MODEL_CONFIGS[case['cfg']]
    dims = tuple(case.get('dims', (2, 2)))     # (2,2), or the two-qubit state zero-padded into 2x3 / 3x2 (same convex-roof values: every
    dA, dB = dims                              # member of every decomposition lies in the support of rho, i.e. in the 2x2 block)
    D = dA * dB
    cp = case.get('cprank', 1)                 # CPrank of the GME model (cp>1: the members are compared with normalised sums of cp product states)
    mname = cfg_name(case['cfg'], dims, cp)
    label, ens = model_states(env, env.tier)[case['state']]
    R = Ref(ens)
    rho = pad_state(R.rho, dims)
    rank = case['rank']            # 1..4 or None (None = dA*dB)
    r_eff = D if rank is None else rank
    f32 = opts.get('dtype') == 'float32'
    eps = EPS32 if f32 else EPS
    site = 'model/%s' % mname
    method = opts.get('method', 'polar')
    F = {'EOF': F_eof, 'CONC': F_id, 'LE': F_le, 'GME': F_gme}[name]
    closed_ref = F(R.C)
    rdmA = ref.partial_trace(R.rho, [2, 2], [0])
    rdmB = ref.partial_trace(R.rho, [2, 2], [1])
    le_cap = min(1 - np.trace(rdmA @ rdmA).real, 1 - np.trace(rdmB @ rdmB).real)
    # lock-step tolerance: both sides use the same X and sqrt(rho); only the evaluation differs: 1e3 eps, except the concurrence model whose
    # members carry sqrt(2(p^2 - tr rdm^2)) with an absolute error 16 eps p^2 under the root: sum_a p_a sqrt(16 eps) = 6e-8 -> with c: 1e-6
    tol_lock0 = 1e-6 if name == 'CONC' else 1e3 * eps
    n_list = list(range(1, 9)) if r_eff == 1 else list(range(r_eff, 9))
    if env.tier == 'quick':          # quick: the two smallest admissible sizes, one in the middle, the largest; thorough: every size rank..8
        if cp > 1:                   # CPrank>1, quick: the smallest admissible size and 6
            n_list = sorted(set(n_list) & {max(2, r_eff), 6})
        elif dims != (2, 2):         # padded dimensions, quick: the smallest admissible size and the largest
            n_list = sorted(set(n_list) & {1, max(2, r_eff), 8})
        else:
            n_list = sorted(set(n_list) & {1, max(2, r_eff), max(2, r_eff) + 1, 6, 8})
    added = dims != (2, 2) or cp > 1
    if added and env.tier == 'thorough':
        # padded dimensions / CPrank>1, thorough: thorough's states, rank options, product-state patterns; the size set and the theta lattice of quick's 2x2 runs
        n_list = sorted(set(n_list) & {1, max(2, r_eff), max(2, r_eff) + 1, 6, 8})
    lat_tier = 'quick' if added else env.tier
    co_product = env.tier == 'thorough' and dims == (2, 2) and cp == 2 and not f32
    for n in n_list:
        cfgd = dict(model=mname, state=label, rank=rank, num_term=n)
        out.trans()
        try:
            if name == 'EOF':
                model, st = E.EntanglementFormationModel(dA, dB, n, rank=rank), 'manifold'
            elif name == 'CONC':
                model, st = E.ConcurrenceModel(dA, dB, n, rank=rank), 'manifold'
            elif name == 'LE':
                model, st = E.DensityMatrixLinearEntropyModel(dims, n, rank=rank, kind=opts['kind'], method=method), 'manifold_stiefel'
            else:
                kw = {} if cp == 1 else {'CPrank': cp}      # cp == 1 stays the default-argument call
                model, st = E.DensityMatrixGMEModel(dims, n, rank=rank, dtype=opts['dtype'], **kw), 'manifold_stiefel'
        except AssertionError as e:
            if n < 2:
                out.count('rejected_by_precondition[num_term<2: Stiefel requires dim>=2]')
                continue
            out.violation('%s/constructor/raises_AssertionError' % site, 'constructor raised %r for num_term=%d rank=%r' % (e, n, rank), **cfgd)
            continue
        except Exception as e:
            out.violation('%s/constructor/raises_%s' % (site, type(e).__name__), 'constructor raised %r for num_term=%d rank=%r' % (e, n, rank), **cfgd)
            continue
        out.trans()
        try:
            # history: the instance is first used for ANOTHER state (set, evaluate), then re-used for rho. Everything below is
            # recomputed from the instance as it is after the second set_density_matrix, so anything left over from the first
            # state (a cached contraction with the old sqrt(rho) baked in, ...) shows up as a loss that is not the average of
            # the ensemble of rho.
            try:
                v_other = np.array([np.cos(0.3), 0, 0, np.sin(0.3)], dtype=np.complex128)
                model.set_density_matrix(pad_state(np.outer(v_other, v_other.conj()), dims))
                with torch.no_grad():
                    model()
            except Exception:
                out.count('reuse_preamble_failed')
            model.set_density_matrix(rho)
        except AssertionError as e:
            if core.is_precondition_assert(e) and r_eff < R.rank:
                out.count('rejected_by_precondition[rank option below the rank of rho]')
                continue
            out.violation('%s/set_density_matrix/raises_AssertionError' % site, 'set_density_matrix raised on a valid state of rank %d with rank option %r' % (R.rank, rank), rho=rho, **cfgd)
            continue
        except Exception as e:
            out.violation('%s/set_density_matrix/raises_%s' % (site, type(e).__name__), 'set_density_matrix raised %r' % (e,), rho=rho, **cfgd)
            continue
        if r_eff < R.rank:
            out.violation('%s/set_density_matrix/accepts_truncating_rank' % site, 'rank option %r accepted for a state of rank %d: the ensemble cannot reproduce rho' % (rank, R.rank), rho=rho, **cfgd)
        Sq = model._sqrt_rho.detach().numpy().astype(np.complex128).reshape(D, -1)
        d_sq = float(np.abs(Sq @ Sq.conj().T - rho).max())
        if d_sq > 1e3 * eps:
            out.violation('%s/set_density_matrix/sqrt_rho_not_rho' % site, 'the stored eigen-ensemble reproduces rho only to %.3g (rank option %r)' % (d_sq, rank), rho=rho, **cfgd)
            continue
        stief = getattr(model, st)
        npar = int(stief.theta.numel())
        lat = theta_lattice(env, lat_tier, method, n, Sq.shape[1], npar)
        sph = sphere_lattice(env, env.tier, n, f32, dims, cp, co_product) if name == 'GME' else [('-', None, None)]
        for (tl, theta), (sl, sth, cth) in itertools.product(lat, sph):
            det = dict(cfgd, theta_label=tl, theta=theta, rho=rho)
            if sth is not None:
                det.update(sphere_label=sl, theta_A=sth[0], theta_B=sth[1], theta_coeff=cth)
            kappa = chart_kappa(method, theta, n, Sq.shape[1])
            if kappa > (10 if f32 else 1e3):
                out.count('skipped_ill_conditioned')
                continue
            # EOF / concurrence losses are sums of per-member terms.  The linear-entropy and GME losses are written as 1 - sum_a(...), which equals
            # the ensemble average only if sum_a p_a = tr(W X^T X^* W^dagger) = 1: the orthonormality defect of X (eps kappa^2, see chart_kappa)
            # enters those two losses once, un-cancelled  ->  c eps kappa^2 with the same c = 1e3
            tol_lock = tol_lock0 * (max(1.0, kappa ** 2) if name in ('LE', 'GME') else 1.0)
            out.state()
            out.trans()
            try:
                with torch.no_grad():
                    stief.theta.data[...] = torch.tensor(theta, dtype=stief.theta.dtype).reshape(stief.theta.shape)
                    if sth is not None:
                        for mp, th in zip(model.manifold_psi, sth):
                            mp.theta.data[...] = torch.tensor(th, dtype=mp.theta.dtype)
                    if cth is not None:
                        model.manifold_coeff.theta.data[...] = torch.tensor(cth, dtype=model.manifold_coeff.theta.dtype)
                    with np.errstate(all='ignore'):
                        loss = float(model().item())
                        X = stief().detach().numpy().astype(np.complex128)
                        phis = [mp().detach().numpy().astype(np.complex128) for mp in model.manifold_psi] if sth is not None else None
                        craw = model.manifold_coeff().detach().numpy().astype(np.float64).reshape(n, cp) if cth is not None else None
            except Exception as e:
                out.violation('%s/forward/raises_%s' % (site, type(e).__name__), 'forward() raised %r at theta=%s' % (e, tl), **det)
                continue
            # the isometry: polar error ~ eps kappa^2 ; other charts are compositions of rotations / one QR / one Cholesky of a frame of moderate norm
            d_iso = float(np.abs(X.conj().T @ X - np.eye(X.shape[1])).max()) if np.all(np.isfinite(X)) else np.inf
            if not d_iso <= 1e3 * eps * max(1.0, kappa ** 2):
                if method != 'polar' and tl in ('zero', 'e0', '-ones'):
                    out.count('outside_math_domain')   # degenerate frame of a quotient / QR chart
                    continue
                out.violation('%s/forward/stiefel_not_isometry' % site, 'X^dagger X differs from 1 by %.3g at theta=%s (frame condition %.3g)' % (d_iso, tl, kappa), **det)
                continue
            if not np.isfinite(loss):
                out.violation('%s/forward/not_finite' % site, 'forward() = %r at theta=%s' % (loss, tl), **det)
                continue
            psi_t = (Sq @ X.T).T.reshape(n, dA, dB)                 # member a: sum_r X[a,r] sqrt(lambda_r) v_r
            Wm = psi_t.reshape(n, D).T
            rho_e = Wm @ Wm.conj().T
            d_ens = float(np.abs(rho_e - rho).max())
            if d_ens > 1e3 * eps * max(1.0, kappa ** 2) + d_sq:
                out.violation('%s/forward/ensemble_not_a_decomposition_of_rho' % site, 'sum_a |psi_a><psi_a| differs from rho by %.3g at theta=%s' % (d_ens, tl), **det)
                continue
            p, s1, s2 = member_terms(psi_t)
            if int((p < 1e-14).sum()):
                out.count('evaluations_with_zero_probability_members')
            if name == 'EOF':
                avg = float((xlogx(p) - xlogx(s1 ** 2) - xlogx(s2 ** 2)).sum())
            elif name == 'CONC':
                avg = float((2 * s1 * s2).sum())
            elif name == 'LE':
                avg = float(np.where(p > 0, 2 * s1 ** 2 * s2 ** 2 / np.where(p > 0, p, 1.0), 0.0).sum())
            else:
                nphi = max(float(np.abs(np.linalg.norm(ph, axis=1) - 1).max()) for ph in phis)
                if nphi > 1e3 * eps:
                    out.violation('%s/forward/product_vectors_not_normalised' % site, 'local vectors of the product states have norm-1 = %.3g' % nphi, **det)
                    continue
                if cp == 1:
                    phi = np.einsum('ai,aj->aij', phis[0], phis[1])
                    cnorm = None
                else:
                    # CPrank>1 (get_state / forward): member a is compared with phi_a = sum_c k_ac |u_ac>|v_ac> / |sum_c ...|, k_ac > 0 (softplus).
                    # The normalisation divides by |sum_c ...|^2, formed from cp^2 terms of size <= (sum_c k_ac)^2: relative error
                    # eps * kphi with kphi = (sum_c k_ac)^2 / |sum_c ...|^2 >= 1 (cancellation between the product vectors); it enters phi_a,
                    # the overlaps and the loss linearly -> tolerances * kphi.  Points with kphi > 1e3 (phi_a = 0/0 in the limit) are outside.
                    phi = np.einsum('ac,aci,acj->aij', craw, phis[0].reshape(n, cp, dA), phis[1].reshape(n, cp, dB))
                    nrm2 = (np.abs(phi) ** 2).sum(axis=(1, 2))
                    with np.errstate(all='ignore'):
                        kphi = float((craw.sum(axis=1) ** 2 / nrm2).max())
                    if not kphi <= 1e3:
                        out.count('outside_math_domain[CPrank: product vectors cancel]')
                        continue
                    tol_lock = tol_lock * max(1.0, kphi)
                    cnorm = craw / np.sqrt(nrm2)[:, None]
                    phi = phi / np.sqrt(nrm2)[:, None, None]
                ov1 = np.einsum('aij,aij->a', psi_t, phi)
                ov2 = np.einsum('aij,aij->a', psi_t, phi.conj())
                a1, a2 = float(1 - (np.abs(ov1) ** 2).sum()), float(1 - (np.abs(ov2) ** 2).sum())
                # get_state(tag_grad): the documented accessor of the optimised ensemble must hand out exactly what forward() used
                for tg in (False, True):
                    out.trans()
                    try:
                        gs = model.get_state(tag_grad=tg)
                    except Exception as e:
                        out.violation('%s/get_state/raises_%s' % (site, type(e).__name__), 'get_state(tag_grad=%r) raised %r at theta=%s' % (tg, e, tl), **det)
                        continue
                    if not (isinstance(gs, tuple) and len(gs) == (2 if cp == 1 else 3) and len(gs[1]) == 2):
                        out.violation('%s/get_state/wrong_structure' % site, 'get_state(tag_grad=%r) returned %r' % (tg, gs), **det)
                        continue
                    flat = [gs[0]] + list(gs[1]) + ([gs[2]] if cp > 1 else [])
                    if not all(bool(t.requires_grad) == tg for t in flat):
                        out.violation('%s/get_state/grad_flag_ignored' % site, 'get_state(tag_grad=%r) returned tensors with requires_grad=%r' % (tg, [bool(t.requires_grad) for t in flat]), **det)
                    got = [t.detach().numpy().astype(np.complex128) for t in flat]
                    want = [X, phis[0], phis[1]] if cp == 1 else [X, phis[0].reshape(n, cp, dA), phis[1].reshape(n, cp, dB), cnorm.astype(np.complex128)]
                    # same deterministic chart evaluated twice: each evaluation is within the chart's error 1e3 eps kappa^2 of the exact point
                    tols = [1e3 * eps * max(1.0, kappa ** 2), 1e3 * eps, 1e3 * eps] + ([1e3 * eps * max(1.0, kphi)] if cp > 1 else [])
                    for nm, g_, w_, t_ in zip(('matX', 'psi_list[0]', 'psi_list[1]', 'coeff'), got, want, tols):
                        if g_.shape != w_.shape or not float(np.abs(g_ - w_).max()) <= t_:
                            out.violation('%s/get_state/%s_differs_from_forward' % (site, nm.split('[')[0]),
                                          'get_state(tag_grad=%r): %s differs from the value forward() used (shape %s vs %s) at theta=%s' % (tg, nm, g_.shape, w_.shape, tl), observed=g_, expected=w_, **det)
                out.count('get_state_calls', 2)
            if name == 'GME':
                obs = loss
                avg = a1 if abs(loss - a1) <= abs(loss - a2) else a2
                best = float((p - s1 ** 2).sum())                # every member at its own optimal product state
                if cp > 1:
                    # sums of cp product states: the closed form (a minimum over product states) is no bound; what remains is 0 <= loss <= 1
                    if not (-tol_lock <= obs <= 1 + tol_lock):
                        out.violation('%s/forward/loss_outside_unit_interval' % site, 'loss %.12g = 1 - sum_a |<phi_a|psi_a>|^2 outside [0,1] at theta=%s' % (obs, tl), **det)
                    if obs < closed_ref - 1e-6:
                        out.count('cprank_losses_below_closed_form')
                elif obs < best - tol_lock:
                    out.violation('%s/forward/below_ensemble_optimum' % site, 'loss %.12g < sum_a p_a (1 - max overlap^2) = %.12g of its own ensemble at theta=%s' % (obs, best, tl), **det)
            elif name == 'LE' and opts['kind'] == 'concave':
                obs = -loss
            else:
                obs = loss
            if abs(obs - avg) > tol_lock:
                out.violation('%s/forward/loss_differs_from_ensemble_average' % site,
                              'loss %.12g but the average measure of the recomputed ensemble is %.12g (|diff| %.3g > %.3g) at theta=%s' % (obs, avg, abs(obs - avg), tol_lock, tl), **det)
            # never below the closed form.  rho_e is decomposed exactly by the recomputed ensemble; it differs from rho by d_ens and the Wootters
            # lambdas (singular values of sqrt(rho) sqrt(rho~)) are Hoelder-1/2: |C(rho_e) - C(rho)| <= 8 sqrt(d_ens)
            slack_c = 8 * np.sqrt(4 * d_ens)
            lower = F(R.C - slack_c) - tol_lock
            if cp == 1 and obs < lower:
                out.violation('%s/forward/below_closed_form' % site, 'loss %.12g is below the closed form %.12g of the state (C_ref=%.9g) at theta=%s' % (obs, closed_ref, R.C, tl), **det)
            if name == 'LE' and opts['kind'] == 'concave' and obs > le_cap + tol_lock + 4 * d_ens:
                out.violation('%s/forward/above_reduced_state_linear_entropy' % site, 'average linear entropy %.12g of an ensemble exceeds 1 - tr rho_A^2 = %.12g (concavity)' % (obs, le_cap), **det)
            out.trace()
            out.outcome((case['cfg'], dims, cp, case['state'], np.round(obs, 6)), nontrivial=bool(obs > closed_ref + 1e-6) if cp == 1 else bool(obs > 1e-6))
    # the numqi closed form itself on this state (ties part B to what part A verified), once per case
    if case['rank'] is None and dims == (2, 2) and cp == 1:
        check_closed(nq, out, R, 'mix', 'model state %s' % label)
    out.sample = {'kind': 'model', 'model': mname, 'state': label, 'dims': list(dims), 'rank_option': rank, 'C_ref': R.C, 'closed_form_ref': closed_ref}


# ------------------------------------------------------------------------------------------------ cases
def build_cases(tier, seed):
    cases = []
    info = {'weights': WEIGHTS, 'components': N_COMP, 'angles': [float(a) for a in ANGLES]}
    ng = 2 if tier == 'quick' else 4
    nfr = 7 + ng
    for i in range(nfr):
        cases.append({'kind': 'pure', 'frame': i, 'n_generic': ng})
    info['pure_lattice'] = {'frames': nfr, 'angles': len(ANGLES), 'states': nfr * nfr * len(ANGLES), 'embeddings': ['2x2', '2x3', '3x2']}
    for fam in ('bell_diagonal', 'werner_line', 'structured'):
        cases.append({'kind': 'family', 'family': fam})
    # maximally entangled states in every local frame of an Euler-angle grid: C = 1 exactly, so every rounding direction of the
    # closed forms at the upper end of their range is exercised (C = 1 + 1ulp must not make E_F / GME NaN)
    for b in range(4):
        for ia in range(8):
            cases.append({'kind': 'family', 'family': 'bell_lu_grid', 'bell': b, 'ia': ia})
    info['bell_lu_grid'] = '4 Bell states x (8x8x8 Euler grid on qubit A) x (4x4 grid on qubit B) = 32768 maximally entangled states'
    depth = 2 if tier == 'quick' else 3
    for i in range(N_COMP):
        cases.append({'kind': 'search', 'init': i, 'depth': depth})
    info['search'] = {'depth': depth,
                      'level1': 'all %d components x weights %s; local unitaries: all 15 non-trivial {1,H,S,g}x{1,H,S,g} at depth 0 (thorough: also depth 1), quick depth 1: {Hx1, 1xS, g0xg1, HxS, Sxg1, g0xH}' % (N_COMP, WEIGHTS),
                      'level2': 'quick: below the w in {1/2, 1e-6} states of level 1, every 6th component with w=1/2; thorough: below every level-1 state, all components with w in {1/2, 1e-6}, local unitaries on the (1/2,1/2) states of every 4th component',
                      'level3': 'thorough only: below (w1=1/2, w2=1/2) states, every 10th component with w=1/2'}
    ns = N_MODEL_STATES[tier]
    for s in range(ns):
        for cfg in range(len(MODEL_CONFIGS)):
            for rank in ((None, 3, 2, 1) if tier == 'quick' else (None, 4, 3, 2, 1)):
                cases.append({'kind': 'model', 'state': s, 'cfg': cfg, 'rank': rank})
    # padded dimensions (the dimA>dimB / dimA<dimB contraction branches) and CPrank>1 of the GME model
    PAD_CFG = {'quick': [0, 1, 2, 3, 4], 'thorough': [0, 1, 2, 3, 4, 5, 6]}[tier]
    pad_ranks = (None, 3, 2, 1)
    for dims in ((2, 3), (3, 2)):
        for s in range(ns):
            for cfg in PAD_CFG:
                for rank in pad_ranks:
                    cases.append({'kind': 'model', 'state': s, 'cfg': cfg, 'rank': rank, 'dims': list(dims)})
    cp_list = [(4, (2, 2), 2), (4, (2, 2), 3)] + ([(5, (2, 2), 2), (4, (3, 2), 2)] if tier == 'thorough' else [])
    cp_ranks = (None, 2) if tier == 'quick' else (None, 3, 2, 1)
    for cfg, dims, cp in cp_list:
        for s in range(ns):
            for rank in cp_ranks:
                cases.append({'kind': 'model', 'state': s, 'cfg': cfg, 'rank': rank, 'dims': list(dims), 'cprank': cp})
    info['models_padded'] = {'dims': ['2x3', '3x2'], 'num_term': 'quick: {max(rank,2), 8}; thorough: {max(rank,2), max(rank,2)+1, 6, 8}', 'theta_lattice': 'the quick lattice in both tiers', 'configs': [cfg_name(i) for i in PAD_CFG], 'rank_options': list(pad_ranks), 'note': 'two-qubit state zero-padded; rank None = 6'}
    info['models_cprank'] = {'configs': [cfg_name(c, d, k) for c, d, k in cp_list], 'rank_options': list(cp_ranks),
                             'coefficients': 'softplus parameters {ramp -3..3, equal, generic atom} paired with the product-state patterns (thorough, 2x2 float64 CPrank=2: full product)',
                             'num_term': 'quick: {max(rank,2), 6}; thorough: {max(rank,2), max(rank,2)+1, 6, 8}', 'theta_lattice': 'the quick lattice in both tiers'}
    info['models'] = {'states': ns, 'configs': [cfg_name(i) for i in range(len(MODEL_CONFIGS))], 'rank_options': [None, 3, 2, 1] if tier == 'quick' else [None, 4, 3, 2, 1],
                      'num_term': ('{1 (rank 1 only; rejected by Stiefel), max(rank,2), max(rank,2)+1, 6, 8}' if tier == 'quick' else 'every size rank..8 (1 only for rank 1; rejected by Stiefel)'),
                      'theta_lattice': 'polar: {s*atom_k} + {frame, frame + s*atom_k : frame in eye_first, eye_last, fourier, hadamard} (quick: one atom per (frame, scale)); other charts: {s*atom_k, zero, e0, -ones}; GME: x product-state patterns {cycle, all|00>, atom} (float32 quick: cycle, atom; thorough adds cycle2 and a second atom)',
                      'scales': [0.1, 1, 10] if tier == 'quick' else [1e-3, 0.1, 1, 10, 100], 'tiny_scales_polar_qr': [1e-14, 1e-8, 1e-5], 'atoms': 2 if tier == 'quick' else 6}
    info['tolerances'] = {'TOL_C': TOL_C, 'TOL_CPURE': TOL_CPURE, 'TOL_EPURE': TOL_EPURE, 'TOL_PLAIN': TOL_PLAIN, 'TOL_GREL': TOL_GREL, 'TOL_NEG': TOL_NEG}
    info['exhaustive'] = True
    info['note'] = 'exhaustive within the stated alphabets, weights, depth and lattice bounds; says nothing about states or parameters off the lattice'
    return cases, info


def run_case(case, out, env):
    import numqi
    kind = case['kind']
    if kind == 'pure':
        frames = local_frames(env, case['n_generic'])
        n1, F1, real1 = frames[case['frame']]
        for (n2, F2, real2), t in itertools.product(frames, ANGLES):
            base = np.zeros(4, dtype=np.complex128)
            base[0], base[3] = np.cos(t), np.sin(t)
            psi = np.kron(F1, F2) @ base
            c = check_pure(numqi, out, psi, t, 'pure (%s x %s)(cos t|00>+sin t|11>), t=%.17g' % (n1, n2, t), real1 and real2)
            out.outcome(('pure', n1, n2, round(float(t), 12)), nontrivial=bool(c > TOL_C))
        out.trace()
        out.sample = {'kind': 'pure', 'frame': n1, 'states': len(frames) * len(ANGLES)}
    elif kind == 'family':
        fam = case['family']
        B = [v for _, v in bell_states()]
        comps = components(env)
        mm = dict(comps)['mm']
        if fam == 'bell_diagonal':
            # all weight vectors (a,b,c,d)/8 : exact concurrence max(0, 2 p_max - 1)
            for w in itertools.product(range(9), repeat=4):
                if sum(w) != 8:
                    continue
                ens = [(wi / 8, v) for wi, v in zip(w, B) if wi > 0]
                R = Ref(ens)
                exact = max(0.0, 2 * max(w) / 8 - 1)
                if abs(R.C - exact) > 1e-13:
                    raise RuntimeError('oracle self-check failed: Bell-diagonal %s C_ref=%r exact=%r' % (w, R.C, exact))
                c, e, g, n = check_closed(numqi, out, R, 'family', 'Bell-diagonal weights %s/8' % (w,), dim_forms=True)
                out.outcome(('bd', w, None if c is None else round(c, 7)), nontrivial=bool(exact > 0 and max(w) < 8))
        elif fam == 'werner_line':
            third = 1 / 3
            ps = [0.0, 0.1, third - 1e-3, third - 1e-6, third - 1e-9, third, third + 1e-9, third + 1e-6, third + 1e-3, 0.5, 0.9, 1 - 1e-6, 1 - 1e-9, 1.0]
            for bi, v in enumerate(B):
                for p in ps:
                    ens = ens_mix(mm, [(1.0, v)], p)
                    ens = [(w_, v_) for w_, v_ in ens if w_ > 0]
                    R = Ref(ens)
                    exact = max(0.0, (3 * p - 1) / 2)
                    if abs(R.C - exact) > 1e-13:
                        raise RuntimeError('oracle self-check failed: Werner p=%r C_ref=%r exact=%r' % (p, R.C, exact))
                    lab = 'p*Bell%d + (1-p)/4, p=%.17g' % (bi, p)
                    c, e, g, n = check_closed(numqi, out, R, 'family', lab, dim_forms=True)
                    check_lu(numqi, out, R, local_unitaries(env), lab)
                    out.outcome(('werner', bi, p, None if c is None else round(c, 7)), nontrivial=bool(exact > 0 and p < 1))
        else:
            n = len(comps) - 1  # pure components
            for stride in (1, 3, 7, 11, 13):
                for nterm in range(1, 9):
                    idx = [(stride * t + nterm) % n for t in range(nterm)]
                    ens = [(1.0 / nterm, comps[i][1][0][1]) for i in idx]
                    R = Ref(ens)
                    c, e, g, nn = check_closed(numqi, out, R, 'family', 'equal mixture of components %s' % idx, dim_forms=True)
                    out.outcome(('eq', stride, nterm), nontrivial=bool(R.C > TOL_C and R.rank > 1))
            eye = np.eye(4, dtype=np.complex128)
            for nb in range(1, 5):
                pr = (np.arange(nb) + 1.0)
                pr /= pr.sum()
                R = Ref([(float(pr[i]), eye[i]) for i in range(nb)])
                check_closed(numqi, out, R, 'family', 'diagonal rank %d' % nb)
                check_closed(numqi, out, R, 'family', 'diagonal rank %d (float64 dtype)' % nb, rho=R.rho.real.copy())
            for eps_ in (1e-6, 1e-3):
                vs = []
                for sgn in (1, -1):
                    u = eye[0][:2] + sgn * eps_ * eye[1][:2]
                    u = u / np.linalg.norm(u)
                    vs.append(np.kron(u, u))
                R = Ref([(0.5, vs[0]), (0.5, vs[1])])
                check_closed(numqi, out, R, 'family', 'nearly parallel product vectors eps=%g' % eps_)
            # real symmetric entangled state handed over as float64
            s = 1 / np.sqrt(2)
            R = Ref([(0.7, np.array([s, 0, 0, s], dtype=np.complex128)), (0.3, eye[1])])
            check_closed(numqi, out, R, 'family', '0.7 Phi+ + 0.3 |01><01| (float64 dtype)', rho=R.rho.real.copy())
            out.outcome(('real', round(R.C, 7)), nontrivial=True)
        if fam == 'bell_lu_grid':
            def su2(a, b_, g):
                return np.array([[np.cos(b_ / 2) * np.exp(-0.5j * (a + g)), -np.sin(b_ / 2) * np.exp(-0.5j * (a - g))],
                                 [np.sin(b_ / 2) * np.exp(0.5j * (a - g)), np.cos(b_ / 2) * np.exp(0.5j * (a + g))]])
            v0 = B[case['bell']]
            a = 2 * np.pi * (case['ia'] + 0.31) / 8
            for ib in range(8):
                for ig in range(8):
                    UA = su2(a, np.pi * (ib + 0.47) / 8, 2 * np.pi * (ig + 0.13) / 8)
                    for jb in range(4):
                        for jg in range(4):
                            UB = su2(0.0, np.pi * (jb + 0.29) / 4, 2 * np.pi * (jg + 0.71) / 4)
                            v = np.kron(UA, UB) @ v0
                            R = Ref([(1.0, v / np.linalg.norm(v))])
                            check_closed(numqi, out, R, 'family', 'Bell state %d in local frame (ia=%d,ib=%d,ig=%d; jb=%d,jg=%d)' % (case['bell'], case['ia'], ib, ig, jb, jg))
            out.outcome(('bell_lu_grid', case['bell'], case['ia']), nontrivial=True)
        out.trace()
        out.sample = {'kind': 'family', 'family': fam}
    elif kind == 'search':
        comps = components(env)
        LU = local_unitaries(env)
        thorough = env.tier == 'thorough'
        seen = set()
        nC = len(comps)

        def visit(ens, label, lu):
            rho = ens_rho(ens)
            k = c05.skey(rho)
            if k in seen:
                out.count('merged_states')
                return False
            seen.add(k)
            R = Ref(ens)
            c, e, g, n = check_closed(numqi, out, R, 'mix', label)
            if lu:
                check_lu(numqi, out, R, lu, label)
            out.outcome((None if c is None else round(c, 7), None if n is None else round(n, 7), R.rank), nontrivial=bool(R.rank >= 2 and R.C > TOL_C))
            out.count('states_rank%d' % R.rank)
            if R.C > TOL_C:
                out.count('states_entangled')
            elif R.pt_min >= -1e-13:
                out.count('states_ppt')
            return True
        i0 = case['init']
        l0 = 'init=%s' % comps[i0][0]
        visit(comps[i0][1], l0, LU)
        lvl2 = list(range(nC)) if thorough else list(range(0, nC, 6))
        w2 = [0.5, 1e-6] if thorough else [0.5]
        LU1 = LU if thorough else [LU[i] for i in (3, 1, 14, 5, 10, 12)]   # quick, depth 1: Hx1, 1xS, g0xg1, HxS, Sxg1, g0xH
        for j in range(nC):
            for w in WEIGHTS:
                e1 = ens_mix(comps[i0][1], comps[j][1], w)
                l1 = '%s;mix(%s,%g)' % (l0, comps[j][0], w)
                new = visit(e1, l1, LU1)
                if not (new and case['depth'] >= 2) or not (thorough or w != 0.1):
                    continue
                for j2 in lvl2:
                    for wb in w2:
                        e2 = ens_mix(e1, comps[j2][1], wb)
                        l2 = '%s;mix(%s,%g)' % (l1, comps[j2][0], wb)
                        new2 = visit(e2, l2, LU if (thorough and wb == 0.5 and w == 0.5 and j2 % 4 == 0) else None)
                        if new2 and case['depth'] >= 3 and w == 0.5 and wb == 0.5:
                            for j3 in range(0, nC, 10):
                                visit(ens_mix(e2, comps[j3][1], 0.5), '%s;mix(%s,0.5)' % (l2, comps[j3][0]), None)
        out.trace()
        out.sample = {'kind': 'search', 'init': comps[i0][0], 'depth': case['depth'], 'distinct_states': len(seen)}
    elif kind == 'model':
        run_model_case(numqi, out, env, case)
    else:
        raise ValueError(kind)
