"""C01 - every trivialisation lands on its manifold (DESIGN.md section 4 / C01).

Mode P: the product  map x dim x rank x field x backend x precision  is enumerated completely up to the dimension bound;
for every configuration the whole finite theta lattice (pattern x scale, section 2.4) is evaluated
  * as one batched call of shape (K,n), * as a 2-d batch (K/2,2,n), * point by point with shape (n,), * with shape (1,n),
each result is tested with independent float64 membership predicates, and the four evaluations must agree.
Every nn.Module class is constructed for every option combination and compared with the functional map on module.theta.
"""
import itertools
import math

import numpy as np

from mc import core

PROPERTY = 'C01'
GUARD = ['numqi.manifold']  # argument-immutability oracle (mc.seams.ImmutabilityGuard)
GUARD_LAYOUT = ['numqi.manifold']  # memory-layout oracle: every depth-0 call is repeated with Fortran-ordered / re-strided theta batches
LEVEL = 'model_checking'
RULE = ('state = (map, dim, rank, field, backend, precision, theta lattice point); transition = one call of the real trivialisation '
        '(batched, 2-d batched, per-sample, or through the nn.Module) checked with the membership predicates of its manifold and '
        'against the other batch shapes; the configuration product and the lattice are enumerated completely; '
        'non-trivial = distinct rounded outputs. Further coordinates: rank=None / omitted rank (bit-identical to rank=dim), integer-dtype '
        'theta at the integer-valued lattice points (equal to the float call where the dtype is accepted), dim 1 for '
        'symmetric_matrix_to_trace1PSD; modules: batch_size in {None,1,3}, rank=None, real-dtype SeparableDensityMatrix, '
        'DiscreteProbability weights as ndarray / integer ndarray / torch tensor, QuantumChannel(dim_in=1); per module configuration: '
        'parameter dtype and count against the dimension table, output dtype == requested dtype, forward() repeatable and theta '
        'untouched, QuantumChannel kraus/choi == Stiefel chart of manifold.theta; memory-layout oracle (GUARD_LAYOUT) on every depth-0 call')
ASSUMPTIONS = [
    'float64 numpy predicates (norm, eigvalsh, svd, det) decide membership; tolerance 1e3*eps(dtype)*kappa with kappa computed from theta independently (DESIGN 3.2)',
    'lattice statement only: nothing is claimed for parameter values off the pattern x scale lattice',
    'points outside the mathematical domain of a quotient/orthonormalisation (zero block, rank-deficient frame) are counted, not checked',
    'the dimension table Spec.nparam (written from the manifold dimensions in DESIGN 4, not from the constructors) is the reference for the parameter counts',
    'integer-dtype theta: a dtype the library refuses (assert / torch RuntimeError) is counted, not a finding; torch promotes integers to float32, so the comparison uses eps of the returned dtype',
    'quick tier: batch_size=1 at 64 bit only (channels: default choi_rank, dim_out=2), dim_in=1 channels with choi_rank in {None,2}, forward() repeated on the first 3 parameter groups, channel-vs-Stiefel on every 4th group; thorough: full configuration product, 12 groups, every 2nd group',
    'empty batches (0,n) are outside the stated space',
    'float32: scale capped at 40 for maps that exponentiate (IEEE range); a case whose tolerance would exceed 1e-2 is counted as skipped_ill_conditioned',
]

C = 1e3  # safety constant of DESIGN 3.2
# additions whose oracle fires on the unchanged tree (reported, waiting for the repair of numqi); the oracle stays in the module:
#  weight_torch_int: DiscreteProbability(weight=<integer torch.Tensor>) computes 1/weight in float32 (torch promotes int -> default
#                    float dtype) and then casts to the module dtype: sum_i w_i x_i = 1 holds only to 3e-8 for a float64 module
PENDING = set()  # weight_torch_int was repaired in numqi (efd5fa3, known_findings.json)
EPS = {64: np.finfo(np.float64).eps, 32: np.finfo(np.float32).eps}


# ------------------------------------------------------------------------------------------------ lattice
def _chirp(n):
    k = np.arange(n)
    return np.sin(1.0 + 1.7 * k + 0.3 * k * k)


def theta_lattice(n, bound, rng, n_generic, f32_exp_cap=None, f32_onesided=False):
    """finite pattern x scale lattice in R^n (DESIGN 2.4), K even. Returns (K,n) float64 array."""
    pats = []
    if n <= 4:
        for p in itertools.product([-1.0, 0.0, 1.0], repeat=n):
            if any(p):
                pats.append(np.array(p))
    else:
        eye = np.eye(n)
        for i in range(n):
            pats.append(eye[i])
            pats.append(-eye[i])
        for i in range(n - 1):
            pats.append(eye[i] + eye[i + 1])
            pats.append(-(eye[i] + eye[i + 1]))
        pats.append(np.ones(n))
        pats.append(-np.ones(n))
        alt = (-1.0) ** np.arange(n)
        pats.append(alt)
        pats.append(-alt)
    pats.append(np.zeros(n))  # the zero vector: admissible for every map that is not a quotient / orthonormalisation (kappa = inf there)
    pats.append((np.arange(n) + 1.0) / n)  # ramp
    ch = _chirp(n)
    pats.append(ch)
    pats.append(-ch)
    # shifted one-hots: every block of a block-structured parameter vector is non-zero and frames have full rank
    for i in range(min(n, 12)):
        e = np.zeros(n)
        e[i] = 1.0
        pats.append(0.5 * ch + e)
    for _ in range(n_generic):
        v = rng.normal(size=n)
        pats.append(v / np.abs(v).max())
    pats = np.stack(pats)
    scales = [1e-14, 1e-9, 1e-6, 1e-3, 0.5, 1.0, 2.0, 10.0, bound]  # 1e-14 (below the default eps 1e-12 of library normalisers), 1e-9, 1e-6: scale-invariant maps (quotients, orthonormalisations) at tiny norms
    if f32_exp_cap is not None:
        scales = sorted({min(s, f32_exp_cap) for s in scales})
    scales = sorted(set(scales))
    pts = np.concatenate([pats * s for s in scales if s <= bound + 1e-12], axis=0)
    if f32_exp_cap is not None and f32_onesided and bound > f32_exp_cap:
        # softplus-type maps in float32: only the NEGATIVE side underflows beyond the cap (softplus(-x)^2 leaves the IEEE range);
        # the positive side is exact up to the stated bound (softplus(x) = x + O(exp(-x))), so it stays in the lattice
        pts = np.concatenate([pts, np.clip(pats * bound, -f32_exp_cap, bound)], axis=0)
    if len(pts) % 2:
        pts = pts[:-1]
    return pts


# ------------------------------------------------------------------------------------------------ predicates (float64)
def herm(M):
    return M.conj().swapaxes(-1, -2)


def maxabs(x, axes):
    return np.abs(x).max(axis=axes) if x.size else np.zeros(x.shape[0])


def gram_err(X):
    G = herm(X) @ X
    return maxabs(G - np.eye(X.shape[-1]), (1, 2))


def psd_checks(M, rank, tol):
    """returns dict name -> boolean array (True = ok) for Hermitian, trace one, PSD, rank<=r"""
    K = M.shape[0]
    ok = {}
    ok['hermitian'] = maxabs(M - herm(M), (1, 2)) <= tol
    ok['trace_one'] = np.abs(np.trace(M, axis1=1, axis2=2) - 1) <= tol * M.shape[-1]
    Mh = (M + herm(M)) / 2
    ev = np.linalg.eigvalsh(Mh)
    ok['psd'] = ev[:, 0] >= -tol
    if rank is not None:
        ok['rank'] = (ev > tol[:, None]).sum(axis=1) <= rank
    return ok


# ------------------------------------------------------------------------------------------------ map table
class Spec:
    bound = 100.0
    exp_type = False     # float32 scale cap 40
    has_rank = False
    fields = ('real', 'complex')
    min_dim = 2
    extra = [{}]         # further option coordinates

    def nparam(self, c):
        raise NotImplementedError

    def call(self, nq, th, c):
        raise NotImplementedError

    def kappa(self, th, c):
        return np.ones(len(th))

    def member(self, X, th, c, tol):
        raise NotImplementedError

    def out_shape(self, c):
        raise NotImplementedError


class PositiveRealSpec(Spec):
    fields = ('real',)
    exp_type = True
    extra = [{'method': 'softplus'}, {'method': 'exp'}]

    def nparam(self, c):
        return c['dim']

    def out_shape(self, c):
        return (c['dim'],)

    def call(self, nq, th, c):
        f = nq.manifold.to_positive_real_softplus if c['method'] == 'softplus' else nq.manifold.to_positive_real_exp
        return f(th)

    def member(self, X, th, c, tol):
        return {'positive': (X > 0).all(axis=1) & np.isreal(X).all(axis=1)}


class OpenIntervalSpec(Spec):
    fields = ('real',)
    extra = [{'lower': 0.0, 'upper': 1.0}, {'lower': -2.5, 'upper': 3.0}, {'lower': 1e-3, 'upper': 2e-3}, {'lower': -7.0, 'upper': -1.0}]

    def nparam(self, c):
        return c['dim']

    def out_shape(self, c):
        return (c['dim'],)

    def call(self, nq, th, c):
        return nq.manifold.to_open_interval(th, c['lower'], c['upper'])

    def member(self, X, th, c, tol):
        lo, up = c['lower'], c['upper']
        slack = 4 * EPS[c['prec']] * max(abs(lo), abs(up))  # rounding of sigmoid*(up-lo)+lo
        inside = ((X >= lo - slack) & (X <= up + slack)).all(axis=1)
        # strict interior is observable only while the sigmoid is not saturated: |theta| <= 10
        small = np.abs(th) <= 10
        strict = (((X > lo) & (X < up)) | ~small).all(axis=1)
        return {'inside': inside, 'strictly_inside': strict}


class BallSpec(Spec):
    def nparam(self, c):
        return c['dim'] * (1 if c['field'] == 'real' else 2)

    def out_shape(self, c):
        return (c['dim'],)

    def call(self, nq, th, c):
        return nq.manifold.to_ball(th, c['field'] == 'real')

    def member(self, X, th, c, tol):
        return {'norm_below_one': np.linalg.norm(X, axis=1) < 1}


class SphereSpec(Spec):
    extra = [{'method': 'quotient'}, {'method': 'coordinate'}]

    def nparam(self, c):
        m = c['dim'] * (1 if c['field'] == 'real' else 2)
        return m if c['method'] == 'quotient' else m - 1

    def out_shape(self, c):
        return (c['dim'],)

    def call(self, nq, th, c):
        f = nq.manifold.to_sphere_quotient if c['method'] == 'quotient' else nq.manifold.to_sphere_coordinate
        return f(th, c['field'] == 'real')

    def kappa(self, th, c):
        k = np.full(len(th), float(th.shape[1]))
        if c['method'] == 'quotient':
            k[np.linalg.norm(th, axis=1) == 0] = np.inf  # 0/|0|: outside the domain of the quotient map
        return k

    def member(self, X, th, c, tol):
        return {'unit_norm': np.abs(np.linalg.norm(X, axis=1) - 1) <= tol}


class SimplexSpec(Spec):
    fields = ('real',)
    extra = [{'method': 'softmax'}, {'method': 'sphere'}]

    def nparam(self, c):
        return c['dim']

    def out_shape(self, c):
        return (c['dim'],)

    def call(self, nq, th, c):
        f = nq.manifold.to_discrete_probability_softmax if c['method'] == 'softmax' else nq.manifold.to_discrete_probability_sphere
        return f(th)

    def kappa(self, th, c):
        k = np.full(len(th), float(th.shape[1]))
        if c['method'] == 'sphere':
            k[np.linalg.norm(th, axis=1) == 0] = np.inf
        return k

    def member(self, X, th, c, tol):
        return {'nonnegative': (X >= 0).all(axis=1) & np.isreal(X).all(axis=1), 'sums_to_one': np.abs(X.sum(axis=1) - 1) <= tol}


class Trace1PSDSpec(Spec):
    has_rank = True
    exp_type = True
    extra = [{'method': 'cholesky'}, {'method': 'ensemble'}]

    def nparam(self, c):
        d, r = c['dim'], c['rank']
        real = c['field'] == 'real'
        if c['method'] == 'cholesky':
            N0 = (r * (2 * d - r + 1)) // 2
            return N0 if real else 2 * N0 - r
        return (r + d * r) if real else (r + 2 * d * r)

    def out_shape(self, c):
        return (c['dim'], c['dim'])

    def call(self, nq, th, c):
        f = nq.manifold.to_trace1_psd_cholesky if c['method'] == 'cholesky' else nq.manifold.to_trace1_psd_ensemble
        return f(th, c['dim'], c['rank'])

    def alt_calls(self, nq, c):
        """other argument forms of the same point: rank=None and the omitted rank are documented to mean rank=dim"""
        if c['rank'] != c['dim']:
            return []
        f = nq.manifold.to_trace1_psd_cholesky if c['method'] == 'cholesky' else nq.manifold.to_trace1_psd_ensemble
        return [('rank_none', lambda th: f(th, c['dim'], None)), ('rank_omitted', lambda th: f(th, c['dim'])), ('rank_keyword_none', lambda th: f(th, dim=c['dim'], rank=None))]

    def kappa(self, th, c):
        k = np.full(len(th), float(c['dim']))
        if c['method'] == 'ensemble':
            r = c['rank']
            blocks = th[:, r:].reshape(len(th), r, -1)
            k[np.linalg.norm(blocks, axis=2).min(axis=1) < 1e-30] = np.inf  # a zero psi block: 0/0, outside the domain
        return k

    def member(self, X, th, c, tol):
        ok = psd_checks(X, c['rank'], tol)
        if c['field'] == 'real':
            ok['real'] = maxabs(X.imag, (1, 2)) == 0
        return ok


class SymmetricSpec(Spec):
    extra = [{'trace0': a, 'norm1': b} for a in (False, True) for b in (False, True)]

    def nparam(self, c):
        d = c['dim']
        n = (d * (d + 1)) // 2 if c['field'] == 'real' else d * d
        return n - (1 if c['trace0'] else 0)

    def out_shape(self, c):
        return (c['dim'], c['dim'])

    def call(self, nq, th, c):
        return nq.manifold.to_symmetric_matrix(th, c['dim'], is_trace0=c['trace0'], is_norm1=c['norm1'])

    def kappa(self, th, c):
        k = np.full(len(th), float(c['dim']))
        if c['norm1']:
            k[np.linalg.norm(th, axis=1) == 0] = np.inf  # the zero matrix cannot be normalised
        return k

    def member(self, X, th, c, tol):
        scale = np.maximum(1.0, maxabs(X, (1, 2)))
        ok = {'hermitian': maxabs(X - herm(X), (1, 2)) <= tol * scale}
        if c['field'] == 'real':
            ok['real'] = maxabs(X.imag, (1, 2)) == 0
        if c['trace0']:
            ok['trace_zero'] = np.abs(np.trace(X, axis1=1, axis2=2)) <= tol * scale
        if c['norm1']:
            ok['unit_frobenius_norm'] = np.abs(np.linalg.norm(X, axis=(1, 2)) - 1) <= tol
        return ok


class SpecialOrthogonalSpec(Spec):
    extra = [{'method': 'exp'}, {'method': 'cayley', 'order': 1}, {'method': 'cayley', 'order': 2}, {'method': 'cayley', 'order': 3}]

    def nparam(self, c):
        d = c['dim']
        return d * (d - 1) // 2 if c['field'] == 'real' else d * d - 1

    def out_shape(self, c):
        return (c['dim'], c['dim'])

    def call(self, nq, th, c):
        if c['method'] == 'exp':
            return nq.manifold.to_special_orthogonal_exp(th, c['dim'])
        return nq.manifold.to_special_orthogonal_cayley(th, c['dim'], c['order'])

    def kappa(self, th, c):
        a = np.sqrt(2) * np.linalg.norm(th, axis=1)  # Frobenius norm of the generator: Tr G_i G_j = 2 delta_ij
        if c['method'] == 'exp':
            return c['dim'] * (1 + a)          # scaling-and-squaring: error ~ eps*||A||
        return c['dim'] * c['order'] * (1 + a) ** 2  # cond(1+A)*||1-A|| <= (1+||A||)^2

    def member(self, X, th, c, tol):
        ok = {'unitary': gram_err(X) <= tol}
        if c['field'] == 'real':
            ok['real'] = maxabs(X.imag, (1, 2)) == 0
        # det = 1: exponential map always; Cayley only for the real construction (complex Cayley lands in U(d))
        if c['method'] == 'exp' or c['field'] == 'real':
            ok['det_one'] = np.abs(np.linalg.det(X) - 1) <= tol * c['dim']
        return ok


class StiefelSpec(Spec):
    has_rank = True
    extra = [{'method': m} for m in ('choleskyL', 'qr', 'polar', 'so-exp', 'so-cayley')] + [{'method': 'euler', 'phase': False}, {'method': 'euler', 'phase': True}]

    def bound_of(self, c):
        return 10.0 if c['method'] == 'choleskyL' else 100.0

    def nparam(self, c):
        d, r = c['dim'], c['rank']
        real = c['field'] == 'real'
        m = c['method']
        if m in ('qr', 'polar'):
            return d * r * (1 if real else 2)
        if m == 'choleskyL':
            return (d * r - (r * (r + 1)) // 2) * (1 if real else 2)
        if m in ('so-exp', 'so-cayley'):
            return d * (d - 1) // 2 if real else d * d - 1
        N0 = d * r - r * (r + 1) // 2
        if real:
            return N0
        return 2 * N0 + r if c['phase'] else 2 * N0

    def out_shape(self, c):
        return (c['dim'], c['rank'])

    def call(self, nq, th, c):
        m = c['method']
        d, r = c['dim'], c['rank']
        if m == 'choleskyL':
            return nq.manifold.to_stiefel_choleskyL(th, d, r)
        if m == 'qr':
            return nq.manifold.to_stiefel_qr(th, d, r)
        if m == 'polar':
            return nq.manifold.to_stiefel_polar(th, d, r)
        if m == 'so-exp':
            return nq.manifold.to_special_orthogonal_exp(th, d)[..., :r]
        if m == 'so-cayley':
            return nq.manifold.to_special_orthogonal_cayley(th, d)[..., :r]
        return nq.manifold.to_stiefel_euler(th, d, r, c['phase'])

    def kappa(self, th, c):
        m = c['method']
        d, r = c['dim'], c['rank']
        K = len(th)
        if m == 'qr':
            # Householder QR: orthogonality independent of conditioning, but a rank-deficient frame is outside the domain of the
            # orthonormalisation (DESIGN 3.3; Q is not unique there, and torch's complex64 QR returns NaN for a rank-1 6x6 frame at scale 1e-6)
            if c['field'] == 'real':
                F = th.reshape(K, d, r)
            else:
                t = th.reshape(K, 2, d, r)
                F = t[:, 0] + 1j * t[:, 1]
            sv = np.linalg.svd(F, compute_uv=False)
            k = np.full(K, float(d))
            with np.errstate(divide='ignore', invalid='ignore'):
                k[~(sv[:, -1] / sv[:, 0] > 1e-6)] = np.inf
            return k
        if m == 'euler':
            return np.full(K, float(th.shape[1] + 1))
        a = np.sqrt(2) * np.linalg.norm(th, axis=1)
        if m == 'so-exp':
            return d * (1 + a)
        if m == 'so-cayley':
            return d * 2 * (1 + a) ** 2
        if m == 'polar':
            # frame as documented: theta reshaped to (dim,rank), complex: (2,dim,rank) -> re + i im
            if c['field'] == 'real':
                F = th.reshape(K, d, r)
            else:
                t = th.reshape(K, 2, d, r)
                F = t[:, 0] + 1j * t[:, 1]
            s = np.linalg.svd(F, compute_uv=False)
            with np.errstate(divide='ignore'):
                k = (s[:, 0] / s[:, -1]) ** 2
            k[~np.isfinite(k)] = np.inf
            k[k > 1e12] = np.inf  # numerically rank-deficient frame: outside the domain of the polar map
            return k
        # choleskyL: frame = [unit lower-triangular (r x r) ; free block], always of full column rank.
        # rigorous bound from theta alone: ||F|| <= sqrt(r)+||theta||, sigma_min(F) >= 1/||L^-1|| >= (1+max|theta|)^-(r-1)
        s = np.abs(th).max(axis=1)
        return ((np.sqrt(r) + np.linalg.norm(th, axis=1)) * (1 + s) ** (r - 1)) ** 2

    def member(self, X, th, c, tol):
        ok = {'orthonormal_columns': gram_err(X) <= tol}
        if c['field'] == 'real':
            ok['real'] = maxabs(X.imag, (1, 2)) == 0
        return ok


class Sym2PSDSpec(Spec):
    """symmetric_matrix_to_trace1PSD: theta parametrises the Hermitian input matrix (built by the harness)"""
    bound = 30.0  # exp(-2*30*...) stays far above underflow relative to the unit trace

    def nparam(self, c):
        d = c['dim']
        return d * (d + 1) // 2 if c['field'] == 'real' else d * d

    def out_shape(self, c):
        return (c['dim'], c['dim'])

    @staticmethod
    def build(th, c, xp):
        d = c['dim']
        K = th.shape[0] if th.ndim > 1 else None
        t = th.reshape(-1, th.shape[-1])
        iu = np.triu_indices(d)
        nU = len(iu[0])
        if xp is np:
            A = np.zeros((t.shape[0], d, d), dtype=np.complex128 if c['field'] == 'complex' else t.dtype)
            A[:, iu[0], iu[1]] = t[:, :nU]
            if c['field'] == 'complex':
                il = np.triu_indices(d, 1)
                B = np.zeros((t.shape[0], d, d), dtype=np.complex128)
                B[:, il[0], il[1]] = 1j * t[:, nU:]
                A = A + B
                if t.dtype == np.float32:
                    A = A.astype(np.complex64)
            A = A + A.conj().transpose(0, 2, 1)
        else:
            import torch
            cd = {torch.float32: torch.complex64, torch.float64: torch.complex128}[t.dtype]
            A = torch.zeros(t.shape[0], d, d, dtype=cd if c['field'] == 'complex' else t.dtype)
            A[:, iu[0], iu[1]] = t[:, :nU].to(A.dtype)
            if c['field'] == 'complex':
                il = np.triu_indices(d, 1)
                A[:, il[0], il[1]] = A[:, il[0], il[1]] + 1j * t[:, nU:].to(cd)
            A = A + A.conj().transpose(1, 2)
        return A.reshape(th.shape[:-1] + (d, d))

    def call(self, nq, th, c):
        import torch
        A = self.build(th, c, torch if isinstance(th, torch.Tensor) else np)
        return nq.manifold.symmetric_matrix_to_trace1PSD(A)

    def kappa(self, th, c):
        return c['dim'] * (1 + 4 * np.linalg.norm(th, axis=1))

    def member(self, X, th, c, tol):
        ok = psd_checks(X, None, tol)
        return ok


SPECS = {
    'positive_real': PositiveRealSpec(), 'open_interval': OpenIntervalSpec(), 'ball': BallSpec(), 'sphere': SphereSpec(),
    'simplex': SimplexSpec(), 'trace1psd': Trace1PSDSpec(), 'symmetric': SymmetricSpec(), 'special_orthogonal': SpecialOrthogonalSpec(),
    'stiefel': StiefelSpec(), 'sym_to_psd': Sym2PSDSpec(),
}


def spec_bound(spec, c):
    return spec.bound_of(c) if hasattr(spec, 'bound_of') else spec.bound


def cfg_key(c):
    skip = {'kind', 'backend', 'prec'}
    return ','.join('%s=%s' % (k, c[k]) for k in sorted(c) if k not in skip)


def to_np64(x):
    if hasattr(x, 'detach'):
        x = x.detach().cpu().numpy()
    x = np.asarray(x)
    return x.astype(np.complex128) if np.iscomplexobj(x) else x.astype(np.float64)


def make_theta(pts, c):
    th = pts.astype(np.float32 if c['prec'] == 32 else np.float64)
    if c['backend'] == 'torch':
        import torch
        th = torch.tensor(th)
    return th


def build_cases(tier, seed):
    dims = [2, 3, 4] if tier == 'quick' else [2, 3, 4, 5, 6]
    cases = []
    for name, spec in SPECS.items():
        dlist = dims if name != 'sym_to_psd' else ([1, 2, 3, 5, 6] if tier == 'quick' else [1, 2, 3, 4, 5, 6, 7])  # 1: the N1==1 branch (returns ones)
        for dim in dlist:
            ranks = range(1, dim + 1) if spec.has_rank else [None]
            for rank in ranks:
                for field in spec.fields:
                    for ex in spec.extra:
                        for backend in ('numpy', 'torch'):
                            for prec in (64, 32):
                                c = {'kind': 'func', 'map': name, 'dim': dim, 'field': field, 'backend': backend, 'prec': prec}
                                if rank is not None:
                                    c['rank'] = rank
                                c.update(ex)
                                cases.append(c)
    # nn.Module wrappers (torch only): every class x option combination
    for c in module_configs(dims if tier == 'thorough' else [2, 3], audit=True):
        if tier == 'quick' and not quick_keeps(c):
            continue
        cases.append(c)
    # permutation-symmetric Hermitian manifolds on A (x) B^k (manifold/_ABk.py)
    for dA, dB, k in ((1, 2, 2), (2, 2, 1), (2, 2, 2), (2, 2, 3), (2, 3, 2), (3, 2, 2), (2, 2, 4)) + (((3, 3, 2), (2, 3, 3)) if tier == 'thorough' else ()):
        for cls in ('ABkHermitian', 'ABk2localHermitian'):
            for prec in (64, 32):
                cases.append({'kind': 'abk', 'cls': cls, 'dim': dA, 'dimB': dB, 'k': k, 'prec': prec})
    cases.sort(key=lambda c: (c['dim'], c.get('rank') or 0, c['kind']))
    info = {'dims': dims, 'generic_atoms_per_config': 2 if tier == 'quick' else 6, 'scales': [1e-14, 1e-9, 1e-6, 1e-3, 0.5, 1, 2, 10, 'bound'],
            'batch_shapes': ['(K,)', '(K/2,2)', '()', '(1,)'], 'module_batch_sizes': [None, 1, 3], 'theta_dtypes': ['float', 'int64 (integer lattice points, 64 bit)'],
            'memory_layouts': ['C', 'Fortran / re-strided (GUARD_LAYOUT)'], 'pending': sorted(PENDING), 'exhaustive': True,
            'note': 'the configuration product up to the dimension bound and the theta lattice of each configuration are enumerated completely'}
    return cases, info


# ------------------------------------------------------------------------------------------------ functional maps
def run_func(case, out, env):
    import numqi
    import torch
    c = case
    spec = SPECS[c['map']]
    n = spec.nparam(c)
    G = 2 if env.tier == 'quick' else 6
    cap = 40.0 if (c['prec'] == 32 and spec.exp_type) else None
    pts = theta_lattice(n, spec_bound(spec, c), env.rng('C01', c['map'], n), G, cap, f32_onesided=c.get('method') in ('softplus', 'cholesky'))
    # points outside the mathematical domain of the map (zero block of a quotient, rank-deficient frame) are not fed in
    kap0 = spec.kappa(to_np64(make_theta(pts, c)), c)
    out.count('outside_math_domain', int((~np.isfinite(kap0)).sum()))
    # beyond the stated conditioning bound (tolerance would exceed 1e-2; e.g. choleskyL frames whose Gram matrix is numerically
    # singular, where numpy's cholesky raises): counted, not fed in (a batched call would fail as a whole)
    ill = np.isfinite(kap0) & (C * EPS[c['prec']] * kap0 > 1e-2)
    out.count('skipped_ill_conditioned', int(ill.sum()))
    pts = pts[np.isfinite(kap0) & ~ill]
    if len(pts) % 2:
        pts = pts[:-1]
    K = len(pts)
    if K == 0:
        out.count('empty_domain_config')
        return
    eps = EPS[c['prec']]
    site = 'func/%s' % c['map']
    ck = cfg_key(c)
    th = make_theta(pts, c)
    pts_used = to_np64(th)  # the values the map really saw (float32 rounding included)
    kap = spec.kappa(pts_used, c)
    tol = C * eps * kap
    in_dom = np.isfinite(kap)
    decided = in_dom & (tol <= 1e-2)
    out.count('skipped_ill_conditioned', int((in_dom & ~decided).sum()))
    tol = np.where(decided, tol, 1.0)
    oshape = spec.out_shape(c)

    def fail(cls, what, **kw):
        kk = ','.join('%s=%s' % (k, c[k]) for k in ('method', 'field', 'phase') if k in c)
        out.violation('%s/%s/%s' % (site, cls, kk),
                      '%s [%s backend=%s prec=%d]: %s' % (c['map'], ck, c['backend'], c['prec'], what), config=c, **kw)

    # ---- (K,) batch
    try:
        with np.errstate(all='ignore'):
            Xb = spec.call(numqi, th, c)
        out.trans()
    except Exception as e:
        if core.is_precondition_assert(e):
            out.count('rejected_by_precondition')
            return
        fail('batched_call_raises_%s' % type(e).__name__, 'batched call with shape (%d,%d) raised %r' % (K, n, e))
        Xb = None
    X = None
    if Xb is not None:
        if c['backend'] == 'torch' and not isinstance(Xb, torch.Tensor):
            fail('backend_changed', 'torch input gave a %s' % type(Xb).__name__)
        X = to_np64(Xb)
        if X.shape != (K,) + oshape:
            fail('wrong_shape', 'batched output shape %s, expected %s' % (X.shape, (K,) + oshape))
            X = None
    if X is not None:
        # ---- output field: a complex array exactly for the complex field (a real-field map must not hand out complex numbers with
        # zero imaginary part, and the complex maps must not drop to real); the precision of the output is not part of the statement
        is_c = Xb.is_complex() if isinstance(Xb, torch.Tensor) else np.iscomplexobj(Xb)
        if bool(is_c) != (c['field'] == 'complex'):
            fail('output_field', 'field=%s but the result has dtype %s' % (c['field'], Xb.dtype))
        # ---- other documented argument forms of the same call (rank=None == rank=dim): same code path, same bits
        for tag, fn in (spec.alt_calls(numqi, c) if hasattr(spec, 'alt_calls') else []):
            try:
                with np.errstate(all='ignore'):
                    Xa = to_np64(fn(th))
                out.trans()
            except Exception as e:
                fail('%s_raises_%s' % (tag, type(e).__name__), 'argument form %s raised %r' % (tag, e))
                continue
            if Xa.shape != X.shape or not np.array_equal(Xa, X, equal_nan=True):
                fail('%s_differs_from_rank_dim' % tag, 'argument form %s gives a result different from rank=dim (shape %s, max diff %.3g)'
                     % (tag, Xa.shape, np.nanmax(np.abs(Xa - X)) if Xa.shape == X.shape else np.inf))
        Xm = X.reshape(K, -1) if len(oshape) == 1 else X
        finite = np.isfinite(X.reshape(K, -1)).all(axis=1)
        bad = np.nonzero(in_dom & ~finite)[0]
        if len(bad):
            fail('not_finite', 'NaN/Inf at lattice point %s' % pts_used[bad[0]].tolist(), theta=pts_used[bad[0]])
        sel = decided & finite
        if sel.any():
            with np.errstate(all='ignore'):
                ok = spec.member(Xm[sel], pts_used[sel], c, tol[sel])
            idx = np.nonzero(sel)[0]
            for name, flags in ok.items():
                flags = np.asarray(flags)
                if not flags.all():
                    j = idx[int(np.argmin(flags))]
                    fail('not_on_manifold:' + name, 'constraint "%s" fails at theta=%s (scale %.3g), %d of %d lattice points'
                         % (name, np.round(pts_used[j], 4).tolist(), np.abs(pts_used[j]).max(), int((~flags).sum()), int(sel.sum())),
                         theta=pts_used[j], output=X[j])
        out.state(int(sel.sum()))
        for j in np.nonzero(sel)[0][:: max(1, K // 64)]:
            out.outcome((c['map'], ck, np.round(X[j], 5)), nontrivial=True)
    # ---- integer-valued lattice points handed over with an integer dtype (64 bit configurations; theta of sym_to_psd is the harness's
    # own parametrisation of the matrix argument, not a library argument). Where the library accepts the dtype, the result must be the
    # one of the same numbers as floats, to the precision of the dtype it returns (torch promotes integers to float32).
    if X is not None and c['prec'] == 64 and c['map'] != 'sym_to_psd':
        rows = np.nonzero(decided & (pts_used == np.round(pts_used)).all(axis=1) & np.isfinite(X.reshape(K, -1)).all(axis=1))[0]
        if len(rows):
            ti = pts_used[rows].astype(np.int64)
            if c['backend'] == 'torch':
                ti = torch.tensor(ti)
            try:
                with np.errstate(all='ignore'):
                    Xf = to_np64(spec.call(numqi, make_theta(pts_used[rows] + 0.0, c), c))  # the same numbers as floats (+0.0: an integer has no negative zero, and the sign convention of QR looks at it)
                    Xi_raw = spec.call(numqi, ti, c)
                Xi = to_np64(Xi_raw)
            except Exception as e:
                out.count('rejected_by_precondition[int_theta]' if core.is_precondition_assert(e) else 'int_theta_not_accepted[%s]' % type(e).__name__)
                Xi = None
            if Xi is not None:
                out.trans()
                p32 = str(Xi_raw.dtype).split('.')[-1] in ('float32', 'complex64')
                toli = tol[rows] * (EPS[32] / EPS[64] if p32 else 1.0)
                if p32 and spec.exp_type:
                    toli = np.where(np.abs(pts_used[rows]).max(axis=1) <= 40.0, toli, 1.0)  # float32 result: the float32 scale cap of exponentiating maps applies
                if Xi.shape != (len(rows),) + oshape:
                    fail('int_theta_wrong_shape', 'integer theta of shape %s gave shape %s' % (ti.shape, Xi.shape))
                else:
                    d = np.abs(Xi - Xf).reshape(len(rows), -1).max(axis=1)
                    bad = np.nonzero((toli <= 1e-2) & ~(d <= 10 * toli))[0]
                    if len(bad):
                        fail('int_theta_differs_from_float_theta', 'integer-dtype theta=%s gives a result that differs by %.3g from the same numbers as floats (result dtype %s)'
                             % (pts_used[rows[bad[0]]].tolist(), d[bad[0]], Xi_raw.dtype), theta=pts_used[rows[bad[0]]])
                    out.count('int_theta_points_compared', int((toli <= 1e-2).sum()))
    # ---- (K/2,2) batch
    th2 = th.reshape(K // 2, 2, n)
    try:
        with np.errstate(all='ignore'):
            X2 = spec.call(numqi, th2, c)
        out.trans()
        X2 = to_np64(X2)
        if X2.shape != (K // 2, 2) + oshape:
            fail('wrong_shape_2d_batch', '2-d batch (%d,2,%d) gave shape %s, expected %s' % (K // 2, n, X2.shape, (K // 2, 2) + oshape))
        elif X is not None:
            d = np.abs(X2.reshape(X.shape) - X).reshape(K, -1).max(axis=1)
            bad = np.nonzero(decided & np.isfinite(d) & (d > 10 * tol))[0]
            if len(bad):
                fail('batch2d_differs', '2-d batched call differs from the 1-d batched call by %.3g at theta=%s' % (d[bad[0]], pts_used[bad[0]].tolist()), theta=pts_used[bad[0]])
    except Exception as e:
        if core.is_precondition_assert(e):
            out.count('rejected_by_precondition[2d_batch]')
        else:
            fail('batch2d_raises_%s' % type(e).__name__, '2-d batched call raised %r' % (e,))
    # ---- () per sample, and (1,)
    n_single = K if env.tier == 'thorough' else min(K, 160)
    stride = max(1, K // n_single)
    for j in range(0, K, stride):
        for shape_tag in ('()', '(1,)'):
            if shape_tag == '(1,)' and j >= 8 * stride:
                continue
            tj = th[j] if shape_tag == '()' else th[j:j + 1]
            try:
                with np.errstate(all='ignore'):
                    Xj = to_np64(spec.call(numqi, tj, c))
                out.trans()
            except Exception as e:
                if core.is_precondition_assert(e):
                    out.count('rejected_by_precondition[%s]' % shape_tag)
                    break
                fail('single%s_raises_%s' % (shape_tag, type(e).__name__), 'call with batch shape %s raised %r at theta=%s' % (shape_tag, e, pts_used[j].tolist()), theta=pts_used[j])
                break
            exp_shape = oshape if shape_tag == '()' else (1,) + oshape
            if Xj.shape != exp_shape:
                fail('wrong_shape_single%s' % shape_tag, 'batch shape %s gave output shape %s, expected %s' % (shape_tag, Xj.shape, exp_shape))
                break
            if X is not None and decided[j]:
                d = np.abs(Xj.reshape(oshape) - X[j]).max()
                if np.isfinite(X[j]).all() and not (d <= 10 * tol[j]):
                    fail('batched_differs_from_single%s' % shape_tag, 'batched result differs from the per-sample call by %.3g at theta=%s' % (d, pts_used[j].tolist()), theta=pts_used[j])
                    break
    out.trace()
    out.sample = {'config': c, 'lattice_points': K, 'first_points': pts[:3].tolist()}


# ------------------------------------------------------------------------------------------------ nn.Module wrappers
def module_configs(dims, audit=False):
    """audit=False: the configuration list that C02 imports (unchanged). audit=True (C01's own enumeration) adds the coordinates of
    the coverage audit: batch_size=1, rank=None (documented default = dim), SeparableDensityMatrix with a real dtype,
    DiscreteProbability(weight=torch.Tensor), and QuantumChannel(dim_in=1) (state preparations; every other class asserts dim>=2)."""
    import itertools as it
    cs = []
    batches = (None, 1, 3) if audit else (None, 3)

    def channels(d):
        # channels: dim plays the role of dim_in
        for prec in (64, 32):
            for bs in batches:
                for dout in (1, 2, 3):
                    for cr in (None, 1, 2):
                        crr = d * dout if cr is None else cr
                        if crr * dout < max(2, d):
                            continue  # no such channel: a complete Kraus set needs choi_rank*dim_out >= dim_in (Stiefel needs dim>=2)
                        for m in ('choleskyL', 'qr', 'polar', 'so-exp', 'so-cayley', 'euler'):
                            for ph in ((False, True) if m == 'euler' else (False,)):
                                for rk in ('kraus', 'choi'):
                                    cs.append({'kind': 'module', 'cls': 'QuantumChannel', 'dim': d, 'prec': prec, 'batch': bs, 'dim_out': dout,
                                               'choi_rank': cr, 'method': m, 'phase': ph, 'return_kind': rk, 'field': 'complex'})

    for d in dims:
        for prec in (64, 32):
            for bs in batches:
                base = {'kind': 'module', 'dim': d, 'prec': prec, 'batch': bs}
                for m in ('softplus', 'exp'):
                    cs.append(dict(base, cls='PositiveReal', method=m, field='real'))
                cs.append(dict(base, cls='OpenInterval', field='real', lower=-2.5, upper=3.0))
                for f in ('real', 'complex'):
                    cs.append(dict(base, cls='Ball', field=f))
                    for m in ('quotient', 'coordinate'):
                        cs.append(dict(base, cls='Sphere', field=f, method=m))
                    for a, b in it.product((False, True), repeat=2):
                        cs.append(dict(base, cls='SymmetricMatrix', field=f, trace0=a, norm1=b))
                    for m, o in (('exp', 2), ('cayley', 1), ('cayley', 2), ('cayley', 3)):
                        cs.append(dict(base, cls='SpecialOrthogonal', field=f, method=m, order=o))
                    for r in range(1, d + 1):
                        for m in ('cholesky', 'ensemble'):
                            cs.append(dict(base, cls='Trace1PSD', field=f, method=m, rank=r))
                        for m in ('choleskyL', 'qr', 'polar', 'so-exp', 'so-cayley', 'euler'):
                            for ph in ((False, True) if (m == 'euler' and f == 'complex') else (False,)):
                                cs.append(dict(base, cls='Stiefel', field=f, method=m, rank=r, phase=ph))
                    if audit:
                        for m in ('cholesky', 'ensemble'):
                            cs.append(dict(base, cls='Trace1PSD', field=f, method=m, rank=None))
                for m in ('softmax', 'sphere'):
                    for w in (False, True, 'int') + (('torch', 'torch_int') if audit else ()):
                        cs.append(dict(base, cls='DiscreteProbability', field='real', method=m, weight=w))
                # composed
                for m in ('quotient', 'coordinate'):
                    cs.append(dict(base, cls='quantum_state', field='complex', method=m))
                for r in list(range(1, d + 1)) + ([None] if audit else []):
                    for m in ('cholesky', 'ensemble'):
                        cs.append(dict(base, cls='density_matrix', field='complex', method=m, rank=r))
                for m, o in (('exp', 2), ('cayley', 2)):
                    cs.append(dict(base, cls='quantum_gate', field='complex', method=m, order=o))
                for dB in (2, 3):
                    for nc in (None, 2, 3):  # num_cha=1 is inadmissible: every numqi simplex/sphere manifold asserts dim>=2
                        for f in ('complex', 'real') if audit else ('complex',):
                            cs.append(dict(base, cls='SeparableDensityMatrix', field=f, dimB=dB, num_cha=nc))
        channels(d)
    if audit and 1 not in dims:
        channels(1)  # dim_in=1
    return cs


def quick_keeps(c):
    """quick tier: the audit coordinates batch_size=1 and dim_in=1 are enumerated on a sub-lattice of the other option coordinates
    (the thorough tier enumerates the full product): batch_size=1 at 64 bit only, for channels only with the default choi_rank and
    dim_out=2; dim_in=1 channels with choi_rank in {None, 2}."""
    ch = c['cls'] == 'QuantumChannel'
    if c['batch'] == 1 and (c['prec'] != 64 or (ch and not (c['choi_rank'] is None and c['dim_out'] == 2))):
        return False
    if ch and c['dim'] == 1 and c['choi_rank'] == 1:
        return False
    return True


def torch_dtype(c):
    import torch
    return {('real', 64): torch.float64, ('real', 32): torch.float32, ('complex', 64): torch.complex128, ('complex', 32): torch.complex64}[(c['field'], c['prec'])]


def build_module(nq, c):
    """returns (module, functional reference fn(theta_np)->np or None, membership fn(X np)->dict, param modules list)"""
    M = nq.manifold
    dt = torch_dtype(c)
    d, bs = c['dim'], c['batch']
    cls = c['cls']
    fc = dict(c)
    fc['backend'] = 'torch'
    if 'rank' in fc and fc['rank'] is None:
        fc['rank'] = d  # documented default: rank=None means full rank; the functional reference is called with rank=dim
    if cls == 'PositiveReal':
        mod = M.PositiveReal(bs, c['method'], dtype=dt)
        return mod, ('positive_real', dict(fc, dim=1 if bs is None else bs)), None
    if cls == 'OpenInterval':
        mod = M.OpenInterval(c['lower'], c['upper'], bs, dtype=dt)
        return mod, None, None
    if cls == 'Ball':
        return M.Ball(d, bs, dtype=dt), ('ball', fc), None
    if cls in ('Sphere', 'quantum_state'):
        mod = M.Sphere(d, bs, c['method'], dtype=dt) if cls == 'Sphere' else M.quantum_state(d, bs, c['method'], dtype=dt)
        return mod, ('sphere', fc), None
    if cls == 'SymmetricMatrix':
        return M.SymmetricMatrix(d, bs, is_trace0=c['trace0'], is_norm1=c['norm1'], dtype=dt), ('symmetric', fc), None
    if cls in ('SpecialOrthogonal', 'quantum_gate'):
        f = M.SpecialOrthogonal if cls == 'SpecialOrthogonal' else M.quantum_gate
        return f(d, bs, c['method'], c['order'], dtype=dt), ('special_orthogonal', fc), None
    if cls in ('Trace1PSD', 'density_matrix'):
        f = M.Trace1PSD if cls == 'Trace1PSD' else M.density_matrix
        return f(d, c['rank'], bs, method=c['method'], dtype=dt), ('trace1psd', fc), None
    if cls == 'Stiefel':
        return M.Stiefel(d, c['rank'], bs, method=c['method'], euler_with_phase=c['phase'], dtype=dt), ('stiefel', fc), None
    if cls == 'DiscreteProbability':
        w = None if not c['weight'] else (np.arange(1, d + 1) if c['weight'] in ('int', 'torch_int') else (np.arange(d) + 1.0) / 2)  # 'int': integer dtype weights (multiplicities)
        warg = w
        if c['weight'] in ('torch', 'torch_int'):  # docstring: weight (np.ndarray,torch.Tensor); 'torch': tensor of the module's own dtype
            import torch
            warg = torch.tensor(w, dtype=torch.int64 if c['weight'] == 'torch_int' else dt)
        return M.DiscreteProbability(d, bs, c['method'], weight=warg, dtype=dt), ('simplex', fc), w
    if cls == 'SeparableDensityMatrix':
        return M.SeparableDensityMatrix(d, c['dimB'], c['num_cha'], bs, dtype=dt), None, None
    if cls == 'QuantumChannel':
        return M.QuantumChannel(d, c['dim_out'], c['choi_rank'], bs, method=c['method'], euler_with_phase=c['phase'], return_kind=c['return_kind'], dtype=dt), None, None
    raise ValueError(cls)


def expected_nparam(c, fref):
    """number of real parameters the constructor must allocate, from the dimension table (Spec.nparam) and the configuration
    alone - nothing is read from the module (DESIGN 4 / C01: 'parameter count == manifold chart dimension')"""
    bs = c['batch']
    nb = 1 if bs is None else bs
    cls = c['cls']
    if cls in ('PositiveReal', 'OpenInterval'):
        return nb  # one number per sample
    if cls == 'SeparableDensityMatrix':
        nc = 2 * c['dim'] * c['dimB'] if c['num_cha'] is None else c['num_cha']
        f = 1 if c['field'] == 'real' else 2
        return nb * (nc + nc * f * c['dim'] + nc * f * c['dimB'])
    if cls == 'QuantumChannel':
        cr = c['dim'] * c['dim_out'] if c['choi_rank'] is None else c['choi_rank']
        sc = {'method': c['method'], 'dim': cr * c['dim_out'], 'rank': c['dim'], 'field': 'complex', 'phase': c['phase']}
        return nb * SPECS['stiefel'].nparam(sc)
    return nb * SPECS[fref[0]].nparam(fref[1])


def expected_out_dtype(c):
    import torch
    if c['cls'] in ('PositiveReal', 'OpenInterval', 'DiscreteProbability') or c['field'] == 'real':
        return torch.float32 if c['prec'] == 32 else torch.float64
    return torch.complex64 if c['prec'] == 32 else torch.complex128


def run_module(case, out, env):
    import numqi
    import torch
    c = case
    eps = EPS[c['prec']]
    site = 'module/%s' % c['cls']
    skip = {'kind', 'prec', 'dim'}
    ck = ','.join('%s=%s' % (k, c[k]) for k in sorted(c) if k not in skip)

    def fail(cls_, what, **kw):
        kk = ','.join('%s=%s' % (k, c[k]) for k in ('method', 'field', 'phase', 'return_kind') if k in c)
        out.violation('%s/%s/%s' % (site, cls_, kk), '%s(dim=%d,%s,prec=%d): %s' % (c['cls'], c['dim'], ck, c['prec'], what), config=c, **kw)

    if c.get('weight') == 'torch_int' and 'weight_torch_int' in PENDING:
        out.count('pending/weight_torch_int')
        out.state()
        out.trans()
        return
    try:
        mod, fref, extra = build_module(numqi, c)
    except Exception as e:
        if core.is_precondition_assert(e):
            out.count('rejected_by_precondition')
            out.state()
            out.trans()
            return
        fail('constructor_raises_%s' % type(e).__name__, 'constructor raised %r' % (e,))
        out.state()
        out.trans()
        return
    params = [p for p in mod.parameters()]
    sizes = [p.numel() for p in params]
    n = sum(sizes)
    bs = c['batch']
    nb = 1 if bs is None else bs
    # ---- constructor against the dimension table: parameters are real numbers of the requested precision, and there are exactly
    # Spec.nparam of them per sample (a constructor that mistakes complex64 for a real dtype builds a *consistent* real manifold:
    # module == function and membership both hold, only the count and the output field tell)
    real_dt = torch.float32 if c['prec'] == 32 else torch.float64
    if any(p.dtype != real_dt for p in params):
        fail('parameter_dtype', 'parameter dtypes %s, expected %s' % ([str(p.dtype) for p in params], real_dt))
        return
    n_exp = expected_nparam(c, fref)
    out.check(n == n_exp, '%s/parameter_count_differs_from_dimension_table/%s' % (site, ','.join('%s=%s' % (k, c[k]) for k in ('method', 'field', 'phase') if k in c)),
              '%s(dim=%d,%s,prec=%d): constructor allocates %d parameters, the dimension table gives %d' % (c['cls'], c['dim'], ck, c['prec'], n, n_exp), config=c)
    if n != n_exp:
        return
    out_dt = expected_out_dtype(c)
    # lattice over the concatenated parameter vector of ONE sample; a batch takes consecutive lattice points
    nper = n // nb
    G = 2 if env.tier == 'quick' else 6
    bound = 10.0 if c.get('method') == 'choleskyL' else 100.0
    cap = 40.0 if c['prec'] == 32 and (c['cls'] in ('PositiveReal', 'Trace1PSD', 'density_matrix', 'SeparableDensityMatrix')) else None
    if c['cls'] in ('SeparableDensityMatrix',):
        bound = 40.0
    pts = theta_lattice(nper, bound, env.rng('C01m', c['cls'], nper), G, cap)
    if fref is not None:
        k0 = SPECS[fref[0]].kappa(pts, fref[1])
        pts = pts[np.isfinite(k0) & (C * eps * k0 <= 1e-2)]  # in the domain and within the stated conditioning bound
    elif c['cls'] == 'QuantumChannel':
        sc_ = {'method': c['method'], 'dim': mod.choi_rank * c['dim_out'], 'rank': c['dim'], 'field': 'complex', 'phase': c['phase']}
        k0 = SPECS['stiefel'].kappa(pts, sc_)
        pts = pts[np.isfinite(k0) & (C * eps * k0 <= 1e-2)]
    elif c['cls'] == 'SeparableDensityMatrix':
        nc_ = mod.num_cha
        dA_, dB_ = c['dim'], c['dimB']
        f_ = 1 if c['field'] == 'real' else 2
        blkA = pts[:, nc_:nc_ + nc_ * f_ * dA_].reshape(len(pts), nc_, -1)
        blkB = pts[:, nc_ + nc_ * f_ * dA_:].reshape(len(pts), nc_, -1)
        good = (np.linalg.norm(blkA, axis=2).min(axis=1) > 0) & (np.linalg.norm(blkB, axis=2).min(axis=1) > 0)
        pts = pts[good]
    maxpts = 60 if env.tier == 'quick' else 240
    sel_pts = pts[:: max(1, len(pts) // maxpts)]
    groups = [None] + [sel_pts[i:i + nb] for i in range(0, len(sel_pts) - nb + 1, nb)]
    n_repeat = 3 if env.tier == 'quick' else 12  # leading groups (initial theta + lattice) on which forward() is evaluated twice
    ref_stride = 4 if env.tier == 'quick' else 2  # QuantumChannel: every ref_stride-th group is compared with the Stiefel chart (one more library call)
    for gi, g in enumerate(groups):
        if g is not None:
            # distribute a sample's parameter vector over the module's parameter tensors, sample-major
            off = 0
            with torch.no_grad():
                for p in params:
                    m = p.numel() // nb
                    vals = np.stack([row[off:off + m] for row in g])  # (nb, m)
                    p.copy_(torch.tensor(vals.reshape(p.shape), dtype=p.dtype))
                    off += m
        out.state()
        snap = [p.detach().clone() for p in params]  # bitwise copy of theta before the call
        try:
            with np.errstate(all='ignore'):
                Y = mod()
            out.trans()
        except Exception as e:
            fail('forward_raises_%s' % type(e).__name__, 'forward() raised %r (theta %s)' % (e, 'initial' if g is None else 'lattice'))
            return
        Yn = to_np64(Y)
        if not np.isfinite(Yn).all():
            # domain: zero psi block etc. cannot occur for the shifted lattice / initial values except through overflow
            fail('not_finite', 'forward() returned NaN/Inf', theta=None if g is None else g)
            return
        out.outcome((c['cls'], ck, np.round(Yn, 5)), nontrivial=True)
        # ---- output field / precision: the dtype the constructor was asked for (real dtype -> real manifold, 32 bit stays 32 bit)
        if Y.dtype != out_dt:
            fail('output_dtype', 'forward() returns dtype %s, the module was constructed for %s' % (Y.dtype, out_dt))
            return
        # ---- forward() is a function of theta: a second call on unchanged parameters gives the same bits and leaves theta alone
        if any(not torch.equal(p.detach(), q) for p, q in zip(params, snap)):
            fail('forward_modifies_theta', 'forward() changed the module parameters')
            return
        Y2 = Y
        if gi < n_repeat:
            with np.errstate(all='ignore'):
                Y2 = mod()
            out.trans()
            if any(not torch.equal(p.detach(), q) for p, q in zip(params, snap)):
                fail('forward_modifies_theta', 'the second forward() changed the module parameters')
                return
        if Y2.dtype != Y.dtype or Y2.shape != Y.shape or not torch.equal(Y2.detach(), Y.detach()):
            fail('forward_not_repeatable', 'second forward() on unchanged theta differs from the first (max %.3g)' % float(np.abs(to_np64(Y2) - Yn).max() if Y2.shape == Y.shape else np.inf))
            return
        # ---- module == functional map on module.theta (exactly the same backend: <= 2 ulp relative to the largest entry)
        if fref is not None:
            sname, fc = fref
            spec = SPECS[sname]
            th = params[0].detach().clone()
            if c['cls'] == 'OpenInterval':
                pass
            try:
                with np.errstate(all='ignore'):
                    Z = spec.call(numqi, th, fc)
                if c['cls'] == 'DiscreteProbability' and extra is not None:
                    Z = Z * torch.tensor(1 / extra, dtype=Z.dtype)
                Zn = to_np64(Z)
                if Zn.shape != Yn.shape:
                    if c['cls'] == 'PositiveReal' and bs is None and Zn.size == Yn.size:
                        Zn = Zn.reshape(Yn.shape)
                    else:
                        fail('module_shape_differs_from_function', 'forward() shape %s but functional map gives %s' % (Yn.shape, Zn.shape))
                        return
                d = np.abs(Zn - Yn).max()
                if d > 4 * eps * max(1.0, np.abs(Yn).max()):
                    fail('module_differs_from_function', 'forward() differs from the functional map on module.theta by %.3g' % d, theta=to_np64(th))
                    return
                out.trans()
            except Exception as e:
                fail('function_on_module_theta_raises_%s' % type(e).__name__, 'functional map on module.theta raised %r' % (e,))
                return
        # ---- QuantumChannel == Stiefel chart of its own parameters: the frame to_stiefel_<method>(manifold.theta, choi_rank*dim_out,
        # dim_in) cut row-major into choi_rank blocks of shape (dim_out, dim_in) is the Kraus list; Choi = sum_k K_k (x) conj(K_k)
        if c['cls'] == 'QuantumChannel' and gi % ref_stride == 0:
            din, dout = c['dim'], c['dim_out']
            cr = din * dout if c['choi_rank'] is None else c['choi_rank']
            sc = {'method': c['method'], 'dim': cr * dout, 'rank': din, 'field': 'complex', 'phase': c['phase'], 'backend': 'torch', 'prec': c['prec']}
            try:
                with np.errstate(all='ignore'):
                    Z = SPECS['stiefel'].call(numqi, mod.manifold.theta.detach().clone(), sc)
                Zn = to_np64(Z)
            except Exception as e:
                fail('function_on_module_theta_raises_%s' % type(e).__name__, 'Stiefel map on manifold.theta raised %r' % (e,))
                return
            if Zn.shape != (() if bs is None else (bs,)) + (cr * dout, din):
                fail('module_shape_differs_from_function', 'Stiefel map on manifold.theta has shape %s' % (Zn.shape,))
                return
            Zk = Zn.reshape((-1, cr, dout, din))
            if c['return_kind'] == 'kraus':
                ref_ = Zk
                tol_f = 4 * eps * max(1.0, np.abs(Yn).max())  # same backend, same operations: <= 2 ulp (as for the other classes)
            else:
                ref_ = np.einsum('bkoi,bkpj->boipj', Zk, Zk.conj())
                # every entry is a sum of choi_rank products of Kraus entries with sum_k |K_koi||K_kpj| <= 1 (orthonormal columns):
                # complex product 2*sqrt(2)*eps each, (choi_rank-1)*eps for the summation in any order
                tol_f = 4 * eps * (cr + 2)
            ref_ = ref_.reshape((() if bs is None else (bs,)) + ref_.shape[1:])  # documented layout: batch axis only for batch_size != None
            if Yn.shape != ref_.shape:
                fail('module_shape_differs_from_function', 'forward() shape %s, %s from the Stiefel map has %s' % (Yn.shape, c['return_kind'], ref_.shape))
                return
            d_ = np.abs(ref_ - Yn).max()
            if not d_ <= tol_f:
                fail('module_differs_from_function', 'forward() differs from the %s built from to_stiefel(manifold.theta) by %.3g' % (c['return_kind'], d_), theta=to_np64(mod.manifold.theta))
                return
            out.trans()
        # ---- membership of the module output
        if c['cls'] == 'QuantumChannel':
            sc = {'method': c['method'], 'dim': mod.choi_rank * c['dim_out'], 'rank': c['dim'], 'field': 'complex', 'phase': c['phase']}
            kap = float(SPECS['stiefel'].kappa(to_np64(params[0]).reshape(nb, -1), sc).max())
        else:
            kap = float(max(1, n))
        if not np.isfinite(kap):
            out.count('outside_math_domain')
            continue
        tolm = C * eps * kap
        if tolm > 1e-2:
            out.count('skipped_ill_conditioned')
            continue
        exp_batch = () if bs is None else (bs,)
        if c['cls'] == 'SeparableDensityMatrix':
            dA, dB = c['dim'], c['dimB']
            nc = mod.num_cha
            if Yn.shape != exp_batch + (dA, dB, dA, dB):
                fail('wrong_shape', 'shape %s' % (Yn.shape,))
                return
            R = Yn.reshape((-1, dA * dB, dA * dB))
            ok = psd_checks(R, nc, np.full(len(R), tolm))
            for k_, f_ in ok.items():
                if not f_.all():
                    fail('not_on_manifold:' + k_, 'separable density matrix violates %s' % k_)
                    return
            # convex mixture of product projectors recomputed from the raw parameters
            tp = to_np64(mod.manifold_p.theta).reshape(nb, nc)
            fr = 1 if c['field'] == 'real' else 2
            ta = to_np64(mod.manifold_psiA.theta).reshape(nb, nc, fr * dA)
            tb = to_np64(mod.manifold_psiB.theta).reshape(nb, nc, fr * dB)
            p = np.exp(tp - tp.max(axis=1, keepdims=True))
            p = p / p.sum(axis=1, keepdims=True)
            # product-state split: complex dtype -> theta = [re, im]; real dtype -> theta is the (real) vector itself
            a = ta if fr == 1 else ta[..., :dA] + 1j * ta[..., dA:]
            a = a / np.linalg.norm(a, axis=-1, keepdims=True)
            b = tb if fr == 1 else tb[..., :dB] + 1j * tb[..., dB:]
            b = b / np.linalg.norm(b, axis=-1, keepdims=True)
            ab = np.einsum('bci,bcj->bcij', a, b).reshape(nb, nc, dA * dB)
            ref_ = np.einsum('bc,bci,bcj->bij', p, ab, ab.conj())
            if np.abs(ref_ - R).max() > tolm:
                fail('not_the_stated_mixture', 'output is not sum_i p_i |a_i b_i><a_i b_i| of its own parameters (diff %.3g)' % np.abs(ref_ - R).max())
                return
            out.trans()
        elif c['cls'] == 'QuantumChannel':
            din, dout = c['dim'], c['dim_out']
            cr = mod.choi_rank
            if c['return_kind'] == 'kraus':
                if Yn.shape != exp_batch + (cr, dout, din):
                    fail('wrong_shape', 'kraus shape %s' % (Yn.shape,))
                    return
                Kk = Yn.reshape(-1, cr, dout, din)
                tp_ = np.einsum('bkoi,bkoj->bij', Kk.conj(), Kk)
                if np.abs(tp_ - np.eye(din)).max() > tolm:
                    fail('not_on_manifold:kraus_complete', 'sum K^dagger K differs from identity by %.3g' % np.abs(tp_ - np.eye(din)).max())
                    return
            else:
                if Yn.shape != exp_batch + (dout, din, dout, din):
                    fail('wrong_shape', 'choi shape %s' % (Yn.shape,))
                    return
                Ch = Yn.reshape(-1, dout * din, dout * din)
                okc = psd_checks(Ch / din, cr, np.full(len(Ch), tolm))
                for k_, f_ in okc.items():
                    if not f_.all():
                        fail('not_on_manifold:choi_' + k_, 'Choi operator violates %s' % k_)
                        return
                pt = np.einsum('boioj->bij', Yn.reshape(-1, dout, din, dout, din))
                if np.abs(pt - np.eye(din)).max() > tolm:
                    fail('not_on_manifold:choi_trace_preserving', 'partial trace over the output differs from identity by %.3g' % np.abs(pt - np.eye(din)).max())
                    return
            out.trans()
        elif c['cls'] == 'OpenInterval':
            lo, up = c['lower'], c['upper']
            if Yn.shape != exp_batch:
                fail('wrong_shape', 'shape %s expected %s' % (Yn.shape, exp_batch))
                return
            if not ((Yn >= lo - 4 * eps * 3) & (Yn <= up + 4 * eps * 3)).all():
                fail('not_on_manifold:inside', 'value outside the interval')
                return
            tnp = to_np64(params[0])
            refv = lo + (up - lo) / (1 + np.exp(-tnp))
            if np.abs(refv.reshape(Yn.shape) - Yn).max() > C * eps * 6:
                fail('module_differs_from_function', 'OpenInterval.forward differs from lower+(upper-lower)*sigmoid(theta)')
                return
        elif c['cls'] == 'DiscreteProbability' and extra is not None:
            if np.abs((Yn * extra).sum(axis=-1) - 1).max() > tolm or (Yn < 0).any():
                fail('not_on_manifold:weighted_simplex', 'sum_i w_i x_i != 1 or negative entry')
                return
    out.trace()
    out.sample = {'config': c, 'parameter_count': n, 'groups': len(groups)}


def run_abk(case, out, env):
    import numqi
    import torch
    c = case
    dA, dB, k = c['dim'], c['dimB'], c['k']
    dt = torch.float64 if c['prec'] == 64 else torch.float32
    eps = EPS[c['prec']]
    site = 'module/%s' % c['cls']
    N = dA * dB**k

    def perm_B(mat, a, b):
        t = mat.reshape([dA] + [dB] * k + [dA] + [dB] * k)
        ax = list(range(2 * k + 2))
        ax[1 + a], ax[1 + b] = ax[1 + b], ax[1 + a]
        ax[k + 2 + a], ax[k + 2 + b] = ax[k + 2 + b], ax[k + 2 + a]
        return t.transpose(ax).reshape(N, N)
    try:
        mod = getattr(numqi.manifold, c['cls'])(dA, dB, k, dtype=dt)
    except Exception as e:
        out.violation('%s/constructor_raises_%s' % (site, type(e).__name__), '%s(%d,%d,%d) raised %r' % (c['cls'], dA, dB, k, e), config=c)
        out.state()
        out.trans()
        return
    params = list(mod.parameters())
    n = sum(p.numel() for p in params)
    pts = theta_lattice(n, 100.0, env.rng('C01abk', c['cls'], n), 2)
    pts = pts[:: max(1, len(pts) // 40)]
    for row in [None] + list(pts):
        if row is not None:
            off = 0
            with torch.no_grad():
                for p in params:
                    p.copy_(torch.tensor(row[off:off + p.numel()].reshape(p.shape), dtype=p.dtype))
                    off += p.numel()
        out.state()
        out.trans()
        M = to_np64(mod())
        scale = max(1.0, np.abs(M).max())
        tol = C * eps * k * scale
        if M.shape != (N, N):
            out.violation('%s/wrong_shape' % site, 'shape %s expected %s' % (M.shape, (N, N)), config=c)
            return
        if np.abs(M - M.conj().T).max() > tol:
            out.violation('%s/not_hermitian' % site, '%s(%d,%d,%d) output is not Hermitian (%.3g)' % (c['cls'], dA, dB, k, np.abs(M - M.conj().T).max()), config=c, theta=row)
            return
        for a in range(k):
            for b in range(a + 1, k):
                if np.abs(perm_B(M, a, b) - M).max() > tol:
                    out.violation('%s/not_permutation_symmetric' % site, '%s(%d,%d,%d) output changes under exchange of B copies %d,%d' % (c['cls'], dA, dB, k, a, b), config=c, theta=row)
                    return
        if c['cls'] == 'ABk2localHermitian':
            H = np.asarray(mod.to_AB()).astype(np.complex128)
            if np.abs(H - H.conj().T).max() > tol:
                out.violation('%s/to_AB_not_hermitian' % site, 'to_AB() is not Hermitian', config=c)
                return
            base = np.kron(H, np.eye(dB**(k - 1)))
            ref_ = base.copy()
            for j in range(1, k):
                ref_ = ref_ + perm_B(base, 0, j)
            if np.abs(ref_ - M).max() > tol * 4:
                out.violation('%s/not_sum_of_two_local_terms' % site, 'forward() is not sum_j H_AB acting on (A,B_j) with H_AB = to_AB() (diff %.3g)' % np.abs(ref_ - M).max(), config=c, theta=row)
                return
        out.outcome((c['cls'], dA, dB, k, np.round(M, 5)), nontrivial=True)
    out.trace()
    out.sample = {'config': c, 'parameter_count': n, 'lattice_points': len(pts)}


def run_case(case, out, env):
    if case['kind'] == 'abk':
        return run_abk(case, out, env)
    if case['kind'] == 'func':
        if case['map'] == 'sym_to_psd':
            # the N>5 branch calls ARPACK (eigsh), whose start / restart vectors come from np.random.default_rng(): an environment
            # answer that the harness owns (fixed stream), so that a run is reproducible. (Observed once in ~10^6 unowned calls:
            # ArpackNoConvergence on a 6x6 lattice matrix; with the stream owned such an event would replay deterministically.)
            from mc import seams
            with seams.EntropySeam(0):
                run_func(case, out, env)
            return
        run_func(case, out, env)
    else:
        run_module(case, out, env)
