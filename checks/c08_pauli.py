"""C08 - Pauli encodings are faithful: conversions bijective, algebra exact.

Spaces (DESIGN.md section 4, C08); N = 4^(n+1) phased Paulis on n qubits:
  conv     : mode H over the conversion graph. Nodes {F2, (str,sign), index, F2 without sign, (np_list,sign), dense matrix},
             edges = every public conversion (pauli_* functions, PauliOperator.from_* / properties, get_pauli_group).
             From every element, from every node (reference encoding), every path of <= 3 edges is executed on the real
             code; the *implementation's* value is fed forward and compared with the reference encoding at every step.
  algebra  : all ordered pairs (a,b): a@b, commutate_with; all a: inverse - against products of kron-built dense
             matrices, phase included; operands must not be modified; for small n also through the library's own
             full_matrix.
  batch    : the whole group (identity order and one seed-drawn permutation) passed at once with batch shapes (k,) for
             every k, every (k,l) with k*l=N, one 3-d shape: equals the element-wise reference, shape and dtype included.
  objhist  : H-stateless histories of property accesses / operations on one PauliOperator (memoised _str/_sign/_np_list).
  bigidx   : structured alphabet of large indices for every n <= 31, scalar and batched, all index conversions.
  bign     : n = 5..12: structured alphabet of phased Paulis (+ generic atoms), all ordered pairs, against a letter-wise
             reference that is itself validated against dense matrices for n <= 2 in prepare(); conversion paths of
             length <= 2 (through dense matrices up to n = 8 quick / 9 thorough: kind bign_dense).
  rand_stub: rand_pauli with a stub generator answering every one of the 2^(2n+2) bit patterns x every flag value.
  rand_seed: rand_pauli with integer seeds (a fixed list) for n = 1..12 x every flag value.
  argform  : argument forms of the same conversions: numpy integer scalars (elements of the library's own uint64 / int64 index
             batches, int32) into every scalar index consumer, all 4^n indices (+ the bigidx alphabet for n <= 31); the
             out-of-range indices 4^n, 4^n+1, -1 (must be rejected by an assert); the sign as np.complex128 / complex64 /
             float / np.int64 / 0-d array and as a broadcasting (l,), (k,1), (1,l) or complex64 array against (k,l) string
             batches; np_list as tuple / 3-d array; from_full_matrix on float64 / int64 copies of the real dense Paulis;
             get_pauli_group before / after clearing the lru_cache. repr / str are parsed ('<sign><letters> [bits]').
  f2alias  : PauliOperator(src) / from_F2(src), one view read, src overwritten in place by every other element: F2, (str_,
             sign), np_list, full_matrix, repr must all describe the old or all the new operator.
Oracle: dense numpy (mc.ref) + the letter-wise reference below.
"""
import itertools
import re
import sys

import numpy as np

from mc import core, ref, seams

PROPERTY = 'C08'
GUARD = ['numqi.gate._pauli']  # argument-immutability oracle (mc.seams.ImmutabilityGuard)
LEVEL = 'model_checking'
RULE = ('state = one (element, start representation) of the phased Pauli group / one ordered pair / one batch layout / one '
        'property-access history / one generator answer; all 4^(n+1) elements, all ordered pairs, all conversion paths of '
        'length <= 3 over the graph of public conversions, all batch shapes (k,), (k,l), all 2^(2n+2) generator answers are '
        'enumerated; transition = one library call whose result (fed forward along the path) is compared with the reference '
        'encoding / dense product; non-trivial = the element (or product) is not the identity with phase +1. Argument forms: every '
        'element x every sign form (numpy scalar types, 0-d, complex64, broadcasting sub-shapes) x every function taking a sign; '
        'every index x numpy scalar type x every scalar index consumer; 4^n, 4^n+1, -1 must be rejected; every ordered pair '
        '(old, new) x constructor x view read first for the aliased source array (views must stay mutually consistent); '
        'repr/str parsed and compared with the reference; PENDING lists additions that wait for a repair of numqi')
ASSUMPTIONS = [
    'reference semantics: [b0,b1,x,z] denotes i^(2 b0+b1) kron_k X^x_k Z^z_k with kron-built dense matrices (mc.ref.pauli_dense), qubit 0 the most significant factor',
    'index convention as documented in get_pauli_group: base-4 digits I=0,X=1,Y=2,Z=3, first qubit most significant; the index carries no phase, so conversions through it return the +1 signed string',
    'the letter-wise reference used for n>=5 (products of 2x2 matrices per tensor factor) is validated exhaustively against the dense reference for n<=2 before every run',
    'index values 4^n, 4^n+1 and -1 are fed only as inputs that every index consumer has to reject with an AssertionError; n=32, n=0 and empty batches are outside the stated domain and not fed',
    'sign forms fed: python int/complex, float, np.float64, np.int64, np.complex128, np.complex64, 0-d arrays of these, and arrays broadcastable to the batch shape; other containers for the sign are outside',
    'repr/str format as written in PauliOperator.__str__: sign prefix in {"", i, -, -i}, letters, one blank, the F2 bits comma separated in brackets',
    'consistency of a PauliOperator after its source array was overwritten is judged only between the views of the object (all old or all new); which of the two is not prescribed',
]
CHUNK = 1

EPS = float(np.finfo(np.float64).eps)
# Tolerance for signs and dense-matrix entries: every sign is 1j**k, k in 0..3, and every entry of a Pauli matrix is a
# single product of n+1 numbers of modulus 0 or 1 (no sums), so the forward error is <= (n+2) eps <= 14 eps for n <= 12;
# kappa = 1 (modulus-one data), c = 1e3  ->  1e3 * eps * 1 = 2.2e-13.
TOL = 1e3 * EPS

PH = [1 + 0j, 1j, -1 + 0j, -1j]
XZ2LET = {(0, 0): 'I', (1, 0): 'X', (1, 1): 'Y', (0, 1): 'Z'}
LET2XZ = {v: k for k, v in XZ2LET.items()}
LET2DIG = {'I': 0, 'X': 1, 'Y': 2, 'Z': 3}
DIG2LET = 'IXYZ'


# ------------------------------------------------------------------ letter-wise reference model
# an element is (k, letters): the operator i^k * kron(letters), letters the Hermitian matrices I,X,Y,Z
def _one_qubit_table():
    tab = {}
    for a in 'IXYZ':
        for b in 'IXYZ':
            M = ref.PAULI[a] @ ref.PAULI[b]
            hit = [(m, c) for m in range(4) for c in 'IXYZ' if np.array_equal(M, PH[m] * ref.PAULI[c])]
            assert len(hit) == 1
            tab[(a, b)] = hit[0]
    return tab


ONEQ = _one_qubit_table()


def f2_to_elem(f2):
    f2 = [int(v) for v in f2]
    n = (len(f2) - 2) // 2
    letters = ''.join(XZ2LET[(f2[2 + i], f2[2 + n + i])] for i in range(n))
    # X^x Z^z = (-i)^[x=z=1] * letter  (XZ = -iY)
    return ((2 * f2[0] + f2[1] + 3 * letters.count('Y')) % 4, letters)


def elem_to_f2(e):
    k, letters = e
    b = (k + letters.count('Y')) % 4
    x = [LET2XZ[c][0] for c in letters]
    z = [LET2XZ[c][1] for c in letters]
    return np.array([b >> 1, b & 1] + x + z, dtype=np.uint8)


def elem_dense(e):
    return PH[e[0]] * ref.kron(*[ref.PAULI[c] for c in e[1]])


def elem_index(e):
    r = 0
    for c in e[1]:
        r = r * 4 + LET2DIG[c]
    return r


def index_letters(idx, n):
    idx = int(idx)
    s = ''
    for _ in range(n):
        s = DIG2LET[idx % 4] + s
        idx //= 4
    return s


def elem_mul(a, b):
    k = a[0] + b[0]
    s = []
    for x, y in zip(a[1], b[1]):
        m, c = ONEQ[(x, y)]
        k += m
        s.append(c)
    return (k % 4, ''.join(s))


def elem_inv(a):
    return ((-a[0]) % 4, a[1])


def elem_commute(a, b):
    return sum(1 for x, y in zip(a[1], b[1]) if x != 'I' and y != 'I' and x != y) % 2 == 0


def elem_hermitian(a):
    return a[0] % 2 == 0


def harness_abort(msg):
    print('HARNESS ERROR: C08 reference self-validation failed: ' + msg)
    sys.stdout.flush()
    sys.exit(2)


def validate_reference():
    for n in (1, 2):
        f2, dense, lookup = ref.pauli_table(n)
        MUL = ref.pauli_mul_table(n)
        el = [f2_to_elem(v) for v in f2]
        if len(set(el)) != len(f2):
            harness_abort('f2_to_elem not injective')
        for i, e in enumerate(el):
            if not np.array_equal(elem_dense(e), dense[i]) or not np.array_equal(elem_to_f2(e), f2[i]):
                harness_abort('letter-wise encoding differs from dense for %s' % (f2[i].tolist(),))
            if index_letters(elem_index(e), n) != e[1]:
                harness_abort('index reference not invertible')
            if not np.array_equal(elem_dense(elem_inv(e)), dense[i].conj().T):
                harness_abort('inverse reference')
            if elem_hermitian(e) != np.array_equal(dense[i], dense[i].conj().T):
                harness_abort('hermiticity reference')
        for i in range(len(f2)):
            for j in range(len(f2)):
                if not np.array_equal(elem_to_f2(elem_mul(el[i], el[j])), f2[MUL[i, j]]):
                    harness_abort('product reference')
                if elem_commute(el[i], el[j]) != (MUL[i, j] == MUL[j, i]):
                    harness_abort('commutation reference')


# ------------------------------------------------------------------ comparison of one node value with the reference
def _is_int(v):
    return isinstance(v, (int, np.integer)) and not isinstance(v, (bool, np.bool_))


def cmp_f2(v, e):
    exp = elem_to_f2(e)
    if not isinstance(v, np.ndarray) or v.dtype != np.uint8 or v.shape != exp.shape:
        return 'wrong_type', exp
    if not np.array_equal(v, exp):
        return 'wrong_value', exp
    return None, exp


def cmp_f2ns(v, e):
    exp = elem_to_f2(e)[2:]
    if not isinstance(v, np.ndarray) or v.dtype != np.uint8 or v.shape != exp.shape:
        return 'wrong_type', exp
    if not np.array_equal(v, exp):
        return 'wrong_value', exp
    return None, exp


def _sign_ok(sg, k):
    try:
        c = complex(sg)
    except Exception:
        return False
    return np.isfinite(c.real) and np.isfinite(c.imag) and abs(c - PH[k]) <= TOL


def cmp_ss(v, e):
    exp = (e[1], PH[e[0]])
    if not (isinstance(v, tuple) and len(v) == 2 and isinstance(v[0], str)):
        return 'wrong_type', exp
    if str(v[0]) != e[1]:
        return 'wrong_value', exp
    if not _sign_ok(v[1], e[0]):
        return 'wrong_sign', exp
    return None, exp


def cmp_idx(v, e):
    exp = elem_index(e)
    if not _is_int(v):
        return 'wrong_type', exp
    if int(v) != exp:
        return 'wrong_value', exp
    return None, exp


def cmp_npl(v, e):
    exp = (list(e[1]), PH[e[0]])
    if not (isinstance(v, tuple) and len(v) == 2 and isinstance(v[0], list) and len(v[0]) == len(e[1])):
        return 'wrong_type', exp
    for m, c in zip(v[0], e[1]):
        if not (isinstance(m, np.ndarray) and m.shape == (2, 2) and np.array_equal(m, ref.PAULI[c])):
            return 'wrong_value', exp
    if not _sign_ok(v[1], e[0]):
        return 'wrong_sign', exp
    return None, exp


def cmp_mat(v, e):
    exp = elem_dense(e)
    if not isinstance(v, np.ndarray) or v.shape != exp.shape:
        return 'wrong_type', exp
    if not np.all(np.isfinite(v)) or np.abs(v - exp).max() > TOL:
        return 'wrong_value', exp
    return None, exp


CMP = {'F2': cmp_f2, 'F2NS': cmp_f2ns, 'SS': cmp_ss, 'IDX': cmp_idx, 'NPL': cmp_npl, 'MAT': cmp_mat}
PHASED = {'F2', 'SS', 'NPL', 'MAT'}


def start_value(node, e):
    """the reference's own encoding of element e at a node"""
    if node == 'F2':
        return elem_to_f2(e)
    if node == 'F2NS':
        return elem_to_f2(e)[2:].copy()
    if node == 'SS':
        # the documented default for the sign is the python int 1: real signs are passed as python ints
        return (e[1], {0: 1, 1: 1j, 2: -1, 3: -1j}[e[0]])
    if node == 'IDX':
        return elem_index(e)
    if node == 'NPL':
        return ([ref.PAULI[c].copy() for c in e[1]], PH[e[0]])
    if node == 'MAT':
        return elem_dense(e)
    raise ValueError(node)


GROUP_NMAX = 5  # get_pauli_group builds all 4^n dense matrices


def _obj_sign_first(g, v, n):
    p = g.PauliOperator.from_F2(v)
    sg = p.sign
    return (p.str_, sg)


def _obj_str_first(g, v, n):
    p = g.PauliOperator.from_F2(v)
    s = p.str_
    return (s, p.sign)


def _obj_npl(g, v, n):
    p = g.PauliOperator(v)
    return (p.np_list, p.sign)


# (name, source node, destination node, callable(g, value, n))
EDGES = [
    ('pauli_F2_to_str', 'F2', 'SS', lambda g, v, n: tuple(g.pauli_F2_to_str(v))),
    ('PauliOperator.sign_then_str_', 'F2', 'SS', _obj_sign_first),
    ('PauliOperator.str__then_sign', 'F2', 'SS', _obj_str_first),
    ('pauli_F2_to_index', 'F2', 'IDX', lambda g, v, n: g.pauli_F2_to_index(v, with_sign=True)),
    ('PauliOperator.np_list', 'F2', 'NPL', _obj_npl),
    ('PauliOperator.full_matrix', 'F2', 'MAT', lambda g, v, n: g.PauliOperator(v).full_matrix),
    ('pauli_str_to_F2', 'SS', 'F2', lambda g, v, n: g.pauli_str_to_F2(v[0], v[1])),
    ('PauliOperator.from_str', 'SS', 'F2', lambda g, v, n: g.PauliOperator.from_str(v[0], sign=v[1]).F2),
    ('pauli_str_to_index', 'SS', 'IDX', lambda g, v, n: g.pauli_str_to_index(v[0])),
    ('get_pauli_group[str_to_index]', 'SS', 'IDX', lambda g, v, n: g.get_pauli_group(n, kind='str_to_index')[v[0]]),
    ('pauli_index_to_F2[int]', 'IDX', 'F2', lambda g, v, n: g.pauli_index_to_F2(v, n, with_sign=True)),
    ('pauli_index_to_F2[0d-uint64]', 'IDX', 'F2', lambda g, v, n: g.pauli_index_to_F2(np.array(v, dtype=np.uint64), n, with_sign=True)),
    ('PauliOperator.from_index', 'IDX', 'F2', lambda g, v, n: g.PauliOperator.from_index(v, n).F2),
    ('pauli_index_to_str', 'IDX', 'SS', lambda g, v, n: (g.pauli_index_to_str(v, n), 1)),
    ('get_pauli_group[str]', 'IDX', 'SS', lambda g, v, n: (g.get_pauli_group(n, kind='str')[v], 1)),
    ('pauli_index_to_F2[with_sign=False]', 'IDX', 'F2NS', lambda g, v, n: g.pauli_index_to_F2(v, n, with_sign=False)),
    ('get_pauli_group[numpy]', 'IDX', 'MAT', lambda g, v, n: g.get_pauli_group(n)[v]),
    ('get_pauli_group[sparse]', 'IDX', 'MAT', lambda g, v, n: g.get_pauli_group(n, use_sparse=True)[v].toarray()),
    ('pauli_F2_to_index[with_sign=False]', 'F2NS', 'IDX', lambda g, v, n: g.pauli_F2_to_index(v, with_sign=False)),
    ('PauliOperator.from_np_list', 'NPL', 'F2', lambda g, v, n: g.PauliOperator.from_np_list(v[0], sign=v[1]).F2),
    ('PauliOperator.from_full_matrix', 'MAT', 'F2', lambda g, v, n: g.PauliOperator.from_full_matrix(v).F2),
    # the same matrix known only to 1e-10 (global phase rotated by +-1e-10 rad): from_full_matrix accepts deviations up to
    # its own thresholds of 1e-7 and has to *round* the phase angle to a multiple of pi/2
    ('PauliOperator.from_full_matrix[phase+1e-10]', 'MAT', 'F2', lambda g, v, n: g.PauliOperator.from_full_matrix(v * np.exp(1e-10j)).F2),
    ('PauliOperator.from_full_matrix[phase-1e-10]', 'MAT', 'F2', lambda g, v, n: g.PauliOperator.from_full_matrix(v * np.exp(-1e-10j)).F2),
]
NODES = ['F2', 'SS', 'IDX', 'F2NS', 'NPL', 'MAT']


def edges_from(node, n, dense_ok=True):
    ret = []
    for ed in EDGES:
        if ed[1] != node:
            continue
        if ed[0].startswith('get_pauli_group') and n > GROUP_NMAX:
            continue
        if not dense_ok and (ed[2] == 'MAT' or ed[1] == 'MAT'):
            continue
        ret.append(ed)
    return ret


def _lit(v):
    """literal for the replay file"""
    if isinstance(v, tuple):
        return [_lit(x) for x in v]
    if isinstance(v, np.ndarray) and v.size > 300:
        return {'shape': list(v.shape), 'dtype': str(v.dtype), 'head': core.jsonable(v.reshape(-1)[:32])}
    return core.jsonable(v)


def walk(g, out, n, e0, node, val, e, depth, path, start, site='conv', dense_ok=True):
    """DFS over all conversion paths of length <= depth from (node, val); e is the reference element tracked along the path"""
    if depth == 0:
        return
    for name, src, dst, fn in edges_from(node, n, dense_ok):
        out.trans()
        e2 = e if dst in PHASED else (0, e[1])
        detail = dict(n=n, element_F2=elem_to_f2(e0), start_node=start, path=path + [name], input=_lit(val))
        try:
            v2 = fn(g, val, n)
        except Exception as ex:
            out.violation('%s/%s/%s' % (site, name, type(ex).__name__),
                          '%s raised %r on a valid %d-qubit encoding (path %s from %s of F2=%s)' % (name, ex, n, path + [name], start, elem_to_f2(e0).tolist()),
                          **detail)
            continue
        err, exp = CMP[dst](v2, e2)
        if err is not None:
            out.violation('%s/%s/%s' % (site, name, err),
                          '%s returned %s, expected %s (path %s from the %s encoding of F2=%s)' % (name, str(_lit(v2))[:160], str(_lit(exp))[:160], path + [name], start, elem_to_f2(e0).tolist()),
                          observed=_lit(v2), expected=_lit(exp), **detail)
            continue
        out.trace()
        out.outcome('%d:%s:%d:%s' % (n, dst, e2[0], e2[1]), nontrivial=(e2 != (0, 'I' * n)), pre_digested=True)
        if dst == 'IDX' and not isinstance(v2, int):
            out.count('index_returned_as_numpy_scalar')
            # the library's own element type goes into every scalar index consumer before the path continues with int(v2)
            feed_numpy_index(g, out, site, n, v2, type(v2).__name__, e2[1], dense_ok)
            v2 = int(v2)
        walk(g, out, n, e0, dst, v2, e2, depth - 1, path + [name], start, site, dense_ok)


# ------------------------------------------------------------------ argument forms (audit additions)
# Additions whose oracle fires on the unchanged tree and waits for a repair of numqi; the oracle stays in the module:
#   index_range_batch  : pauli_index_to_F2(np.array([17]), 2) (also list / numpy scalar / 0-d) silently returns the encoding of
#                        17 mod 16, and of 2^64-1 mod 16 for -1: the bit-unpacking path has no range check
#   f2_alias           : p = PauliOperator(src); p.str_; src[:] = other  ->  p.F2 is the new operator, p.str_/p.sign the old
# Repaired in numqi and active: numpy_scalar_index (pauli_index_to_str(np.int64(6), 2)), index_upper_bound (index 4**n).
PENDING = set()  # additions waiting for a repair of numqi (none: index_range_batch and f2_alias were repaired, see known_findings.json)


def pending(out, flag):
    if flag in PENDING:
        out.count('pending/' + flag)
        return True
    return False


SIGN_PREFIX = ['', 'i', '-', '-i']
REPR_RE = re.compile(r'^(-i|i|-|)([IXYZ]+) \[([01](?:,[01])*)\]$')


def cmp_repr(v, e):
    """repr/str of a PauliOperator is '<sign><letters> [b0,b1,x..,z..]' with sign in {'', i, -, -i} (PauliOperator.__str__)"""
    f2 = elem_to_f2(e)
    exp = SIGN_PREFIX[e[0]] + e[1] + ' [' + ','.join(str(int(b)) for b in f2) + ']'
    if not isinstance(v, str):
        return 'wrong_repr', exp
    m = REPR_RE.match(v)
    if m is None:
        return 'wrong_repr_format', exp
    if m.group(2) != e[1]:
        return 'wrong_repr_letters', exp
    if m.group(1) != SIGN_PREFIX[e[0]]:
        return 'wrong_repr_sign', exp
    if [int(b) for b in m.group(3).split(',')] != f2.tolist():
        return 'wrong_repr_bits', exp
    return None, exp


NP_INDEX_TYPES = [('np.int64', np.int64, 2 ** 63), ('np.uint64', np.uint64, 2 ** 64), ('np.int32', np.int32, 2 ** 31)]

# every public function that takes ONE index (name, destination node, callable(g, index, n))
IDX_CONSUMERS = [
    ('pauli_index_to_str', 'SS', lambda g, i, n: (g.pauli_index_to_str(i, n), 1)),
    ('pauli_index_to_F2', 'F2', lambda g, i, n: g.pauli_index_to_F2(i, n)),
    ('pauli_index_to_F2[with_sign=False]', 'F2NS', lambda g, i, n: g.pauli_index_to_F2(i, n, with_sign=False)),
    ('PauliOperator.from_index', 'F2', lambda g, i, n: g.PauliOperator.from_index(i, n).F2),
    ('get_pauli_group[str]', 'SS', lambda g, i, n: (g.get_pauli_group(n, kind='str')[i], 1)),
    ('get_pauli_group[numpy]', 'MAT', lambda g, i, n: g.get_pauli_group(n)[i]),
    ('get_pauli_group[sparse]', 'MAT', lambda g, i, n: g.get_pauli_group(n, use_sparse=True)[i].toarray()),
]


def feed_numpy_index(g, out, site, n, i, tname, letters, dense_ok=True):
    """one numpy integer scalar (the element type of the library's own index batches) into every scalar index consumer;
    oracle: the reference encoding of the +1 signed string, exactly as for the python int"""
    e = (0, letters)
    for name, dst, fn in IDX_CONSUMERS:
        if name.startswith('get_pauli_group') and (n > GROUP_NMAX or (dst == 'MAT' and not dense_ok)):
            continue
        if name == 'pauli_index_to_str' and pending(out, 'numpy_scalar_index'):
            continue
        out.trans()
        key = '%s/%s[%s]' % (site, name, tname)
        detail = dict(n=n, index=int(i), index_type=tname)
        try:
            v = fn(g, i, n)
        except Exception as ex:
            out.violation('%s/%s' % (key, type(ex).__name__), '%s(%s(%d), n=%d) raised %r; the python int is accepted' % (name, tname, int(i), n, ex), **detail)
            continue
        err, exp = CMP[dst](v, e)
        if err is not None:
            out.violation('%s/%s' % (key, err), '%s(%s(%d), n=%d) returned %s, expected %s' % (name, tname, int(i), n, str(_lit(v))[:120], str(_lit(exp))[:120]),
                          observed=_lit(v), expected=_lit(exp), **detail)
            continue
        out.trace()


def feed_out_of_range(g, out, site, n):
    """4^n, 4^n+1 and -1 are not indices of n-qubit Pauli strings: every index consumer has to reject them with an assert
    (a silently accepted 4^n decodes to the identity and index -> str -> index is no longer the identity)"""
    top = 4 ** n
    for v, vname in ((top, '4^n'), (top + 1, '4^n+1'), (-1, '-1')):
        arr = np.array([0, v], dtype=np.int64 if v < 0 else np.uint64)
        sc = np.int64(v) if v < 0 else np.uint64(v)
        calls = [
            ('pauli_index_to_str[int]', 'scalar', lambda: g.pauli_index_to_str(v, n)),
            ('pauli_index_to_F2[int]', 'scalar', lambda: g.pauli_index_to_F2(v, n)),
            ('pauli_index_to_F2[int,with_sign=False]', 'scalar', lambda: g.pauli_index_to_F2(v, n, with_sign=False)),
            ('PauliOperator.from_index', 'scalar', lambda: g.PauliOperator.from_index(v, n)),
            ('pauli_index_to_str[batch]', 'scalar', lambda: g.pauli_index_to_str(arr.copy(), n)),
            ('pauli_index_to_F2[batch]', 'array', lambda: g.pauli_index_to_F2(arr.copy(), n)),
            ('pauli_index_to_F2[batch,with_sign=False]', 'array', lambda: g.pauli_index_to_F2(arr.copy(), n, with_sign=False)),
            ('pauli_index_to_F2[list]', 'array', lambda: g.pauli_index_to_F2([0, v], n)) if v >= 0 else None,
            ('pauli_index_to_F2[%s]' % type(sc).__name__, 'array', lambda: g.pauli_index_to_F2(sc, n)),
        ]
        for c in calls:
            if c is None:
                continue
            name, path, fn = c
            # 'scalar': goes through the per-index assert (accepts 4^n on the pinned tree); 'array': the bit-unpacking path
            if path == 'array' and pending(out, 'index_range_batch'):
                continue
            if path == 'scalar' and v == top and pending(out, 'index_upper_bound'):
                continue
            out.state()
            out.trans()
            detail = dict(n=n, index=v)
            try:
                r = fn()
            except AssertionError:
                out.count('rejected_by_precondition')
                out.trace()
                out.outcome('oob:%d:%s:%s:rejected' % (n, name, vname), nontrivial=True, pre_digested=True)
                continue
            except Exception as ex:
                out.violation('%s/%s/%s' % (site, name, type(ex).__name__), '%s raised %r for the out-of-range index %s=%d (n=%d); expected a precondition assert' % (name, ex, vname, v, n), **detail)
                continue
            out.violation('%s/%s/out_of_range_accepted/%s' % (site, name, vname),
                          '%s accepted the index %s=%d for n=%d (valid: 0..%d) and returned %s' % (name, vname, v, n, top - 1, str(_lit(getattr(r, 'F2', r)))[:120]),
                          observed=_lit(getattr(r, 'F2', r)), **detail)


def sign_forms(k):
    """the phase i^k as the scalar types a caller holds it in (the python int / complex is the start_value form)"""
    z = PH[k]
    forms = [('np.complex128', np.complex128(z)), ('np.complex64', np.complex64(z)),
             ('0d-complex128', np.array(z, dtype=np.complex128)), ('0d-complex64', np.array(z, dtype=np.complex64))]
    if k % 2 == 0:
        r = 1 - k
        forms += [('float', float(r)), ('np.float64', np.float64(r)), ('np.int64', np.int64(r)),
                  ('0d-int64', np.array(r, dtype=np.int64)), ('0d-float64', np.array(float(r)))]
    return forms


def feed_sign_forms(g, out, site, n, e):
    """one element through every (function, sign form) and every np_list container; oracle: the reference F2 vector"""
    k, letters = e
    npl = [ref.PAULI[c].copy() for c in letters]
    pys = {0: 1, 1: 1j, 2: -1, 3: -1j}[k]
    calls = []
    for fname, sg in sign_forms(k):
        calls.append(('pauli_str_to_F2[sign=%s]' % fname, sg, lambda sg=sg: g.pauli_str_to_F2(letters, sg)))
        calls.append(('PauliOperator.from_str[sign=%s]' % fname, sg, lambda sg=sg: g.PauliOperator.from_str(letters, sign=sg).F2))
        calls.append(('PauliOperator.from_np_list[sign=%s]' % fname, sg, lambda sg=sg: g.PauliOperator.from_np_list(npl, sign=sg).F2))
    calls.append(('PauliOperator.from_np_list[tuple]', pys, lambda: g.PauliOperator.from_np_list(tuple(npl), sign=pys).F2))
    calls.append(('PauliOperator.from_np_list[3d-array]', pys, lambda: g.PauliOperator.from_np_list(np.stack(npl), sign=pys).F2))
    if k == 0:  # the default sign
        calls.append(('pauli_str_to_F2[sign omitted]', None, lambda: g.pauli_str_to_F2(letters)))
        calls.append(('PauliOperator.from_str[sign omitted]', None, lambda: g.PauliOperator.from_str(letters).F2))
        calls.append(('PauliOperator.from_np_list[sign omitted]', None, lambda: g.PauliOperator.from_np_list(npl).F2))
    for name, sg, fn in calls:
        out.trans()
        detail = dict(n=n, letters=letters, phase_exponent=k, sign=repr(sg))
        try:
            v = fn()
        except Exception as ex:
            out.violation('%s/%s/%s' % (site, name, type(ex).__name__), '%s raised %r for %s%s (sign passed as %r)' % (name, ex, SIGN_PREFIX[k], letters, sg), **detail)
            continue
        err, exp = cmp_f2(v, e)
        if err is not None:
            out.violation('%s/%s/%s' % (site, name, err), '%s returned %s for %s%s (sign passed as %r), expected %s' % (name, _lit(v), SIGN_PREFIX[k], letters, sg, exp.tolist()),
                          observed=_lit(v), expected=exp, **detail)
            continue
        out.trace()


def feed_sign_batch(g, out, site, n):
    """all 4^n strings as a (k,l) batch, the sign given with a broadcasting sub-shape / another dtype; every rotation r of the
    phase pattern so that every (string, phase) pair occurs; oracle: element-wise reference"""
    M = 4 ** n
    letters = [index_letters(i, n) for i in range(M)]
    shapes = [(k, M // k) for k in range(1, M + 1) if M % k == 0] if n <= 2 else [(1, M), (4, M // 4), (M // 2, 2), (M, 1)]
    for shape in shapes:
        k, l = shape
        S = np.array(letters, dtype='U%d' % n).reshape(shape)
        for r in range(4):
            out.state()
            col = np.array([(j + r) % 4 for j in range(l)])
            row = np.array([(i + r) % 4 for i in range(k)])
            forms = [
                ('sign(l,)', np.array(PH)[col], np.broadcast_to(col, shape)),
                ('sign(k,1)', np.array(PH)[row].reshape(k, 1), np.broadcast_to(row.reshape(k, 1), shape)),
                ('sign(1,l)', np.array(PH)[col].reshape(1, l), np.broadcast_to(col, shape)),
                ('sign(l,)complex64', np.array(PH)[col].astype(np.complex64), np.broadcast_to(col, shape)),
                ('sign(k,l)complex64', np.ascontiguousarray(np.broadcast_to(np.array(PH)[col], shape)).astype(np.complex64), np.broadcast_to(col, shape)),
                ('sign(l,)int64', (1 - (col % 2) * 2).astype(np.int64), np.broadcast_to((col % 2) * 2, shape)),
                ('sign(k,1)float64', (1.0 - (row % 2) * 2).reshape(k, 1), np.broadcast_to(((row % 2) * 2).reshape(k, 1), shape)),
                ('sign=0d-complex128', np.array(PH[r]), np.full(shape, r)),
                ('sign=np.complex64', np.complex64(PH[r]), np.full(shape, r)),
            ]
            for fname, sg, kk in forms:
                out.trans()
                expF = np.stack([elem_to_f2((int(kk[i, j]), letters[i * l + j])) for i in range(k) for j in range(l)]).reshape(shape + (2 * n + 2,))
                detail = dict(n=n, batch_shape=list(shape), rotation=r, input_sign=_lit(np.asarray(sg)))
                try:
                    v = g.pauli_str_to_F2(S.copy(), sg)
                except Exception as ex:
                    out.violation('%s/pauli_str_to_F2[%s]/%s' % (site, fname, type(ex).__name__), 'pauli_str_to_F2(str batch %s, %s) raised %r' % (shape, fname, ex), **detail)
                    continue
                if _cmp_arr(out, '%s/pauli_str_to_F2[%s]' % (site, fname), 'pauli_str_to_F2(str batch %s, %s)' % (shape, fname), v, expF, detail, exact_dtype=np.uint8):
                    out.trace()
            out.outcome('signbatch:%d:%s:%d' % (n, shape, r), nontrivial=True, pre_digested=True)


def feed_real_matrix(g, out, site, n, e):
    """from_full_matrix on the float64 / int64 copy of a real dense Pauli (XX, ZZ, XZ = -iY, ...)"""
    M = elem_dense(e)
    if np.any(M.imag != 0):
        return False
    for tname, A in (('float64', np.ascontiguousarray(M.real)), ('int64', np.rint(M.real).astype(np.int64))):
        if not np.array_equal(A, M):
            harness_abort('real copy of a dense Pauli differs')
        out.trans()
        name = 'PauliOperator.from_full_matrix[%s]' % tname
        detail = dict(n=n, element_F2=elem_to_f2(e), matrix=_lit(A))
        try:
            v = g.PauliOperator.from_full_matrix(A).F2
        except Exception as ex:
            out.violation('%s/%s/%s' % (site, name, type(ex).__name__), '%s raised %r on the real matrix of %s%s' % (name, ex, SIGN_PREFIX[e[0]], e[1]), **detail)
            continue
        err, exp = cmp_f2(v, e)
        if err is not None:
            out.violation('%s/%s/%s' % (site, name, err), '%s returned %s for the real matrix of %s%s, expected %s' % (name, _lit(v), SIGN_PREFIX[e[0]], e[1], exp.tolist()),
                          observed=_lit(v), expected=exp, **detail)
            continue
        out.trace()
    return True


def group_snapshot(g, n):
    a = g.get_pauli_group(n)
    b = g.get_pauli_group(n, kind='str')
    c = g.get_pauli_group(n, kind='str_to_index')
    d = g.get_pauli_group(n, use_sparse=True)
    return {'numpy': a, 'str': b, 'str_to_index': c, 'sparse': d}


def check_group_recall(g, out, site, n):
    """get_pauli_group (lru_cache) called, caches cleared, called again: both results equal the reference table"""
    M = 4 ** n
    letters = [index_letters(i, n) for i in range(M)]
    dense = np.stack([elem_dense((0, s)) for s in letters])
    snaps = [group_snapshot(g, n)]
    seams.clear_numqi_caches()
    snaps.append(group_snapshot(g, n))
    snaps.append(group_snapshot(g, n))  # third call: served from the refilled cache
    if snaps[0]['numpy'] is snaps[1]['numpy']:
        out.count('undecided_cache_not_cleared')
    for pos, s in enumerate(snaps):
        tag = ['first', 'after_cache_clear', 'cached_again'][pos]
        out.trans(4)
        ok = (isinstance(s['numpy'], np.ndarray) and s['numpy'].shape == dense.shape and np.array_equal(s['numpy'], dense))
        out.check(ok, '%s/get_pauli_group[numpy]/wrong_value/%s' % (site, tag), 'get_pauli_group(%d) (%s call) differs from the kron-built table' % (n, tag), n=n)
        out.check(isinstance(s['str'], tuple) and list(s['str']) == letters, '%s/get_pauli_group[str]/wrong_value/%s' % (site, tag), 'get_pauli_group(%d, kind=str) (%s call) wrong' % (n, tag), n=n, observed=_lit(list(s['str'])[:64]))
        out.check(isinstance(s['str_to_index'], dict) and s['str_to_index'] == {x: i for i, x in enumerate(letters)}, '%s/get_pauli_group[str_to_index]/wrong_value/%s' % (site, tag),
                  'get_pauli_group(%d, kind=str_to_index) (%s call) wrong' % (n, tag), n=n)
        sp = s['sparse']
        ok = isinstance(sp, list) and len(sp) == M and all(np.array_equal(x.toarray(), dense[i]) for i, x in enumerate(sp))
        out.check(ok, '%s/get_pauli_group[sparse]/wrong_value/%s' % (site, tag), 'get_pauli_group(%d, use_sparse=True) (%s call) wrong' % (n, tag), n=n)
        out.trace()


ALIAS_PRE = ['none', 'str_', 'sign', 'np_list', 'full_matrix', 'repr']


def alias_views(p, cands, n):
    """every view of p read ONCE; for each candidate element the names of the views that decode to it"""
    sg = p.sign
    raw = {'F2': p.F2, 'str_,sign': (p.str_, sg), 'np_list': p.np_list, 'full_matrix': p.full_matrix, 'repr': repr(p)}
    ret = []
    for cand in cands:
        ret.append({
            'F2': cmp_f2(raw['F2'], cand)[0] is None,
            'str_,sign': cmp_ss(raw['str_,sign'], cand)[0] is None,
            'np_list': cmp_npl((raw['np_list'], PH[cand[0]]), cand)[0] is None,  # letters only
            'full_matrix': cmp_mat(raw['full_matrix'], cand)[0] is None,
            'repr': cmp_repr(raw['repr'], cand)[0] is None,
        })
    return ret


# ------------------------------------------------------------------ structured alphabets
def big_index_alphabet(n, env, G):
    top = 4 ** n
    s = {0, top - 1}
    for pos in range(n):
        for d in (1, 2, 3):
            s.add(d * 4 ** pos)
    for d in (1, 2, 3):
        s.add(sum(d * 4 ** p for p in range(n)))
    for k in range(2 * n + 1):
        for v in (2 ** k - 1, 2 ** k, 2 ** k + 1):
            if 0 <= v < top:
                s.add(v)
    for k in (8, 16, 24, 32, 40, 48, 56):  # byte boundaries of the packed representation
        for v in (256 ** (k // 8) - 1, 256 ** (k // 8), 0xA5 * 256 ** (k // 8 - 1)):
            if v < top:
                s.add(v)
    rng = env.rng('bigidx', n)
    for _ in range(G):
        digits = rng.integers(0, 4, size=n).tolist()
        s.add(sum(int(d) * 4 ** p for p, d in enumerate(digits)))
    return sorted(s)


def big_letter_alphabet(n, env, G):
    s = ['I' * n]
    for pos in range(n):
        for c in 'XYZ':
            s.append('I' * pos + c + 'I' * (n - pos - 1))
    for c in 'XYZ':
        s.append(c * n)
    s.append(('XZ' * n)[:n])
    s.append(('ZY' * n)[:n])
    for pos in range(n - 1):
        s.append('I' * pos + 'YZ' + 'I' * (n - pos - 2))
        s.append('I' * pos + 'ZY' + 'I' * (n - pos - 2))
    rng = env.rng('bign', n)
    for _ in range(G):
        s.append(''.join(DIG2LET[int(d)] for d in rng.integers(0, 4, size=n)))
    seen = []
    for x in s:
        if x not in seen:
            seen.append(x)
    return [(k, x) for x in seen for k in range(4)]


def n_generic(tier):
    return 2 if tier == 'quick' else 6


# ------------------------------------------------------------------ cases
def batch_shapes(N):
    shapes = [(k,) for k in range(1, N + 1)]
    shapes += [(k, N // k) for k in range(1, N + 1) if N % k == 0]
    shapes += [(2, 2, N // 4), (1, 1), (3, 1), (1, 3)]
    return shapes


OBJ_EVENTS = ['sign', 'str_', 'np_list', 'full_matrix', 'repr', 'len', 'inverse', 'square', 'commute_self']


def prepare(env):
    validate_reference()
    for n in (1, 2, 3):
        ref.pauli_table(n)
    if env.tier == 'thorough':
        ref.pauli_table(4)
        ref.pauli_table(5)


def build_cases(tier, seed):
    quick = tier == 'quick'
    cases = []
    info = {}
    n_full = [1, 2, 3] if quick else [1, 2, 3, 4]
    info['n_full_group'] = n_full
    info['group_sizes'] = {str(n): 4 ** (n + 1) for n in n_full}
    info['conversion_path_length'] = 3
    info['conversion_edges'] = [e[0] for e in EDGES]
    # thorough: conversions and algebra additionally over the whole 5-qubit group (4096 elements, 16.7e6 ordered pairs)
    n_conv = n_full if quick else n_full + [5]
    info['n_full_group_conversions_and_algebra'] = n_conv
    # conv
    for n in n_conv:
        N = 4 ** (n + 1)
        step = 16 if n <= 3 else 32
        for a in range(0, N, step):
            cases.append({'kind': 'conv', 'n': n, 'lo': a, 'hi': min(N, a + step)})
    # algebra
    info['matrix_product_through_full_matrix_n'] = [1, 2] if quick else [1, 2, 3]
    for n in n_conv:
        N = 4 ** (n + 1)
        step = 16
        for a in range(0, N, step):
            cases.append({'kind': 'algebra', 'n': n, 'lo': a, 'hi': min(N, a + step),
                          'via_full_matrix': n in info['matrix_product_through_full_matrix_n']})
    # object histories
    hist = [(1, 3), (2, 3), (3, 2)] if quick else [(1, 4), (2, 4), (3, 3)]
    info['object_history'] = [{'n': n, 'depth': d, 'events': OBJ_EVENTS} for n, d in hist]
    for n, d in hist:
        N = 4 ** (n + 1)
        for a in range(0, N, 8):
            cases.append({'kind': 'objhist', 'n': n, 'depth': d, 'lo': a, 'hi': min(N, a + 8)})
    # batch
    info['batch'] = []
    for n in n_full:
        N = 4 ** (n + 1)
        shapes = batch_shapes(N)
        info['batch'].append({'n': n, 'shapes': len(shapes), 'orders': ['identity', 'permutation(seed)']})
        step = 64
        for perm in (0, 1):
            for a in range(0, len(shapes), step):
                cases.append({'kind': 'batch', 'n': n, 'perm': perm, 'lo': a, 'hi': min(len(shapes), a + step)})
    # argument forms (numpy-scalar indices, out-of-range indices, sign forms, real matrices, cache re-call)
    info['argument_forms'] = {'n': n_full, 'index_scalar_types': [t[0] for t in NP_INDEX_TYPES], 'out_of_range_indices': ['4^n', '4^n+1', '-1'],
                              'scalar_sign_forms': [f[0] for f in sign_forms(0)], 'pending_repairs': sorted(PENDING)}
    for n in n_full:
        cases.append({'kind': 'argform', 'n': n})
    # source array of a PauliOperator overwritten after construction: all ordered pairs (old, new)
    n_alias = [1, 2] if quick else [1, 2, 3]
    info['f2_alias'] = {'n': n_alias, 'reads_before_mutation': ALIAS_PRE}
    for n in n_alias:
        N = 4 ** (n + 1)
        step = 16 if n <= 2 else 8
        for a in range(0, N, step):
            cases.append({'kind': 'f2alias', 'n': n, 'lo': a, 'hi': min(N, a + step)})
    # large indices
    info['big_index_n'] = list(range(1, 32))
    for n in range(1, 32):
        cases.append({'kind': 'bigidx', 'n': n})
    # large n
    info['big_n'] = list(range(5, 13))
    info['big_n_dense_upto'] = 8 if quick else 9
    info['generic_atoms_per_alphabet'] = n_generic(tier)
    for n in range(5, 13):
        cases.append({'kind': 'bign', 'n': n})
        if n <= info['big_n_dense_upto']:
            A = len(big_letter_alphabet(n, core.Env(tier, seed), n_generic(tier)))
            step = 64 if n <= 7 else (16 if n == 8 else 8)
            for a in range(0, A, step):
                cases.append({'kind': 'bign_dense', 'n': n, 'lo': a, 'hi': min(A, a + step)})
    # rand_pauli: stub generator over all answers
    stub_n = [1, 2, 3] if quick else [1, 2, 3, 4, 5]
    info['rand_stub_n'] = stub_n
    for n in stub_n:
        tot = 2 ** (2 * n + 2)
        for a in range(0, tot, 256):
            cases.append({'kind': 'rand_stub', 'n': n, 'lo': a, 'hi': min(tot, a + 256)})
    info['rand_seed_list'] = list(range(3 if quick else 20))
    for n in range(1, 13):
        cases.append({'kind': 'rand_seed', 'n': n, 'seeds': info['rand_seed_list']})
    info['exhaustive'] = True
    info['note'] = ('exhaustive within the stated bounds: every phased Pauli and every ordered pair for n in n_full_group; every '
                    'conversion path of length <= 3; every batch shape (k,), (k,l); every generator answer for n in rand_stub_n. '
                    'For n >= 5 and for indices up to 4^31 a structured alphabet (listed in the check) is enumerated completely.')
    return cases, info


# ------------------------------------------------------------------ case runners
def run_conv(case, out, env, numqi):
    g = numqi.gate
    n = case['n']
    f2all = ref.all_f2(n)
    for i in range(case['lo'], case['hi']):
        e0 = f2_to_elem(f2all[i])
        if n <= 5:
            # cross-check of the two references on every element that is explored
            if not np.array_equal(elem_dense(e0), ref.pauli_dense(f2all[i])):
                harness_abort('elem_dense != pauli_dense for %s' % (f2all[i].tolist(),))
        for node in NODES:
            e = e0 if node in PHASED else (0, e0[1])
            out.state()
            walk(g, out, n, e0, node, start_value(node, e), e, 3, [], node)
    out.sample = {'kind': 'conv', 'n': n, 'element_F2': f2all[case['lo']].tolist(), 'start_nodes': NODES, 'depth': 3}


def dense_rows(n, a):
    """reference: indices of P_a P_j and P_j P_a for all j, and of P_a^-1, from dense matrices"""
    f2, dense, lookup = ref.pauli_table(n)
    left = dense[a] @ dense
    right = dense @ dense[a]
    row = np.array([lookup[ref._mkey(m)] for m in left], dtype=np.int64)
    col = np.array([lookup[ref._mkey(m)] for m in right], dtype=np.int64)
    inv = lookup[ref._mkey(np.linalg.inv(dense[a]))]
    return row, col, inv


def run_algebra(case, out, env, numqi):
    g = numqi.gate
    n = case['n']
    f2all, dense, lookup = ref.pauli_table(n)
    N = len(f2all)
    objs = [g.PauliOperator(f2all[i].copy()) for i in range(N)]
    via = case.get('via_full_matrix', False)
    fm = [p.full_matrix for p in objs] if via else None
    W = 1 << np.arange(2 * n + 2)[::-1]
    ident = np.zeros(2 * n + 2, dtype=np.uint8)
    for a in range(case['lo'], case['hi']):
        row, col, inv_idx = dense_rows(n, a)
        pa = objs[a]
        for b in range(N):
            out.state()
            out.trans(2)
            try:
                c = pa @ objs[b]
                cf = c.F2
            except Exception as ex:
                out.violation('algebra/PauliOperator.__matmul__/%s' % type(ex).__name__, 'a@b raised %r' % (ex,), n=n, a_F2=f2all[a], b_F2=f2all[b])
                continue
            if not (isinstance(c, g.PauliOperator) and isinstance(cf, np.ndarray) and cf.dtype == np.uint8 and cf.shape == (2 * n + 2,) and cf.max() <= 1):
                out.violation('algebra/PauliOperator.__matmul__/not_a_pauli', 'a@b is not a binary Pauli vector: %r' % (cf,), n=n, a_F2=f2all[a], b_F2=f2all[b], observed=cf)
                continue
            if not np.array_equal(cf, f2all[row[b]]):
                out.violation('algebra/PauliOperator.__matmul__/wrong_product',
                              'a@b = %s but the product of the dense matrices is %s (a=%s, b=%s; phase bits are the first two)' % (cf.tolist(), f2all[row[b]].tolist(), f2all[a].tolist(), f2all[b].tolist()),
                              n=n, a_F2=f2all[a], b_F2=f2all[b], observed=cf, expected=f2all[row[b]])
            out.outcome('mul:%d:%d' % (n, int(cf @ W)), nontrivial=bool(cf.any()), pre_digested=True)
            try:
                flag = pa.commutate_with(objs[b])
            except Exception as ex:
                out.violation('algebra/PauliOperator.commutate_with/%s' % type(ex).__name__, 'commutate_with raised %r' % (ex,), n=n, a_F2=f2all[a], b_F2=f2all[b])
                continue
            expc = bool(row[b] == col[b])
            if not isinstance(flag, (bool, np.bool_)) or bool(flag) != expc:
                out.violation('algebra/PauliOperator.commutate_with/wrong_flag',
                              'commutate_with = %r but the dense matrices %s' % (flag, 'commute' if expc else 'do not commute'),
                              n=n, a_F2=f2all[a], b_F2=f2all[b], observed=repr(flag), expected=expc)
            out.outcome('comm:%d:%s' % (n, bool(flag)), nontrivial=not bool(flag), pre_digested=True)
            if via:
                out.trans()
                try:
                    m = c.full_matrix
                except Exception as ex:
                    out.violation('algebra/PauliOperator.full_matrix/%s' % type(ex).__name__, '(a@b).full_matrix raised %r' % (ex,), n=n, a_F2=f2all[a], b_F2=f2all[b])
                    continue
                if m.shape != fm[a].shape or not np.all(np.isfinite(m)) or np.abs(m - fm[a] @ fm[b]).max() > TOL:
                    out.violation('algebra/PauliOperator.__matmul__/matrix_mismatch', '(a@b).full_matrix != a.full_matrix @ b.full_matrix',
                                  n=n, a_F2=f2all[a], b_F2=f2all[b], observed=m, expected=fm[a] @ fm[b])
            out.trace()
        # inverse
        out.trans(3)
        try:
            q = pa.inverse()
            qf = q.F2
            l = (pa @ q).F2
            r = (q @ pa).F2
        except Exception as ex:
            out.violation('algebra/PauliOperator.inverse/%s' % type(ex).__name__, 'inverse raised %r' % (ex,), n=n, a_F2=f2all[a])
            continue
        if not (isinstance(qf, np.ndarray) and qf.dtype == np.uint8 and qf.shape == (2 * n + 2,)) or not np.array_equal(qf, f2all[inv_idx]):
            out.violation('algebra/PauliOperator.inverse/wrong_inverse', 'inverse() = %s but the inverse of the dense matrix is %s (a=%s)' % (np.asarray(qf).tolist(), f2all[inv_idx].tolist(), f2all[a].tolist()),
                          n=n, a_F2=f2all[a], observed=qf, expected=f2all[inv_idx])
        if not (np.array_equal(l, ident) and np.array_equal(r, ident)):
            out.violation('algebra/PauliOperator.inverse/not_two_sided', 'a@a.inverse() or a.inverse()@a is not the identity', n=n, a_F2=f2all[a], left=l, right=r)
        if q is pa:
            out.violation('algebra/PauliOperator.inverse/aliases_operand', 'inverse() returned the operand itself', n=n, a_F2=f2all[a])
        out.outcome('inv:%d:%d' % (n, int(np.asarray(qf).astype(np.int64) @ W) if np.asarray(qf).shape == W.shape else -1), nontrivial=a != 0, pre_digested=True)
        out.trace()
    bad = [i for i in range(N) if not np.array_equal(objs[i].F2, f2all[i])]
    if bad:
        out.violation('algebra/PauliOperator/operand_modified', 'operands were modified by @ / commutate_with / inverse (first: %s became %s)' % (f2all[bad[0]].tolist(), objs[bad[0]].F2.tolist()),
                      n=n, rows=[case['lo'], case['hi']], operand_F2=f2all[bad[0]], now=objs[bad[0]].F2)
    out.sample = {'kind': 'algebra', 'n': n, 'a_F2': f2all[case['lo']].tolist(), 'pairs_with': 'all %d elements' % N}


def run_objhist(case, out, env, numqi):
    g = numqi.gate
    n = case['n']
    depth = case['depth']
    f2all = ref.all_f2(n)

    def derived(q, eq, name):
        """an operator returned by an operation is observed through EVERY representation (a result object that shares
        memoised decode state with its operand is only visible in sign / str_ / matrix, not in F2)"""
        if cmp_f2(q.F2, eq)[0] is not None:
            return ('wrong_%s' % name, q.F2)
        if not _sign_ok(q.sign, eq[0]):
            return ('wrong_%s_sign' % name, q.sign)
        if not (isinstance(q.str_, str) and q.str_ == eq[1]):
            return ('wrong_%s_str' % name, q.str_)
        if cmp_npl((q.np_list, PH[eq[0]]), eq)[0] is not None:
            return ('wrong_%s_np_list' % name, None)
        if n <= 3 and cmp_mat(q.full_matrix, eq)[0] is not None:
            return ('wrong_%s_full_matrix' % name, q.full_matrix)
        if cmp_repr(repr(q), eq)[0] is not None:
            return ('wrong_%s_repr' % name, repr(q))
        return None

    def step(p, ev, e, f2, hist):
        """returns None or (failure class, observed)"""
        if ev == 'sign':
            v = p.sign
            return None if _sign_ok(v, e[0]) else ('wrong_sign', v)
        if ev == 'str_':
            v = p.str_
            return None if (isinstance(v, str) and v == e[1]) else ('wrong_str', v)
        if ev == 'np_list':
            v = p.np_list
            err = cmp_npl((v, PH[e[0]]), e)[0]
            if isinstance(v, list):
                v.clear()  # the caller owns the returned list
            return None if err is None else ('wrong_np_list', None)
        if ev == 'full_matrix':
            v = p.full_matrix
            return None if cmp_mat(v, e)[0] is None else ('wrong_full_matrix', v)
        if ev == 'repr':
            v = repr(p)
            if not isinstance(v, str):
                return ('wrong_repr', v)
            err = cmp_repr(v, e)[0]
            if err is not None:
                return (err, v)
            v = str(p)
            err = cmp_repr(v, e)[0]
            return None if err is None else (err.replace('repr', 'str'), v)
        if ev == 'len':
            v = len(p)
            return None if v == n else ('wrong_len', v)
        if ev == 'inverse':
            return derived(p.inverse(), elem_inv(e), 'inverse')
        if ev == 'square':
            return derived(p @ p, elem_mul(e, e), 'square')
        if ev == 'commute_self':
            v = p.commutate_with(p)
            return None if bool(v) is True else ('wrong_commute', v)
        raise ValueError(ev)

    for i in range(case['lo'], case['hi']):
        f2 = f2all[i]
        e = f2_to_elem(f2)
        for hist in itertools.product(OBJ_EVENTS, repeat=depth):
            out.state()
            p = g.PauliOperator(f2.copy())
            ok = True
            for pos, ev in enumerate(hist):
                out.trans()
                try:
                    r = step(p, ev, e, f2, hist)
                except Exception as ex:
                    out.violation('objhist/PauliOperator.%s/%s' % (ev, type(ex).__name__), '%s raised %r after history %s on F2=%s' % (ev, ex, list(hist[:pos]), f2.tolist()),
                                  n=n, F2=f2, history=list(hist[:pos + 1]))
                    ok = False
                    break
                if r is not None:
                    out.violation('objhist/PauliOperator.%s/%s' % (ev, r[0]), '%s gave %s after history %s on F2=%s' % (ev, str(_lit(r[1]))[:120], list(hist[:pos]), f2.tolist()),
                                  n=n, F2=f2, history=list(hist[:pos + 1]), observed=_lit(r[1]))
                    ok = False
                    break
                if not np.array_equal(p.F2, f2):
                    out.violation('objhist/PauliOperator.%s/operand_modified' % ev, '%s changed the F2 vector of the object' % ev, n=n, F2=f2, history=list(hist[:pos + 1]), now=p.F2)
                    ok = False
                    break
            if ok:
                out.trace()
            out.outcome('hist:%d:%d:%s' % (n, i, ','.join(hist)), nontrivial=bool(f2.any()), pre_digested=True)
    out.sample = {'kind': 'objhist', 'n': n, 'F2': f2all[case['lo']].tolist(), 'example_history': list(OBJ_EVENTS[:depth])}


def _cmp_arr(out, key, what, got, exp, detail, exact_dtype=None, kind=None):
    """batched result against the element-wise reference; returns True if equal"""
    if not isinstance(got, np.ndarray) or got.shape != exp.shape:
        out.violation(key + '/wrong_shape', '%s: result has shape %s, expected %s' % (what, getattr(got, 'shape', type(got)), exp.shape), observed=_lit(got) if isinstance(got, np.ndarray) else repr(got), **detail)
        return False
    if (exact_dtype is not None and got.dtype != exact_dtype) or (kind is not None and got.dtype.kind not in kind):
        out.violation(key + '/wrong_dtype', '%s: result has dtype %s' % (what, got.dtype), **detail)
        return False
    if got.dtype.kind == 'c' or exp.dtype.kind == 'c':
        bad = ~(np.abs(got - exp) <= TOL)
    elif got.dtype.kind in 'iu' and exp.dtype.kind in 'iu':
        # through python ints: numpy would compare int64 with uint64 in float64 and lose the low bits of large indices
        bad = np.array([int(x) != int(y) for x, y in zip(got.reshape(-1).tolist(), exp.reshape(-1).tolist())], dtype=bool).reshape(exp.shape)
    else:
        bad = got != exp
    if np.any(bad):
        pos = tuple(int(x) for x in np.argwhere(bad)[0])
        out.violation(key + '/wrong_value', '%s: entry %s of the batch is %s, element-wise reference %s' % (what, pos, _lit(got[pos]), _lit(exp[pos])),
                      position=list(pos), observed=_lit(got), expected=_lit(exp), **detail)
        return False
    return True


def run_batch(case, out, env, numqi):
    g = numqi.gate
    n = case['n']
    f2all = ref.all_f2(n)
    N = len(f2all)
    L = 2 * n + 2
    elems = [f2_to_elem(v) for v in f2all]
    order = np.arange(N)
    if case['perm']:
        order = env.rng('batchperm', n).permutation(N)
    shapes = batch_shapes(N)[case['lo']:case['hi']]
    for shape in shapes:
        K = int(np.prod(shape))
        sel = order[:K]
        out.state()
        F = np.ascontiguousarray(f2all[sel].reshape(shape + (L,)))
        ref_str = np.array([elems[i][1] for i in sel], dtype='U%d' % n).reshape(shape)
        ref_sign = np.array([PH[elems[i][0]] for i in sel], dtype=np.complex128).reshape(shape)
        ref_idx = np.array([elem_index(elems[i]) for i in sel], dtype=np.uint64).reshape(shape)
        ref_f2_plain = np.stack([elem_to_f2((0, elems[i][1])) for i in sel]).reshape(shape + (L,))  # +1 signed strings
        det = dict(n=n, batch_shape=list(shape), order=sel.tolist() if K <= 64 else {'seed_permutation': bool(case['perm']), 'first': sel[:16].tolist()})

        def call(fname, fn, variant=''):
            out.trans()
            try:
                return True, fn()
            except Exception as ex:
                out.violation('batch/%s/%s%s' % (fname, type(ex).__name__, variant), '%s raised %r on a batch of shape %s (n=%d)' % (fname, ex, shape, n), **det)
                return False, None
        # F2 -> (str, sign)
        ok, r = call('pauli_F2_to_str', lambda: g.pauli_F2_to_str(F.copy()))
        s_impl = None
        if ok:
            if not (isinstance(r, tuple) and len(r) == 2):
                out.violation('batch/pauli_F2_to_str/wrong_type', 'result is not (str, sign)', **det)
            else:
                a = _cmp_arr(out, 'batch/pauli_F2_to_str[str]', 'pauli_F2_to_str strings', r[0], ref_str, dict(det, input_F2=_lit(F)), kind='U')
                b = _cmp_arr(out, 'batch/pauli_F2_to_str[sign]', 'pauli_F2_to_str signs', r[1], ref_sign, dict(det, input_F2=_lit(F)), kind='c')
                if a and b:
                    s_impl = r
                    out.trace()
        # (str, sign) -> F2, from the reference encoding and from the implementation's own output
        for tag, ss in (('ref', (ref_str, ref_sign)), ('impl', s_impl)):
            if ss is None:
                continue
            ok, r = call('pauli_str_to_F2', lambda: g.pauli_str_to_F2(ss[0].copy(), ss[1].copy()))
            if ok and _cmp_arr(out, 'batch/pauli_str_to_F2', 'pauli_str_to_F2(str array, sign array)', r, F, dict(det, input_str=_lit(ss[0]), input_sign=_lit(ss[1])), exact_dtype=np.uint8):
                out.trace()
        # scalar sign broadcast over the batch
        for k, sg in enumerate([1, 1j, -1, -1j]):
            expF = np.stack([elem_to_f2((k, elems[i][1])) for i in sel]).reshape(shape + (L,))
            ok, r = call('pauli_str_to_F2', lambda: g.pauli_str_to_F2(ref_str.copy(), sg), '/scalar_sign')
            if ok and _cmp_arr(out, 'batch/pauli_str_to_F2[scalar_sign]', 'pauli_str_to_F2(str array, sign=%r)' % (sg,), r, expF, dict(det, input_str=_lit(ref_str), input_sign=_lit(sg)), exact_dtype=np.uint8):
                out.trace()
        # F2 -> index (with and without the sign bits)
        ok, r = call('pauli_F2_to_index', lambda: g.pauli_F2_to_index(F.copy(), with_sign=True))
        if ok and _cmp_arr(out, 'batch/pauli_F2_to_index', 'pauli_F2_to_index(with_sign=True)', r, ref_idx, dict(det, input_F2=_lit(F)), kind='iu'):
            out.trace()
        ok, r = call('pauli_F2_to_index', lambda: g.pauli_F2_to_index(np.ascontiguousarray(F[..., 2:]), with_sign=False), '/with_sign=False')
        if ok and _cmp_arr(out, 'batch/pauli_F2_to_index[with_sign=False]', 'pauli_F2_to_index(with_sign=False)', r, ref_idx, dict(det, input_F2=_lit(F[..., 2:])), kind='iu'):
            out.trace()
        # a non-contiguous view of the same batch
        Fbig = np.zeros(shape + (2 * L,), dtype=np.uint8)
        Fbig[..., ::2] = F
        Fbig[..., 1::2] = 1 - F
        ok, r = call('pauli_F2_to_index', lambda: g.pauli_F2_to_index(Fbig[..., ::2], with_sign=True), '/strided')
        if ok and _cmp_arr(out, 'batch/pauli_F2_to_index[strided]', 'pauli_F2_to_index(non-contiguous view)', r, ref_idx, dict(det, input_F2=_lit(F)), kind='iu'):
            out.trace()
        ok, r = call('pauli_F2_to_str', lambda: g.pauli_F2_to_str(Fbig[..., ::2]), '/strided')
        if ok and isinstance(r, tuple) and len(r) == 2:
            a = _cmp_arr(out, 'batch/pauli_F2_to_str[strided,str]', 'pauli_F2_to_str(non-contiguous view) strings', r[0], ref_str, dict(det, input_F2=_lit(F)), kind='U')
            b = _cmp_arr(out, 'batch/pauli_F2_to_str[strided,sign]', 'pauli_F2_to_str(non-contiguous view) signs', r[1], ref_sign, dict(det, input_F2=_lit(F)), kind='c')
            if a and b:
                out.trace()
        # index -> F2 / str, for the index container types the signature allows
        inputs = [('uint64', ref_idx.copy()), ('int64', ref_idx.astype(np.int64)), ('list', ref_idx.tolist())]
        if len(shape) == 1:
            tmp = np.stack([ref_idx, ref_idx[::-1] + np.uint64(1)], axis=1).reshape(-1)
            inputs.append(('strided', tmp[::2]))
            inputs.append(('tuple', tuple(ref_idx.tolist())))
        for tag, idx_in in inputs:
            for ws, expF in ((True, ref_f2_plain), (False, ref_f2_plain[..., 2:])):
                ok, r = call('pauli_index_to_F2', lambda: g.pauli_index_to_F2(idx_in, n, with_sign=ws), '/' + tag)
                if ok and _cmp_arr(out, 'batch/pauli_index_to_F2[%s,with_sign=%s]' % (tag, ws), 'pauli_index_to_F2(%s index batch, with_sign=%s)' % (tag, ws), r, expF,
                                   dict(det, input_index=_lit(np.asarray(idx_in))), exact_dtype=np.uint8):
                    out.trace()
            if isinstance(idx_in, np.ndarray):
                ok, r = call('pauli_index_to_str', lambda: g.pauli_index_to_str(idx_in, n), '/' + tag)
                if ok and _cmp_arr(out, 'batch/pauli_index_to_str[%s]' % tag, 'pauli_index_to_str(%s index batch)' % tag, r, ref_str, dict(det, input_index=_lit(idx_in)), kind='U'):
                    out.trace()
        # str -> index
        ok, r = call('pauli_str_to_index', lambda: g.pauli_str_to_index(ref_str.copy()))
        if ok and _cmp_arr(out, 'batch/pauli_str_to_index', 'pauli_str_to_index(str array)', r, ref_idx, dict(det, input_str=_lit(ref_str)), kind='iu'):
            out.trace()
        out.outcome('batch:%d:%s:%d:%d' % (n, shape, case['perm'], int(sel[0])), nontrivial=K > 1, pre_digested=True)
    out.sample = {'kind': 'batch', 'n': n, 'shapes': [list(s) for s in shapes[:4]], 'permuted': bool(case['perm'])}


def run_bigidx(case, out, env, numqi):
    g = numqi.gate
    n = case['n']
    alpha = big_index_alphabet(n, env, n_generic(env.tier))
    # scalar: every conversion path of length <= 3 that starts at the index / string / F2 node, dense matrices excluded
    for idx in alpha:
        letters = index_letters(idx, n)
        e = (0, letters)
        if elem_index(e) != idx:
            harness_abort('index reference')
        out.state()
        for node in ('IDX', 'SS', 'F2', 'F2NS'):
            walk(g, out, n, e, node, start_value(node, e), e, 3 if n <= 12 else 2, [], node, site='bigidx', dense_ok=False)
    # numpy integer scalars (elements of the library's own index batches, int32 where it fits) into the scalar consumers
    letters, batches = library_index_batches(g, out, 'bigidx', n, alpha)
    for tname, arr in batches:
        for pos in range(len(alpha)):
            out.state()
            feed_numpy_index(g, out, 'bigidx', n, arr[pos], tname, letters[pos], dense_ok=False)
            out.outcome('npidx:%d:%s:%d' % (n, tname, int(alpha[pos])), nontrivial=alpha[pos] != 0, pre_digested=True)
    # 4^n, 4^n+1, -1 have to be rejected
    feed_out_of_range(g, out, 'bigidx', n)
    # batched: the whole alphabet at once, shapes (k,) and (k,l)
    K = len(alpha)
    shapes = [(K,)] + [(k, K // k) for k in (2, 3) if K % k == 0] + [(1,), (K - 1,)]
    for shape in shapes:
        m = int(np.prod(shape))
        sel = alpha[:m] if shape != (1,) else [alpha[-1]]
        out.state()
        ref_idx = np.array(sel, dtype=np.uint64).reshape(shape)
        ref_str = np.array([index_letters(i, n) for i in sel], dtype='U%d' % n).reshape(shape)
        ref_F = np.stack([elem_to_f2((0, index_letters(i, n))) for i in sel]).reshape(shape + (2 * n + 2,))
        det = dict(n=n, batch_shape=list(shape), index=[int(i) for i in sel])

        def call(fname, fn):
            out.trans()
            try:
                return True, fn()
            except Exception as ex:
                out.violation('bigidx/%s/%s' % (fname, type(ex).__name__), '%s raised %r for n=%d indices %s...' % (fname, ex, n, sel[:4]), **det)
                return False, None
        ok, r = call('pauli_index_to_str', lambda: g.pauli_index_to_str(ref_idx.copy(), n))
        if ok and _cmp_arr(out, 'bigidx/pauli_index_to_str[batch]', 'pauli_index_to_str', r, ref_str, det, kind='U'):
            out.trace()
            ok, r2 = call('pauli_str_to_index', lambda: g.pauli_str_to_index(r))
            if ok and _cmp_arr(out, 'bigidx/pauli_str_to_index[batch]', 'pauli_str_to_index', r2, ref_idx, det, kind='iu'):
                out.trace()
        for ws in (True, False):
            expF = ref_F if ws else ref_F[..., 2:]
            ok, r = call('pauli_index_to_F2', lambda: g.pauli_index_to_F2(ref_idx.copy(), n, with_sign=ws))
            if ok and _cmp_arr(out, 'bigidx/pauli_index_to_F2[batch,with_sign=%s]' % ws, 'pauli_index_to_F2(with_sign=%s)' % ws, r, expF, det, exact_dtype=np.uint8):
                out.trace()
                ok, r2 = call('pauli_F2_to_index', lambda: g.pauli_F2_to_index(r, with_sign=ws))
                if ok and _cmp_arr(out, 'bigidx/pauli_F2_to_index[batch,with_sign=%s]' % ws, 'pauli_F2_to_index(with_sign=%s)' % ws, r2, ref_idx, det, kind='iu'):
                    out.trace()
        ok, r = call('pauli_F2_to_str', lambda: g.pauli_F2_to_str(ref_F.copy()))
        if ok and isinstance(r, tuple) and len(r) == 2:
            a = _cmp_arr(out, 'bigidx/pauli_F2_to_str[batch,str]', 'pauli_F2_to_str strings', r[0], ref_str, det, kind='U')
            b = _cmp_arr(out, 'bigidx/pauli_F2_to_str[batch,sign]', 'pauli_F2_to_str signs', r[1], np.ones(shape, dtype=np.complex128), det, kind='c')
            if a and b:
                out.trace()
        out.outcome('bigidx:%d:%s' % (n, shape), nontrivial=True, pre_digested=True)
    out.sample = {'kind': 'bigidx', 'n': n, 'alphabet_size': len(alpha), 'largest': int(alpha[-1])}


def run_bign(case, out, env, numqi):
    g = numqi.gate
    n = case['n']
    alpha = big_letter_alphabet(n, env, n_generic(env.tier))
    f2s = [elem_to_f2(e) for e in alpha]
    # conversions: all paths of length <= 2 from the F2, (str,sign), index and np_list nodes (dense matrices: kind bign_dense)
    for e in alpha:
        out.state()
        for node in ['F2', 'SS', 'NPL'] + (['IDX', 'F2NS'] if e[0] == 0 else []):
            walk(g, out, n, e, node, start_value(node, e), e, 2, [], node, site='bign', dense_ok=False)
    # sign argument forms and repr / str on the structured + generic alphabet
    for e in alpha:
        out.state()
        feed_sign_forms(g, out, 'bign', n, e)
        out.trans(2)
        try:
            p = g.PauliOperator(elem_to_f2(e))
            rs = [('repr', repr(p)), ('str', str(p)), ('repr', repr(g.PauliOperator.from_str(e[1], sign=PH[e[0]])))]
        except Exception as ex:
            out.violation('bign/PauliOperator.repr/%s' % type(ex).__name__, 'repr raised %r for %s%s' % (ex, SIGN_PREFIX[e[0]], e[1]), n=n, F2=elem_to_f2(e))
            continue
        for what, v in rs:
            err, exp = cmp_repr(v, e)
            if err is not None:
                out.violation('bign/PauliOperator.%s/%s' % (what, err), '%s(p) = %r, expected %r' % (what, v, exp), n=n, F2=elem_to_f2(e), observed=v, expected=exp)
                break
        else:
            out.trace()
    # algebra: all ordered pairs of the alphabet against the letter-wise reference
    objs = [g.PauliOperator(v.copy()) for v in f2s]
    ident = np.zeros(2 * n + 2, dtype=np.uint8)
    for ia, a in enumerate(alpha):
        for ib, b in enumerate(alpha):
            out.state()
            out.trans(2)
            try:
                cf = (objs[ia] @ objs[ib]).F2
                flag = objs[ia].commutate_with(objs[ib])
            except Exception as ex:
                out.violation('bign/PauliOperator.__matmul__/%s' % type(ex).__name__, 'a@b / commutate_with raised %r' % (ex,), n=n, a_F2=f2s[ia], b_F2=f2s[ib])
                continue
            exp = elem_to_f2(elem_mul(a, b))
            if not (isinstance(cf, np.ndarray) and cf.dtype == np.uint8 and cf.shape == exp.shape and np.array_equal(cf, exp)):
                out.violation('bign/PauliOperator.__matmul__/wrong_product', 'a@b = %s, tensor-factor-wise product of the matrices %s (a=%s%s, b=%s%s)' % (np.asarray(cf).tolist(), exp.tolist(), ['', 'i', '-', '-i'][a[0]], a[1], ['', 'i', '-', '-i'][b[0]], b[1]),
                              n=n, a_F2=f2s[ia], b_F2=f2s[ib], observed=cf, expected=exp)
            if bool(flag) != elem_commute(a, b):
                out.violation('bign/PauliOperator.commutate_with/wrong_flag', 'commutate_with = %r for a=%s, b=%s' % (flag, a[1], b[1]), n=n, a_F2=f2s[ia], b_F2=f2s[ib])
            out.outcome('bmul:%d:%s' % (n, np.asarray(cf).tobytes().hex()), nontrivial=bool(np.asarray(cf).any()), pre_digested=True)
            out.trace()
        out.trans(2)
        try:
            q = objs[ia].inverse()
            qf = q.F2
            l = (objs[ia] @ q).F2
        except Exception as ex:
            out.violation('bign/PauliOperator.inverse/%s' % type(ex).__name__, 'inverse raised %r' % (ex,), n=n, a_F2=f2s[ia])
            continue
        if not np.array_equal(qf, elem_to_f2(elem_inv(a))) or not np.array_equal(l, ident):
            out.violation('bign/PauliOperator.inverse/wrong_inverse', 'inverse() = %s for a = %s%s' % (np.asarray(qf).tolist(), ['', 'i', '-', '-i'][a[0]], a[1]), n=n, a_F2=f2s[ia], observed=qf, expected=elem_to_f2(elem_inv(a)))
    bad = [i for i in range(len(alpha)) if not np.array_equal(objs[i].F2, f2s[i])]
    if bad:
        out.violation('bign/PauliOperator/operand_modified', 'operands were modified by the algebra', n=n, operand_F2=f2s[bad[0]], now=objs[bad[0]].F2)
    # rand_pauli: the generator answers each alphabet element
    rand_answers(numqi, out, n, f2s, 'bign')
    out.sample = {'kind': 'bign', 'n': n, 'alphabet_size': len(alpha), 'example': ['%d:%s' % e for e in alpha[-3:]]}


def run_bign_dense(case, out, env, numqi):
    g = numqi.gate
    n = case['n']
    alpha = big_letter_alphabet(n, env, n_generic(env.tier))
    for e in alpha[case['lo']:case['hi']]:
        out.state()
        for node in ('F2', 'MAT'):
            walk(g, out, n, e, node, start_value(node, e), e, 2, [], node, site='bign', dense_ok=True)
    out.sample = {'kind': 'bign_dense', 'n': n, 'example': '%d:%s' % alpha[case['lo']]}


FLAGS = [('None', None), ('True', True), ('False', False), ('np.True_', np.True_), ('np.False_', np.False_)]


def check_rand_result(out, site, n, p, flagname, flag, numqi, detail):
    g = numqi.gate
    if not isinstance(p, g.PauliOperator):
        out.violation('%s/rand_pauli/wrong_type' % site, 'rand_pauli returned %r' % (type(p),), **detail)
        return None
    f = p.F2
    if not (isinstance(f, np.ndarray) and f.dtype == np.uint8 and f.shape == (2 * n + 2,) and f.max() <= 1):
        out.violation('%s/rand_pauli/not_a_pauli' % site, 'rand_pauli(%d) returned F2=%r' % (n, f), observed=_lit(f), **detail)
        return None
    e = f2_to_elem(f)
    herm = elem_hermitian(e)
    if n <= 4:
        M = ref.pauli_dense(f)
        dh = np.array_equal(M, M.conj().T)
        da = np.array_equal(M, -M.conj().T)
        if dh != herm or da == herm:
            harness_abort('hermiticity reference disagrees with the dense matrix for %s' % (f.tolist(),))
    if flag is not None and bool(flag) != herm:
        out.violation('%s/rand_pauli/flag_not_honoured/is_hermitian=%s' % (site, bool(flag)),
                      'rand_pauli(%d, is_hermitian=%s) returned %s%s (F2=%s) which is %s' % (n, flagname, ['', 'i', '-', '-i'][e[0]], e[1], f.tolist(), 'Hermitian' if herm else 'anti-Hermitian'),
                      observed_F2=f, **detail)
    return e


def rand_answers(numqi, out, n, patterns, site):
    for bits in patterns:
        bits = np.asarray(bits, dtype=np.uint8)
        for flagname, flag in FLAGS:
            out.state()
            out.trans()
            stub = seams.StubGenerator(answers=[bits.copy()])
            detail = dict(n=n, is_hermitian=flagname, generator_answer=bits)
            try:
                p = numqi.random.rand_pauli(n, is_hermitian=flag, seed=stub)
            except seams.StubExhausted:
                out.count('undecided_generator_asked_twice')
                continue
            except Exception as ex:
                if core.is_precondition_assert(ex) and flagname.startswith('np.'):
                    out.count('rejected_by_precondition')
                    continue
                out.violation('%s/rand_pauli/%s' % (site, type(ex).__name__), 'rand_pauli(%d, is_hermitian=%s) raised %r' % (n, flagname, ex), **detail)
                continue
            if [x[0] for x in stub.log] != ['integers'] or stub.answers:
                out.count('undecided_stub_not_consulted')
            e = check_rand_result(out, site, n, p, flagname, flag, numqi, detail)
            if e is not None:
                out.outcome('rand:%d:%s:%d:%s' % (n, bool(flag) if flag is not None else None, e[0], e[1]), nontrivial=flag is not None, pre_digested=True)
                out.trace()


def run_rand_stub(case, out, env, numqi):
    n = case['n']
    L = 2 * n + 2
    pats = [[(v >> (L - 1 - j)) & 1 for j in range(L)] for v in range(case['lo'], case['hi'])]
    rand_answers(numqi, out, n, pats, 'rand_stub')
    out.sample = {'kind': 'rand_stub', 'n': n, 'generator_answer': pats[0], 'flags': [f[0] for f in FLAGS]}


def run_rand_seed(case, out, env, numqi):
    n = case['n']
    for seed in case['seeds']:
        for flagname, flag in FLAGS[:3]:
            out.state()
            out.trans()
            detail = dict(n=n, is_hermitian=flagname, seed=seed)
            try:
                p = numqi.random.rand_pauli(n, is_hermitian=flag, seed=seed)
            except Exception as ex:
                out.violation('rand_seed/rand_pauli/%s' % type(ex).__name__, 'rand_pauli(%d, is_hermitian=%s, seed=%d) raised %r' % (n, flagname, seed, ex), **detail)
                continue
            e = check_rand_result(out, 'rand_seed', n, p, flagname, flag, numqi, detail)
            if e is not None:
                out.outcome('rands:%d:%s:%d:%s' % (n, flag, e[0], e[1]), nontrivial=flag is not None, pre_digested=True)
                out.trace()
    out.sample = {'kind': 'rand_seed', 'n': n, 'seeds': case['seeds']}


def library_index_batches(g, out, site, n, idx_list):
    """the index batches the library itself produces for the given indices: uint64 from pauli_str_to_index, int64 from
    pauli_F2_to_index (their ELEMENTS are what a caller feeds back one at a time), plus the int32 cast where it fits"""
    letters = [index_letters(i, n) for i in idx_list]
    src = {}
    try:
        src['pauli_str_to_index'] = g.pauli_str_to_index(np.array(letters, dtype='U%d' % n))
        src['pauli_F2_to_index'] = g.pauli_F2_to_index(np.stack([elem_to_f2((0, s)) for s in letters]))
    except Exception as ex:
        out.violation('%s/index_batch/%s' % (site, type(ex).__name__), 'index batch conversion raised %r' % (ex,), n=n)
    ret = []
    for name, arr in src.items():
        if isinstance(arr, np.ndarray) and arr.shape == (len(idx_list),) and arr.dtype.kind in 'iu' and [int(x) for x in arr.tolist()] == list(idx_list):
            ret.append(('%s->%s' % (name, arr.dtype.name), arr))
            out.count('numpy_index_from_library')
        else:
            out.count('undecided_library_index_batch')  # a wrong batch is reported by the batch / bigidx kinds
    have = {a.dtype for _, a in ret}
    for tname, T, lim in NP_INDEX_TYPES:
        if np.dtype(T) not in have and max(idx_list) < lim:
            ret.append((tname, np.array(idx_list, dtype=T)))
    return letters, ret


def run_argform(case, out, env, numqi):
    g = numqi.gate
    n = case['n']
    site = 'argform'
    M = 4 ** n
    # gap 1: numpy integer scalars into the scalar index consumers, all 4^n indices x element types
    letters, batches = library_index_batches(g, out, site, n, list(range(M)))
    for tname, arr in batches:
        for pos in range(M):
            out.state()
            sc = arr[pos]
            if not isinstance(sc, np.integer):
                harness_abort('element of an index batch is not a numpy integer')
            feed_numpy_index(g, out, site, n, sc, tname, letters[pos])
            out.outcome('npidx:%d:%s:%d' % (n, type(sc).__name__, pos), nontrivial=pos != 0, pre_digested=True)
    # gap 2: out-of-range indices
    feed_out_of_range(g, out, site, n)
    # gap 4: sign argument forms, scalar and batched; gap 6: real / integer dense matrices
    real = 0
    for f2 in ref.all_f2(n):
        e = f2_to_elem(f2)
        out.state()
        feed_sign_forms(g, out, site, n, e)
        real += bool(feed_real_matrix(g, out, site, n, e))
        out.outcome('argform:%d:%d:%s' % (n, e[0], e[1]), nontrivial=(e != (0, 'I' * n)), pre_digested=True)
    if real != 2 * 4 ** n:  # i^k * letters is real iff k + #Y is even
        harness_abort('number of real dense Paulis')
    feed_sign_batch(g, out, site, n)
    # gap 6: lru_cache'd tables re-built after the caches were cleared
    check_group_recall(g, out, site, n)
    out.sample = {'kind': 'argform', 'n': n, 'index_types': [b[0] for b in batches], 'sign_forms': [f[0] for f in sign_forms(0)]}


def run_f2alias(case, out, env, numqi):
    """PauliOperator(src) keeps a reference to src. History: construct, read one view (memoises _str/_sign/_np_list), overwrite
    src in place with another element, read every view. The views must describe ONE operator (all old or all new)."""
    g = numqi.gate
    n = case['n']
    f2all = ref.all_f2(n)
    N = len(f2all)
    elems = [f2_to_elem(v) for v in f2all]
    ctors = [('PauliOperator', lambda s: g.PauliOperator(s)), ('PauliOperator.from_F2', lambda s: g.PauliOperator.from_F2(s))]
    for a in range(case['lo'], case['hi']):
        for b in range(N):
            if a == b:
                continue
            for cname, ctor in ctors:
                for pre in ALIAS_PRE:
                    if pre != 'none' and pending(out, 'f2_alias'):
                        continue
                    out.state()
                    out.trans(7)
                    src = f2all[a].copy()
                    detail = dict(n=n, old_F2=f2all[a], new_F2=f2all[b], read_before_mutation=pre, constructor=cname)
                    try:
                        p = ctor(src)
                        if pre == 'repr':
                            repr(p)
                        elif pre != 'none':
                            getattr(p, pre)
                        src[:] = f2all[b]
                        vo, vn = alias_views(p, [elems[a], elems[b]], n)
                    except Exception as ex:
                        out.violation('f2alias/%s/%s' % (cname, type(ex).__name__), 'reading the views of %s(src) after src was overwritten raised %r' % (cname, ex), **detail)
                        continue
                    if all(vo.values()):
                        out.outcome('alias:%d:%s:old' % (n, pre), nontrivial=True, pre_digested=True)
                    elif all(vn.values()):
                        out.outcome('alias:%d:%s:new' % (n, pre), nontrivial=True, pre_digested=True)
                    else:
                        out.violation('f2alias/%s/mixed_views/read_%s_first' % (cname, pre),
                                      'p=%s(src); %ssrc[:]=%s (was %s): views describing the old operator %s, the new one %s - the object is neither' % (
                                          cname, '' if pre == 'none' else 'p.%s; ' % pre, f2all[b].tolist(), f2all[a].tolist(),
                                          [k for k, v in vo.items() if v], [k for k, v in vn.items() if v]),
                                      views_old=[k for k, v in vo.items() if v], views_new=[k for k, v in vn.items() if v], **detail)
                        continue
                    out.trace()
    out.sample = {'kind': 'f2alias', 'n': n, 'old_F2': f2all[case['lo']].tolist(), 'reads_before_mutation': ALIAS_PRE}


RUNNERS = {'argform': run_argform, 'f2alias': run_f2alias, 'conv': run_conv,'algebra': run_algebra, 'objhist': run_objhist, 'batch': run_batch, 'bigidx': run_bigidx,
           'bign': run_bign, 'bign_dense': run_bign_dense, 'rand_stub': run_rand_stub, 'rand_seed': run_rand_seed}


def run_case(case, out, env):
    import numqi
    RUNNERS[case['kind']](case, out, env, numqi)
