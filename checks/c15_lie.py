"""C15 - SU(2)/SO(3) conversions are consistent for every rotation, gimbal lock included  (mode P + H over conversions)

Spaces (DESIGN.md section 4, C15). Every space is a finite product that is enumerated completely.

  so3grid : for every beta of the beta alphabet (0 and pi exactly - pi both as the float np.pi and with exact trigonometric
            values -, |beta-pole| in {1e-9 .. 1e-3} on both sides, a regular interior grid) x ALL (alpha, gamma) on the
            regular grid k*2pi/NA (all four quadrants of alpha+gamma and alpha-gamma, every multiple of pi/2):
            conversion path   angles -> SO(3) -> angles -> SO(3) -> angles -> SO(3)   and   SO(3) -> SU(2) -> SO(3),
            every step compared; the whole (alpha,gamma) grid once more as ONE batch and through broadcasting.
  su2grid : the same with gamma on [0,4pi): angles -> SU(2) -> angles -> SU(2) (sign-exact: su2_to_angle documents
            gamma in (0,4pi)), SU(2) -> SO(3) (two-to-one: U and -U), SO(3) -> SU(2) (equal up to the documented sign);
            the whole grid as one batch and angle_to_su2 through broadcasting (alpha (NA,1), beta scalar, gamma (1,2NA)).
            Finding keys of both grids and of the pair products share the site "roundtrip" (suffix = beta class of the
            input: beta=0 | beta=pi | zero_eps_band_at_* | near_* | interior); whole-grid calls use the site "gridbatch".
  pairs   : rotation alphabet = the complete octahedral rotation group as exact signed permutation matrices / the
            complete binary octahedral group (48 elements) + z-rotations by awkward angles + near-degenerate elements +
            generic atoms; ALL ordered pairs: su2_to_so3(U1 U2) = R1 R2, so3_to_su2(R1 R2) = +-U1 U2, the round trips on
            every product (products of axis-aligned rotations are again gimbal-locked), and for every j2:
            D(U1 U2) = D(U1) D(U2), D unitary, D equal to the symmetric-power reference.
  irrep   : get_su2_irrep(j2, .) on an Euler grid (poles included, gamma on [0,4pi)): angle entry and matrix entry agree with
            each other and with the symmetric-power reference, unitary, cold and warm coefficient cache; the angle entry
            once more through broadcasting per beta.
  batch   : ALL ordered tuples of length 1..3 (and all 2x2, 1x3, 3x1 arrangements) over an alphabet of 8 rotations
            (3 at beta=0, 2 at beta=pi, 1 inside the zero_eps band, 2 generic atoms) for every batch-taking function:
            the batched call equals the element-wise calls, whatever the mixture.
            Option / argument-form coordinates of the irrep spaces: return_matd=True (scalar calls on the sub-grid of multiples of
            pi/2 and the atoms, the complete grid through one batched matrix-entry call and one broadcast angle-entry call per
            beta, the batch families): first element bit-identical with the default call, matd real and equal to the reference
            small-d matrix (symmetric power of Uy(beta)), j2 = 0 included; j2 handed over as float / np.float64 / np.int64 with a
            cold coefficient table gives bit-identically what the python int gives.
  zeps    : zero_eps in {0, 1e-12, 1e-7 (explicit), 1e-3}, positional and keyword, for so3_to_angle / su2_to_angle / so3_to_su2 /
            su2_to_so3 on the poles, every near-pole beta and one interior beta x the whole (alpha,gamma) grid, scalar and as one
            batch: rebuild error <= 1e3*eps per step when the reference sin(beta) >= 4*zero_eps (or is an exact pole), <=
            4*min(sin beta, zero_eps) inside the band; so3_to_su2 agrees with angle_to_su2 of so3_to_angle at the SAME zero_eps
            (forwarding); su2_to_so3 is bit-identical with the default call. zero_eps = 0 makes the validation asserts of
            su2_to_angle / su2_to_so3 (`... < zero_eps`) unsatisfiable: counted as rejected_by_precondition.
  anglebox: canonical grid triples mapped out of the box (alpha, gamma shifted by -2pi / +4pi; (alpha+pi, -beta, gamma+pi);
            (alpha+pi, 2pi-beta, gamma+pi)): angle_to_so3 equal, angle_to_su2 / get_su2_irrep(angles) equal up to the KNOWN sign
            (table BOX_MAPS, re-verified on the reference), the way back inside the documented ranges and sign-exact.
  angleforms: python ints (all triples of a small integer alphabet, beta outside [0,pi] too), np.int64, 0-d arrays, mixed int/float,
            lists / tuples / nested lists of them, list + scalar broadcasting for angle_to_so3 / angle_to_su2 / get_su2_irrep.
  dtype   : SO(3) matrices typed complex128 (rotation alphabet + a grid for every beta) and int64 (octahedral group), the real
            elements of the binary octahedral group typed float64 / int64, scalar (full conversion chains) and batched.
  angmom  : get_angular_momentum_op(j2): entries equal the ladder-operator reference, Hermitian, commutators, Casimir.
  cg      : get_clebsch_gordan_coeffient(j1, j2) for ALL (j1, j2) with j1+j2 <= bound: block list, selection rule,
            orthogonality both ways, intertwining with J1 x 1 + 1 x J2, every value equal to Racah's formula evaluated in
            exact rational arithmetic; cold and warm cache.

Reference model (plain numpy, nothing shared with the code under test):
  Rz, Ry as explicit 3x3 / 2x2 matrices multiplied with matmul (ZYZ: Rz(alpha) Ry(beta) Rz(gamma));
  SU(2) -> SO(3) as R_ij = Re Tr(sigma_i U sigma_j U^dagger)/2;
  spin-j matrix of U as the action of U on homogeneous polynomials of degree 2j in (x, y) (np.convolve), basis
  x^(j+m) y^(j-m)/sqrt((j+m)!(j-m)!), m = j..-j - needs no Euler angles, so the 4pi branch is checked independently;
  angular momentum from J+|m> = sqrt(j(j+1)-m(m+1))|m+1>;  Clebsch-Gordan by Racah's formula with fractions.Fraction.

Tolerances (DESIGN 3.2: c * eps * kappa, c = 1e3, eps = 2.2e-16):
  * matrix -> angles -> matrix is a well conditioned problem (only the split of alpha+-gamma is undetermined at the
    poles; every matrix entry is a product of at most three sines/cosines): kappa = 1, tol = 1e3*eps = 2.2e-13 per
    conversion step (n steps: n times that).
  * the library documents a switch `zero_eps = 1e-7`: rotations with sin(beta) below it may be treated as exactly
    gimbal-locked. Doing so changes the entries proportional to sin(beta) (third row/column; U01, U10 for SU(2)) by at
    most 2 sin(beta) <= 2e-7. For inputs whose *reference* sin(beta) is below 4*zero_eps (factor 4: dead band around the
    threshold, DESIGN 3.2) the tolerance is therefore 4*zero_eps = 4e-7 instead; for irreps the same error is amplified
    by the generator norm j <= j2, giving 4*zero_eps*j2. Exactly degenerate inputs (sin(beta) == 0) get no allowance.
  * explicit zero_eps = z (zeps space): the same argument with z in place of 1e-7, sharpened by what the locked branch really
    discards: allowance 4*min(sin beta, z) for reference sin(beta) in [1e-15, 4z), none outside (tol_rt_z).
  * spin-j matrices: the Wigner small-d entries are alternating sums whose absolute terms add up to at most 2^(2j):
    kappa = 2^j2, tol = 1e3*eps*2^j2 (2.3e-10 at j2 = 10); products of two such matrices: 3 times that.
  * angular momentum: entries <= j, commutator entries are sums of <= 2 products <= j^2: tol = 1e3*eps*max(1,j^2).
  * Clebsch-Gordan values: sympy's evalf is accurate to the last digit, Racah reference too: tol = 1e3*eps; the
    intertwining relation multiplies by |J| <= j1+j2+1: tol = 1e3*eps*(j1+j2+1).
"""
import fractions
import functools
import itertools
import math

import numpy as np

PROPERTY = 'C15'
GUARD = ['numqi.group._lie', 'numqi.matrix_space._clebsch_gordan']  # argument-immutability oracle (mc.seams.ImmutabilityGuard)
LEVEL = 'model_checking'
RULE = ('mode P + H over conversions: case = one beta of the beta alphabet (all (alpha,gamma) grid points inside), one first element of '
        'the rotation alphabet (all second elements and all j2 inside), one (function, batch arrangement) (all tuples over the batch '
        'alphabet inside), one j2, one (j1,j2), one (beta, zero_eps value, positional/keyword) (all grid points, four functions, scalar and '
        'batched), one beta with all out-of-box images of every grid triple, one input dtype form (all exactly representable alphabet '
        'elements), or the non-array angle forms (all integer triples). state = one rotation / ordered pair / batch tuple / (j, component) / Clebsch-Gordan '
        'entry; transition = one numqi call whose complete output was compared with the reference; trace = one element followed through '
        'a whole conversion path (angles->matrix->angles->matrix->angles->matrix, matrix->other group->back) with every step compared, '
        'or one pair / batch / table on which every relation was checked; non-trivial = the observed rotation is not the identity / '
        'the observed matrix is not diagonal / the coefficient is non-zero')
ASSUMPTIONS = [
    'Euler convention ZYZ: angle_to_so3(a,b,g) = Rz(a) Ry(b) Rz(g), angle_to_su2(a,b,g) = exp(-i a sz/2) exp(-i b sy/2) exp(-i g sz/2) '
    '(docstrings + tests_group/test_group_lie.py); basis order m = j, j-1, .., -j; get_su2_irrep(1, U) = U',
    'su2_to_angle documents gamma in (0,4pi) so that angle_to_su2(*su2_to_angle(U)) = U including the sign; "up to the documented sign" '
    'applies to so3_to_su2 only (comment "# ret, -ret"); an exact sign flip is reported under its own finding key',
    'rotations with reference sin(beta) < 4*zero_eps (zero_eps = 1e-7, the documented default) may be reproduced with error 4*zero_eps; '
    'everything else to 1e3*eps*kappa',
    'lattice statement: nothing is claimed for angles off the enumerated grids (inside the box and its enumerated images under shifts '
    'by -2pi/+4pi and beta -> -beta, 2pi-beta), for zero_eps outside {0, 1e-12, 1e-7, 1e-3}, for input dtypes other than '
    'float64/complex128 and (exactly representable elements only) int64 / real float64, for empty batches, for j2 / j1+j2 above the bounds',
    'explicit zero_eps = z: rotations with reference sin(beta) < 4z may be reproduced with error 4*min(sin beta, z) (the locked branch keeps '
    'beta and alpha+-gamma and discards the split); an argument-validation AssertionError of su2_to_angle / su2_to_so3 at zero_eps = 0 '
    '(the assert `|U00-conj(U11)| < zero_eps` cannot hold) is a rejection, at zero_eps > 0 a violation',
    'return_matd=True returns (D, d) with d = D(0,beta,0) real, where beta is the Euler angle of the element (for the matrix entry the one '
    'su2_to_angle extracts; it is not affected by gimbal lock)',
    'the reference spin-j matrix (symmetric power of U in the monomial basis) fixes the Condon-Shortley convention; numqi agrees with it '
    'for generic rotations (repository test: get_su2_irrep(1,U)=U and eq. 4.75 of its reference)',
]
CHUNK = 1

EPS = 2.220446049250313e-16
C_SAFETY = 1e3
ZERO_EPS = 1e-7          # documented default of so3_to_angle / su2_to_angle / so3_to_su2
TOL1 = C_SAFETY * EPS    # one well-conditioned conversion step
BAND = 4 * ZERO_EPS

SIG = [np.array([[0, 1], [1, 0]], dtype=np.complex128), np.array([[0, -1j], [1j, 0]], dtype=np.complex128),
       np.array([[1, 0], [0, -1]], dtype=np.complex128)]


# ----------------------------------------------------------------------------------------------- reference model
def rz3(a, cs=None):
    c, s = (math.cos(a), math.sin(a)) if cs is None else cs
    return np.array([[c, -s, 0.0], [s, c, 0.0], [0.0, 0.0, 1.0]])


def ry3(b, cs=None):
    c, s = (math.cos(b), math.sin(b)) if cs is None else cs
    return np.array([[c, 0.0, s], [0.0, 1.0, 0.0], [-s, 0.0, c]])


def ref_so3(a, b, g, beta_cs=None):
    return rz3(float(a)) @ ry3(float(b), beta_cs) @ rz3(float(g))


def uz2(a):
    return np.array([[np.exp(-0.5j * a), 0], [0, np.exp(0.5j * a)]], dtype=np.complex128)


def uy2(b, half_cs=None):
    c, s = (math.cos(b / 2), math.sin(b / 2)) if half_cs is None else half_cs
    return np.array([[c, -s], [s, c]], dtype=np.complex128)


def ref_su2(a, b, g, half_cs=None):
    return uz2(float(a)) @ uy2(float(b), half_cs) @ uz2(float(g))


def ref_su2_to_so3(U):
    Ud = U.conj().T
    return np.array([[0.5 * np.trace(SIG[i] @ U @ SIG[j] @ Ud).real for j in range(3)] for i in range(3)])


def sinb_so3(R):
    return float(np.hypot(R[2, 0], R[2, 1]))


def sinb_su2(U):
    return float(2 * abs(U[0, 0]) * abs(U[0, 1]))


def in_band(sinb):
    """reference sin(beta) inside the dead band of the documented zero_eps switch, but not an exact pole (sin(np.pi) = 1.2e-16
    counts as exact: dropping it changes the matrix by less than eps)"""
    return 1e-15 <= sinb < BAND


def tol_rt(sinb, steps=1):
    """round-trip tolerance of a rotation whose reference sin(beta) is `sinb` (see module docstring)"""
    if in_band(sinb):
        return BAND + steps * TOL1
    return steps * TOL1


def beta_class(sinb, cosb):
    side = '0' if cosb > 0 else 'pi'
    if sinb < 1e-15:
        return 'beta=' + side  # exact pole; np.pi as a float has sin = 1.2e-16
    if sinb < BAND:
        return 'zero_eps_band_at_' + side
    if sinb < 2e-2:
        return 'near_' + side
    return 'interior'


@functools.lru_cache(maxsize=None)
def _poly_norm(j2):
    f = np.array([math.sqrt(math.factorial(j2 - k) * math.factorial(k)) for k in range(j2 + 1)])
    return f[:, None] / f[None, :]


def ref_irrep(j2, U):
    """spin-j2/2 matrix of U: (x,y) -> (x,y)U on homogeneous polynomials; column k = image of x^(j2-k) y^k / sqrt((j2-k)! k!)"""
    a, b, c, d = U[0, 0], U[0, 1], U[1, 0], U[1, 1]
    D = np.zeros((j2 + 1, j2 + 1), dtype=np.complex128)
    px = [np.array([1.0 + 0j])]
    py = [np.array([1.0 + 0j])]
    for _ in range(j2):
        px.append(np.convolve(px[-1], [a, c]))   # (a x + c y)^n, entry l = coefficient of x^(n-l) y^l
        py.append(np.convolve(py[-1], [b, d]))
    for k in range(j2 + 1):
        D[:, k] = np.convolve(px[j2 - k], py[k])
    return D * _poly_norm(j2)


def tol_irrep(j2, band=False, factor=1):
    return factor * C_SAFETY * EPS * 2.0 ** j2 + (BAND * max(j2, 1) if band else 0.0)


@functools.lru_cache(maxsize=None)
def ref_angmom(j2):
    n = j2 + 1
    j = j2 / 2
    m = np.array([j - k for k in range(n)])
    jp = np.zeros((n, n))
    for k in range(1, n):   # J+ |m_k> = sqrt(j(j+1)-m_k(m_k+1)) |m_{k-1}>
        jp[k - 1, k] = math.sqrt(j * (j + 1) - m[k] * (m[k] + 1))
    jx = (jp + jp.T) / 2
    jy = (jp - jp.T) / 2j
    jz = np.diag(m)
    return jx.astype(np.complex128), jy, jz.astype(np.complex128)


def _f(n2):
    """factorial of n2/2 where n2 is an even non-negative doubled integer"""
    assert n2 % 2 == 0 and n2 >= 0
    return math.factorial(n2 // 2)


def racah_cg(j1, m1, j2, m2, J, M):
    """<j1 m1 j2 m2 | J M>, all arguments doubled integers, Condon-Shortley convention, exact rational arithmetic under the roots"""
    if m1 + m2 != M or J < abs(j1 - j2) or J > j1 + j2 or (j1 + j2 + J) % 2:
        return 0.0
    if abs(m1) > j1 or abs(m2) > j2 or abs(M) > J:
        return 0.0
    pref = fractions.Fraction((J + 1) * _f(J + j1 - j2) * _f(J - j1 + j2) * _f(j1 + j2 - J), _f(j1 + j2 + J + 2))
    pref *= _f(J + M) * _f(J - M) * _f(j1 - m1) * _f(j1 + m1) * _f(j2 - m2) * _f(j2 + m2)
    s = fractions.Fraction(0)
    for k2 in range(0, j1 + j2 - J + 2, 2):
        args = [k2, j1 + j2 - J - k2, j1 - m1 - k2, j2 + m2 - k2, J - j2 + m1 + k2, J - j1 - m2 + k2]
        if min(args) < 0:
            continue
        den = 1
        for x in args:
            den *= _f(x)
        s += fractions.Fraction((-1) ** (k2 // 2), den)
    val = pref * s * s
    r = math.sqrt(float(val))   # Fraction -> float is correctly rounded also for huge numerators
    return r if s > 0 else -r


# ----------------------------------------------------------------------------------------------- alphabets
NEAR_QUICK = [1e-9, 5e-8, 2e-7, 1e-5, 1e-3]
NEAR_THOROUGH = [1e-12, 1e-10, 1e-9, 1e-8, 5e-8, 9e-8, 1.1e-7, 2e-7, 1e-6, 1e-5, 1e-4, 1e-3, 1e-2]


def beta_alphabet(tier):
    """list of (label, beta, kind); kind 'num' = trigonometric functions of the float, 'pi_exact' = cos = -1, sin = 0 exactly"""
    near = NEAR_QUICK if tier == 'quick' else NEAR_THOROUGH
    nint = 8 if tier == 'quick' else 16
    ret = [('0', 0.0, 'num'), ('pi', math.pi, 'num'), ('pi_exact', math.pi, 'pi_exact')]
    for d in near:
        ret.append(('0+%g' % d, d, 'num'))
        ret.append(('pi-%g' % d, math.pi - d, 'num'))
    for k in range(1, nint):
        ret.append(('%d*pi/%d' % (k, nint), k * math.pi / nint, 'num'))
    return ret


def beta_trig(beta, kind):
    if kind == 'pi_exact':
        return (-1.0, 0.0), (0.0, 1.0)   # (cos b, sin b), (cos b/2, sin b/2)
    return None, None


def snap(x, values=(0.0, 0.5, math.sqrt(0.5), 1.0)):
    """snap real and imaginary parts within 1e-12 of +-values onto them (exact axis-aligned group elements)"""
    x = np.array(x)
    parts = [x.real.copy(), x.imag.copy()] if np.iscomplexobj(x) else [x.copy()]
    for p in parts:
        for v in values:
            for s in (1.0, -1.0):
                p[np.abs(p - s * v) < 1e-12] = s * v
        p += 0.0
    return parts[0] + 1j * parts[1] if len(parts) == 2 else parts[0]


@functools.lru_cache(maxsize=None)
def binary_octahedral():
    """the 48 elements of the binary octahedral group as (euler angles, exact matrix), identity first"""
    seen = {}
    for kb in range(3):
        for ka in range(4):
            for kg in range(8):
                ang = (ka * math.pi / 2, kb * math.pi / 2, kg * math.pi / 2)
                U = snap(ref_su2(*ang))
                key = tuple(np.round(np.concatenate([U.real.ravel(), U.imag.ravel()]), 9) + 0.0)
                if key not in seen:
                    seen[key] = (ang, U)
    ret = list(seen.values())
    assert len(ret) == 48
    return ret


def generic_atoms(env, n, tag='atoms'):
    rng = env.rng('C15', tag)
    return [(float(rng.uniform(0, 2 * math.pi)), float(rng.uniform(0.2, math.pi - 0.2)), float(rng.uniform(0, 4 * math.pi))) for _ in range(n)]


def rotation_alphabet(env):
    """(labels, U list, R list, kinds). Used for the pair spaces. Both matrices are built from the same Euler angles by the
    reference; the octahedral part is snapped to its exact entries (signed permutation matrices / (+-1+-i)/2, 1/sqrt2 ...)."""
    labels, angs, kinds = [], [], []
    for i, (ang, U) in enumerate(binary_octahedral()):
        labels.append('2O[%d]=su2(%d,%d,%d)*pi/2' % (i, round(ang[0] / (math.pi / 2)), round(ang[1] / (math.pi / 2)), round(ang[2] / (math.pi / 2))))
        angs.append(ang)
        kinds.append('octa')
    extra = [('Rz(4.5)', (4.5, 0.0, 0.0)), ('Rz(-1)', (-1.0, 0.0, 0.0)), ('Rz(2)Ry(pi)Rz(5)', (2.0, math.pi, 5.0)),
             ('Ry(3e-8)-ish', (1.0, 3e-8, 2.0)), ('Ry(pi-3e-8)-ish', (0.5, math.pi - 3e-8, 4.0)), ('Ry(1e-5)-ish', (3.0, 1e-5, 8.0))]
    if env.tier != 'quick':
        extra += [('Rz(%g)' % t, (t, 0.0, 0.0)) for t in (0.1, 3.0, 3.5, 6.0, 9.0)]
        extra += [('su2(%d,%d,%d)*pi/4' % (a, b, g), (a * math.pi / 4, b * math.pi / 4, g * math.pi / 4))
                  for a in (1, 3, 5, 7) for b in (1, 2, 3) for g in (1, 6, 11)]
        extra += [('Ry(2e-7)-ish', (2.5, 2e-7, 7.0)), ('Ry(pi-1e-9)-ish', (4.5, math.pi - 1e-9, 1.0))]
    for lab, ang in extra:
        labels.append('%s=su2%r' % (lab, ang))
        angs.append(ang)
        kinds.append('extra')
    G = 2 if env.tier == 'quick' else 6
    for i, ang in enumerate(generic_atoms(env, G)):
        labels.append('atom%d=su2(%r,%r,%r)' % (i, ang[0], ang[1], ang[2]))
        angs.append(ang)
        kinds.append('atom')
    Us = [snap(ref_su2(*a)) if k == 'octa' else ref_su2(*a) for a, k in zip(angs, kinds)]
    Rs = [snap(ref_so3(*a), values=(0.0, 1.0)) if k == 'octa' else ref_so3(*a) for a, k in zip(angs, kinds)]
    return labels, Us, Rs, kinds


def batch_alphabet(env):
    """8 Euler triples: three at beta=0, two at beta=pi, one inside the zero_eps band, two generic atoms"""
    at = generic_atoms(env, 2, tag='batch_atoms')
    return [('identity', (0.0, 0.0, 0.0), 'deg'), ('Rz(4.5)', (4.5, 0.0, 0.0), 'deg'), ('Rz(pi/2)', (0.25 * math.pi, 0.0, 0.25 * math.pi), 'deg'),
            ('Ry(pi)', (0.0, math.pi, 0.0), 'deg'), ('Rz(.3)Ry(pi)Rz(1.2+2pi)', (0.3, math.pi, 1.2 + 2 * math.pi), 'deg'),
            ('Rz(1)Ry(3e-8)Rz(2)', (1.0, 3e-8, 2.0), 'deg'), ('atom0', at[0], 'gen'), ('atom1', at[1], 'gen')]


# ----------------------------------------------------------------------------------------------- helpers for calling numqi
def call(out, site, fn, args, detail, kw=None):
    """one numqi call; any exception on these (admissible: exact rotations, float64) inputs is a violation"""
    out.trans()
    try:
        return True, fn(*args, **(kw or {}))
    except Exception as e:  # noqa
        out.violation('%s/%s' % (site, type(e).__name__), '%s raised %s: %s' % (site.split('/')[1], type(e).__name__, str(e)[:200]), **detail)
        return False, None


def finite(*xs):
    return all(np.all(np.isfinite(np.asarray(x))) for x in xs)


def count_range(out, a, b, g, gmax):
    a, b, g = np.asarray(a), np.asarray(b), np.asarray(g)
    if np.any(a < 0) or np.any(a > 2 * math.pi) or np.any(b < 0) or np.any(b > math.pi) or np.any(g < 0) or np.any(g > gmax):
        out.count('angle_outside_documented_range')


def is_su2(U, tol):
    return np.abs(U @ U.conj().T - np.eye(2)).max() <= tol and abs(np.linalg.det(U) - 1) <= tol


def chain_so3(numqi, out, R, site, det, steps0=0, cast=None):
    """SO(3) -> angles -> SO(3) -> angles -> SO(3) and SO(3) -> SU(2) -> SO(3) on one rotation matrix. Returns True if all held.
    cast: dtype in which R is handed to numqi (the value is unchanged: the caller passes exactly representable matrices only)"""
    g = numqi.group
    give = (lambda X: X.copy()) if cast is None else (lambda X: X.astype(cast))
    sb = sinb_so3(R)
    cls = beta_class(sb, R[2, 2])
    det = dict(det, R=R, sin_beta=sb)
    ok, ang = call(out, '%s/so3_to_angle' % site, g.so3_to_angle, (give(R),), det)
    if not ok:
        return False
    if not finite(*ang):
        out.violation('%s/so3_to_angle/nonfinite/%s' % (site, cls), 'so3_to_angle returned NaN/Inf angles %r for a rotation matrix (%s)' % (tuple(float(x) for x in ang), cls),
                      angles=[float(x) for x in ang], **det)
        return False
    count_range(out, *ang, 2 * math.pi)
    good = True
    ok, R1 = call(out, '%s/angle_to_so3' % site, g.angle_to_so3, ang, dict(det, angles=[float(x) for x in ang]))
    if not ok:
        return False
    R1 = np.asarray(R1)
    Rr = ref_so3(*ang)
    if R1.shape != (3, 3) or np.abs(R1 - Rr).max() > TOL1:
        out.violation('%s/angle_to_so3/differs_from_RzRyRz' % site, 'angle_to_so3%r is not Rz(alpha)Ry(beta)Rz(gamma)' % (tuple(float(x) for x in ang),),
                      angles=[float(x) for x in ang], got=R1, expected=Rr)
        return False
    err = float(np.abs(R1 - R).max())
    tol = tol_rt(sb, 2 + steps0)
    if not err <= tol:
        out.violation('%s/so3_to_angle/rebuild_mismatch/%s' % (site, cls),
                      'angle_to_so3(*so3_to_angle(R)) differs from R by %.3g (tol %.3g) for a rotation with %s: angles %r' % (err, tol, cls, tuple(float(x) for x in ang)),
                      angles=[float(x) for x in ang], rebuilt=R1, err=err, tol=tol, **det)
        good = False
    else:
        # second lap: the rebuilt matrix is again a rotation; angles -> SO(3) -> angles -> SO(3)
        ok, ang2 = call(out, '%s/so3_to_angle' % site, g.so3_to_angle, (R1.copy(),), dict(det, R=R1, lap=2))
        if ok:
            if not finite(*ang2):
                out.violation('%s/so3_to_angle/nonfinite/%s' % (site, cls), 'so3_to_angle returned NaN/Inf on its own rebuilt matrix', R1=R1, lap=2, **det)
                good = False
            else:
                R2 = ref_so3(*ang2)
                err2 = float(np.abs(R2 - R).max())
                tol2 = tol_rt(sb, 4 + steps0)
                if not err2 <= tol2:
                    out.violation('%s/so3_to_angle/rebuild_mismatch_second_lap/%s' % (site, cls),
                                  'R -> angles -> R1 -> angles -> R2: R2 differs from R by %.3g (tol %.3g), %s' % (err2, tol2, cls),
                                  angles=[float(x) for x in ang], angles2=[float(x) for x in ang2], err=err2, tol=tol2, **det)
                    good = False
        else:
            good = False
    # SO(3) -> SU(2) -> SO(3)
    ok, U = call(out, '%s/so3_to_su2' % site, g.so3_to_su2, (give(R),), det)
    if ok:
        U = np.asarray(U)
        if U.shape != (2, 2) or not finite(U):
            out.violation('%s/so3_to_su2/nonfinite_or_shape/%s' % (site, cls), 'so3_to_su2 returned shape %s / non-finite entries' % (U.shape,), got=U, **det)
            good = False
        else:
            tolu = tol_rt(sb, 3 + steps0)
            if not is_su2(U, 8 * TOL1):
                out.violation('%s/so3_to_su2/not_su2' % site, 'so3_to_su2(R) is not a special unitary matrix', got=U, **det)
                good = False
            errR = float(np.abs(ref_su2_to_so3(U) - R).max())
            if not errR <= tolu:
                out.violation('%s/so3_to_su2/not_a_preimage/%s' % (site, cls),
                              'the SO(3) image of so3_to_su2(R) differs from R by %.3g (tol %.3g), %s' % (errR, tolu, cls), got=U, err=errR, tol=tolu, **det)
                good = False
            ok, Rb = call(out, '%s/su2_to_so3' % site, g.su2_to_so3, (U.copy(),), dict(det, U=U)) if errR <= tolu else (None, None)
            if ok is None:
                pass  # so3_to_su2 already reported; su2_to_so3 of a wrong preimage says nothing new
            elif ok:
                errb = float(np.abs(np.asarray(Rb) - R).max()) if np.asarray(Rb).shape == (3, 3) else np.inf
                if not errb <= tolu:
                    out.violation('%s/su2_to_so3/so3_su2_so3_mismatch/%s' % (site, cls),
                                  'su2_to_so3(so3_to_su2(R)) differs from R by %.3g (tol %.3g), %s' % (errb, tolu, cls), got=Rb, err=errb, tol=tolu, **det)
                    good = False
            else:
                good = False
    else:
        good = False
    out.outcome(('so3', np.round(np.array([float(x) for x in ang]), 5)), nontrivial=bool(np.abs(R - np.eye(3)).max() > 1e-6))
    if good:
        out.trace()
    return good


def chain_su2(numqi, out, U, site, det, steps0=0, cast=None):
    """SU(2) -> angles -> SU(2) (sign-exact) -> angles -> SU(2); SU(2) -> SO(3) for U and -U; SO(3) -> SU(2) equal up to sign.
    cast: dtype in which U is handed to numqi (real / integer dtypes for the real elements; the value is unchanged)"""
    g = numqi.group
    give = (lambda X: X.copy()) if cast is None else (lambda X: (X.real if np.dtype(cast).kind in 'fi' else X).astype(cast))
    sb = sinb_su2(U)
    cls = beta_class(sb, abs(U[0, 0]) - abs(U[0, 1]))
    det = dict(det, U=U, sin_beta=sb)
    good = True
    ok, ang = call(out, '%s/su2_to_angle' % site, g.su2_to_angle, (give(U),), det)
    if ok and not finite(*ang):
        out.violation('%s/su2_to_angle/nonfinite/%s' % (site, cls), 'su2_to_angle returned NaN/Inf angles %r (%s)' % (tuple(float(x) for x in ang), cls),
                      angles=[float(x) for x in ang], **det)
        ok = False
    if ok:
        count_range(out, *ang, 4 * math.pi)
        fl = [float(x) for x in ang]
        ok2, U1 = call(out, '%s/angle_to_su2' % site, g.angle_to_su2, ang, dict(det, angles=fl))
        if ok2:
            U1 = np.asarray(U1)
            Ur = ref_su2(*ang)
            if U1.shape != (2, 2) or np.abs(U1 - Ur).max() > TOL1:
                out.violation('%s/angle_to_su2/differs_from_UzUyUz' % site, 'angle_to_su2%r is not exp(-i a sz/2)exp(-i b sy/2)exp(-i g sz/2)' % (tuple(fl),),
                              angles=fl, got=U1, expected=Ur)
                good = False
            else:
                tol = tol_rt(sb, 2 + steps0)
                errp = float(np.abs(U1 - U).max())
                errm = float(np.abs(U1 + U).max())
                if errp <= tol:
                    ok3, ang2 = call(out, '%s/su2_to_angle' % site, g.su2_to_angle, (U1.copy(),), dict(det, U=U1, lap=2))
                    if ok3 and finite(*ang2):
                        err2 = float(np.abs(ref_su2(*ang2) - U).max())
                        tol2 = tol_rt(sb, 4 + steps0)
                        if not err2 <= tol2:
                            out.violation('%s/su2_to_angle/rebuild_mismatch_second_lap/%s' % (site, cls),
                                          'U -> angles -> U1 -> angles -> U2: U2 differs from U by %.3g (tol %.3g), %s' % (err2, tol2, cls),
                                          angles=fl, angles2=[float(x) for x in ang2], err=err2, tol=tol2, **det)
                            good = False
                    else:
                        if ok3:
                            out.violation('%s/su2_to_angle/nonfinite/%s' % (site, cls), 'su2_to_angle returned NaN/Inf on its own rebuilt matrix', U1=U1, lap=2, **det)
                        good = False
                elif errm <= tol:
                    out.violation('%s/su2_to_angle/sign_4pi_branch/%s' % (site, cls),
                                  'angle_to_su2(*su2_to_angle(U)) = -U (wrong 4pi branch of gamma) for an SU(2) matrix with %s: angles %r' % (cls, tuple(fl)),
                                  angles=fl, rebuilt=U1, **det)
                    good = False
                else:
                    out.violation('%s/su2_to_angle/rebuild_mismatch/%s' % (site, cls),
                                  'angle_to_su2(*su2_to_angle(U)) differs from both U (%.3g) and -U (%.3g), tol %.3g, %s: angles %r' % (errp, errm, tol, cls, tuple(fl)),
                                  angles=fl, rebuilt=U1, err=min(errp, errm), tol=tol, **det)
                    good = False
        else:
            good = False
        out.outcome(('su2', np.round(np.array(fl), 5)), nontrivial=bool(np.abs(U - np.eye(2)).max() > 1e-6))
    else:
        good = False
    # two-to-one map
    Rref = ref_su2_to_so3(U)
    for sgn in (1, -1):
        ok, R = call(out, '%s/su2_to_so3' % site, g.su2_to_so3, (give(sgn * U),), dict(det, sign=sgn))
        if not ok:
            good = False
            continue
        R = np.asarray(R)
        if R.shape != (3, 3) or R.dtype.kind != 'f' or not np.abs(R - Rref).max() <= TOL1:
            out.violation('%s/su2_to_so3/differs_from_trace_formula%s' % (site, '' if sgn == 1 else '/minus_U'),
                          'su2_to_so3(%sU) differs from Re Tr(s_i U s_j U^+)/2' % ('' if sgn == 1 else '-'), got=R, expected=Rref, sign=sgn, **det)
            good = False
    # SU(2) -> SO(3) -> SU(2): equal up to the documented sign
    ok, Ub = call(out, '%s/so3_to_su2' % site, g.so3_to_su2, (Rref.copy(),), dict(det, R=Rref))
    if ok:
        Ub = np.asarray(Ub)
        tolu = tol_rt(sb, 3 + steps0)
        e = min(float(np.abs(Ub - U).max()), float(np.abs(Ub + U).max())) if Ub.shape == (2, 2) and finite(Ub) else np.inf
        if not e <= tolu:
            out.violation('%s/so3_to_su2/su2_so3_su2_mismatch/%s' % (site, cls),
                          'so3_to_su2(su2_to_so3(U)) differs from +-U by %.3g (tol %.3g), %s' % (e, tolu, cls), got=Ub, R=Rref, err=e, tol=tolu, **det)
            good = False
    else:
        good = False
    if good:
        out.trace()
    return good


# ----------------------------------------------------------------------------------------------- cases
def build_cases(tier, seed):
    quick = tier == 'quick'
    NA = 24 if quick else 96
    j2max = 10 if quick else 16
    cgmax = 12 if quick else 20
    ammax = 10 if quick else 40
    cases = []
    betas = beta_alphabet(tier)
    for lab, b, kind in betas:
        cases.append({'kind': 'so3grid', 'beta_label': lab, 'beta': b, 'beta_kind': kind, 'NA': NA})
    for lab, b, kind in betas:
        cases.append({'kind': 'su2grid', 'beta_label': lab, 'beta': b, 'beta_kind': kind, 'NA': NA})
    nz = 8 if quick else 24
    zbetas = [x for x in betas if '*pi/' not in x[0]] + [x for x in betas if x[0] == '%d*pi/%d' % ((4, 8) if quick else (8, 16))]
    for lab, b, kind in zbetas:
        for ze, form in ZE_ALPHABET:
            cases.append({'kind': 'zeps', 'beta_label': lab, 'beta': b, 'beta_kind': kind, 'ze': ze, 'form': form, 'NA': nz})
    for lab, b, kind in betas:
        if kind == 'num':
            cases.append({'kind': 'anglebox', 'beta_label': lab, 'beta': b, 'NA': 6 if quick else 12, 'j2s': [1, 2, j2max] if quick else [0, 1, 2, 3, 7, j2max]})
    cases.append({'kind': 'angleforms', 'j2s': [1, 2, 5] if quick else [0, 1, 2, 5, j2max]})
    for form in DTYPE_FORMS:
        cases.append({'kind': 'dtype', 'form': form, 'NA': 8 if quick else 24, 'j2max': j2max})
    for j2 in range(ammax + 1):
        cases.append({'kind': 'angmom', 'j2': j2})
    for s in range(cgmax + 1):
        for j1 in range(s + 1):
            cases.append({'kind': 'cg', 'j1d': j1, 'j2d': s - j1})
    nir = 8 if quick else 16
    for j2 in range(j2max + 1):
        cases.append({'kind': 'irrep', 'j2': j2, 'NA': nir})
    from mc import core
    n_alpha = len(rotation_alphabet(core.Env(tier, seed))[0])
    for i in range(n_alpha):
        cases.append({'kind': 'pairs', 'i': i, 'j2max': j2max})
    fams = ['so3_to_angle', 'su2_to_angle', 'so3_to_su2', 'su2_to_so3', 'angle_to_so3', 'angle_to_su2', 'irrep_mat', 'irrep_ang']
    arrs = ['1d', '(1,3)', '(3,1)', '(2,2)'] + ([] if quick else ['(4,)', '(2,1,2)'])
    for fam in fams:
        for arr in arrs:
            if arr in ('(2,2)', '(4,)', '(2,1,2)'):
                for first in range(8):
                    cases.append({'kind': 'batch', 'fam': fam, 'arr': arr, 'first': first})
            else:
                cases.append({'kind': 'batch', 'fam': fam, 'arr': arr, 'first': None})
    info = {
        'beta_alphabet': [b[0] for b in betas], 'alpha_gamma_grid': 'k*2pi/%d, k=0..%d (gamma up to 4pi for SU(2))' % (NA, NA - 1),
        'so3_grid_points': len(betas) * NA * NA, 'su2_grid_points': len(betas) * NA * 2 * NA,
        'rotation_alphabet_size': n_alpha, 'ordered_pairs': n_alpha * n_alpha, 'j2_irrep': [0, j2max], 'irrep_grid': '%d alpha x all beta x %d gamma' % (nir, 2 * nir),
        'j2_angular_momentum': [0, ammax], 'clebsch_gordan_bound_doubled': cgmax, 'clebsch_gordan_pairs': (cgmax + 1) * (cgmax + 2) // 2,
        'batch_alphabet_size': 8, 'batch_arrangements': arrs, 'batch_functions': fams,
        'zero_eps_alphabet': ZE_ALPHABET, 'zero_eps_betas': [x[0] for x in zbetas], 'zero_eps_grid': '%d alpha x %d (SO3) / %d (SU2) gamma' % (nz, nz, 2 * nz),
        'out_of_box_maps': [m[0] for m in BOX_MAPS], 'integer_angle_alphabets': [INT_ALPHA, INT_BETA, INT_GAMMA], 'dtype_forms': DTYPE_FORMS,
        'j2_forms': ['float', 'np.float64', 'np.int64'], 'return_matd': 'scalar: sub-grid of multiples of pi/2 + atoms; batched: whole grid per beta; batch families: '
        + ('tuples of length 1..3' if quick else 'every arrangement'), 'pending': sorted(PENDING),
        'zero_eps': ZERO_EPS, 'tol_step': TOL1, 'tol_band': BAND,
        'property_quantifier': 'j2 = 0..10, j1+j2 <= 6 (doubled: 12): covered completely in both tiers',
        'exhaustive': True,
        'note': 'exhaustive within the stated finite spaces (every grid point, every ordered pair, every batch tuple, every table entry); '
                'a lattice statement - nothing is claimed for angles off the grids',
    }
    return cases, info


def limit_per_key(out, per_key=3):
    """the engine materialises at most 50 violations per case; keep at most `per_key` literal examples per finding key so that one
    failure class cannot crowd out the examples of another one in the same case (every violation is still counted)"""
    import collections
    seen = collections.Counter()
    record = out.violation

    def violation(key, what, **detail):
        seen[key] += 1
        if seen[key] <= per_key:
            record(key, what, **detail)
        else:
            out.n_violations += 1
    out.violation = violation


def run_case(case, out, env):
    import numqi  # noqa
    limit_per_key(out)
    kind = case['kind']
    if kind == 'so3grid':
        run_so3grid(case, out, env)
    elif kind == 'su2grid':
        run_su2grid(case, out, env)
    elif kind == 'pairs':
        run_pairs(case, out, env)
    elif kind == 'irrep':
        run_irrep(case, out, env)
    elif kind == 'batch':
        run_batch(case, out, env)
    elif kind == 'zeps':
        run_zeps(case, out, env)
    elif kind == 'dtype':
        run_dtype(case, out, env)
    elif kind == 'anglebox':
        run_anglebox(case, out, env)
    elif kind == 'angleforms':
        run_angleforms(case, out, env)
    elif kind == 'angmom':
        run_angmom(case, out, env)
    elif kind == 'cg':
        run_cg(case, out, env)
    else:
        raise ValueError(kind)


# ----------------------------------------------------------------------------------------------- grids
def run_so3grid(case, out, env):
    import numqi
    g = numqi.group
    NA, beta, bk = case['NA'], case['beta'], case['beta_kind']
    cs, _ = beta_trig(beta, bk)
    grid = [k * 2 * math.pi / NA for k in range(NA)]
    site = 'roundtrip'
    Rall = np.zeros((NA, NA, 3, 3))
    all_ok = True
    for ia, a in enumerate(grid):
        for ig, c in enumerate(grid):
            out.state()
            R = ref_so3(a, beta, c, cs)
            Rall[ia, ig] = R
            det = {'alpha': a, 'beta': beta, 'gamma': c, 'beta_label': case['beta_label']}
            if bk == 'num':
                ok, Ri = call(out, '%s/angle_to_so3' % site, g.angle_to_so3, (a, beta, c), det)
                if ok and (np.asarray(Ri).shape != (3, 3) or not np.abs(np.asarray(Ri) - R).max() <= TOL1):
                    out.violation('%s/angle_to_so3/differs_from_RzRyRz' % site, 'angle_to_so3(%r,%r,%r) is not Rz(alpha)Ry(beta)Rz(gamma)' % (a, beta, c),
                                  got=Ri, expected=R, **det)
                    all_ok = False
            all_ok &= chain_so3(numqi, out, R, site, det)
    # the complete grid as one (NA,NA) batch, and the forward map through broadcasting
    det = {'beta': beta, 'beta_label': case['beta_label'], 'batch': 'whole (alpha,gamma) grid, shape (%d,%d)' % (NA, NA)}
    out.state()
    ok, ang = call(out, 'gridbatch/so3_to_angle', g.so3_to_angle, (Rall.copy(),), det)
    if ok:
        if any(np.shape(x) != (NA, NA) for x in ang) or not finite(*ang):
            out.violation('gridbatch/so3_to_angle/shape_or_nonfinite', 'batched so3_to_angle returned shapes %s / non-finite angles' % ([np.shape(x) for x in ang],), **det)
        else:
            sb = sinb_so3(Rall[0, 0])
            Rb = np.array([[ref_so3(ang[0][i, j], ang[1][i, j], ang[2][i, j]) for j in range(NA)] for i in range(NA)])
            err = np.abs(Rb - Rall).reshape(NA, NA, 9).max(axis=2)
            if not err.max() <= tol_rt(sb, 2):
                i, j = [int(v) for v in np.argwhere(~(err <= tol_rt(sb, 2)))[0]]
                out.violation('gridbatch/so3_to_angle/rebuild_mismatch/%s' % beta_class(sb, Rall[0, 0, 2, 2]),
                              'homogeneous batch: element (alpha=%r, gamma=%r) rebuilt with error %.3g' % (grid[i], grid[j], err[i, j]),
                              alpha=grid[i], gamma=grid[j], R=Rall[i, j], err=float(err[i, j]), **det)
            else:
                out.trace()
    if bk == 'num':
        out.state()
        ga = np.array(grid)
        ok, Rb = call(out, 'gridbatch/angle_to_so3', g.angle_to_so3, (ga[:, None], beta, ga[None, :]), dict(det, batch='alpha (NA,1), beta scalar, gamma (1,NA)'))
        if ok:
            Rb = np.asarray(Rb)
            if Rb.shape != (NA, NA, 3, 3) or not np.abs(Rb - Rall).max() <= TOL1:
                out.violation('gridbatch/angle_to_so3/broadcast_mismatch', 'angle_to_so3(alpha[:,None], beta, gamma[None,:]) has shape %s / differs element-wise' % (Rb.shape,), **det)
            else:
                out.trace()
    out.sample = {'kind': 'so3grid', 'beta_label': case['beta_label'], 'beta': beta, 'grid_points': NA * NA, 'example': {'alpha': grid[1], 'gamma': grid[-1], 'R': Rall[1, -1]}}


def run_su2grid(case, out, env):
    import numqi
    g = numqi.group
    NA, beta, bk = case['NA'], case['beta'], case['beta_kind']
    _, hcs = beta_trig(beta, bk)
    ga = [k * 2 * math.pi / NA for k in range(NA)]
    gg = [k * 2 * math.pi / NA for k in range(2 * NA)]
    site = 'roundtrip'
    Uall = np.zeros((NA, 2 * NA, 2, 2), dtype=np.complex128)
    for ia, a in enumerate(ga):
        for ig, c in enumerate(gg):
            out.state()
            U = ref_su2(a, beta, c, hcs)
            Uall[ia, ig] = U
            det = {'alpha': a, 'beta': beta, 'gamma': c, 'beta_label': case['beta_label']}
            if bk == 'num':
                ok, Ui = call(out, '%s/angle_to_su2' % site, g.angle_to_su2, (a, beta, c), det)
                if ok and (np.asarray(Ui).shape != (2, 2) or not np.abs(np.asarray(Ui) - U).max() <= TOL1):
                    out.violation('%s/angle_to_su2/differs_from_UzUyUz' % site, 'angle_to_su2(%r,%r,%r) is not exp(-i a sz/2)exp(-i b sy/2)exp(-i g sz/2)' % (a, beta, c),
                                  got=Ui, expected=U, **det)
            chain_su2(numqi, out, U, site, det)
    det = {'beta': beta, 'beta_label': case['beta_label'], 'batch': 'whole (alpha,gamma) grid, shape (%d,%d)' % (NA, 2 * NA)}
    out.state()
    ok, ang = call(out, 'gridbatch/su2_to_angle', g.su2_to_angle, (Uall.copy(),), det)
    if ok:
        if any(np.shape(x) != (NA, 2 * NA) for x in ang) or not finite(*ang):
            out.violation('gridbatch/su2_to_angle/shape_or_nonfinite', 'batched su2_to_angle returned shapes %s / non-finite angles' % ([np.shape(x) for x in ang],), **det)
        else:
            sb = sinb_su2(Uall[0, 0])
            Ub = np.array([[ref_su2(ang[0][i, j], ang[1][i, j], ang[2][i, j]) for j in range(2 * NA)] for i in range(NA)])
            err = np.abs(Ub - Uall).reshape(NA, 2 * NA, 4).max(axis=2)
            if not err.max() <= tol_rt(sb, 2):
                i, j = [int(v) for v in np.argwhere(~(err <= tol_rt(sb, 2)))[0]]
                out.violation('gridbatch/su2_to_angle/rebuild_mismatch/%s' % beta_class(sb, abs(Uall[0, 0, 0, 0]) - abs(Uall[0, 0, 0, 1])),
                              'homogeneous batch: element (alpha=%r, gamma=%r) rebuilt with error %.3g' % (ga[i], gg[j], err[i, j]),
                              alpha=ga[i], gamma=gg[j], U=Uall[i, j], err=float(err[i, j]), **det)
            else:
                out.trace()
    if bk == 'num':
        out.state()
        ok, Ub = call(out, 'gridbatch/angle_to_su2', g.angle_to_su2, (np.array(ga)[:, None], beta, np.array(gg)[None, :]), dict(det, batch='alpha (NA,1), beta scalar, gamma (1,2NA)'))
        if ok:
            Ub = np.asarray(Ub)
            if Ub.shape != Uall.shape or not np.abs(Ub - Uall).max() <= TOL1:
                out.violation('gridbatch/angle_to_su2/broadcast_mismatch', 'angle_to_su2(alpha[:,None], beta, gamma[None,:]) has shape %s / differs element-wise' % (Ub.shape,), **det)
            else:
                out.trace()
    out.state()
    ok, Rb = call(out, 'gridbatch/su2_to_so3', g.su2_to_so3, (Uall.copy(),), det)
    if ok:
        Rb = np.asarray(Rb)
        Rr = np.array([[ref_su2_to_so3(Uall[i, j]) for j in range(2 * NA)] for i in range(NA)])
        if Rb.shape != Rr.shape or not np.abs(Rb - Rr).max() <= TOL1:
            out.violation('gridbatch/su2_to_so3/batch_mismatch', 'batched su2_to_so3 has shape %s / differs from the trace formula element-wise' % (Rb.shape,), **det)
        else:
            out.trace()
    out.sample = {'kind': 'su2grid', 'beta_label': case['beta_label'], 'beta': beta, 'grid_points': 2 * NA * NA, 'example': {'alpha': ga[1], 'gamma': gg[-1], 'U': Uall[1, -1]}}


# ----------------------------------------------------------------------------------------------- zero_eps coordinate
# zero_eps alphabet: (value, how it is passed). 0.0 = "treat nothing but exact zeros as locked", 1e-12 below and 1e-3 above the
# near-pole distances of the beta alphabet, the documented default once more passed explicitly.
ZE_ALPHABET = [(0.0, 'positional'), (1e-12, 'keyword'), (ZERO_EPS, 'keyword'), (1e-3, 'positional')]
# additions whose oracle fires on the unchanged tree for an admissible input (reported to the coordinator; flag removed after the repair)
#   zero_eps_0_exact_pole: so3_to_angle / so3_to_su2 with zero_eps=0.0 on an exactly gimbal-locked matrix (x20 = x21 = 0): the test
#   `sb < zero_eps` is false for sb = 0, the generic branch evaluates arctan2(0, 0) and Rz(4.5) comes back as Rz(pi) (error ~1..2)
PENDING = set()  # zero_eps_0_exact_pole was repaired in numqi (fee4db5, known_findings.json)


def tol_rt_z(sinb, ze, steps=1):
    """round-trip tolerance under an explicit zero_eps = ze. The locked branch (taken when the computed sin(beta) < ze) keeps beta
    and alpha+-gamma (the latter up to (1-cos beta) <= sin(beta)^2) and discards the split, i.e. it replaces Ry(b) by its conjugate
    with a z rotation: the entries proportional to sin(beta) move by at most 2 sin(beta), those proportional to 1-cos(beta) by at
    most 2 sin(beta)^2; together <= 4 sin(beta) and, being locked, <= 4 ze. Reference sin(beta) inside the dead band [ze, 4 ze)
    (DESIGN 3.2, same factor as BAND) gets the same allowance; everything else, exact poles included, 1e3*eps per step."""
    if 1e-15 <= sinb < 4 * ze:
        return 4 * min(sinb, ze) + steps * TOL1
    return steps * TOL1


def zcall(out, fkey, fn, X, ze, form, det):
    """fn(X, zero_eps) with zero_eps passed positionally / by keyword. Returns (status, value), status in 'ok' | 'rejected' | 'failed'.
    An argument-validation assert is a rejection only for ze = 0 (su2_to_angle / su2_to_so3 validate |U00-conj(U11)| < zero_eps,
    which nothing satisfies at 0); for ze > 0 the reference matrices satisfy it to 1e-15, so any exception is a violation."""
    from mc import core
    out.trans()
    try:
        return 'ok', (fn(X, ze) if form == 'positional' else fn(X, zero_eps=ze))
    except Exception as e:  # noqa
        if ze == 0.0 and core.is_precondition_assert(e):
            out.count('rejected_by_precondition')
            return 'rejected', None
        out.violation('%s/%s' % (fkey, type(e).__name__), '%s(., zero_eps=%g) raised %s: %s' % (fkey.split('/')[1], ze, type(e).__name__, str(e)[:200]), **det)
        return 'failed', None


def in_ranges(a, b, c, gmax):
    a, b, c = np.asarray(a), np.asarray(b), np.asarray(c)
    return bool(np.all(a >= 0) and np.all(a <= 2 * math.pi) and np.all(b >= 0) and np.all(b <= math.pi) and np.all(c >= 0) and np.all(c <= gmax))


def run_zeps(case, out, env):
    import numqi
    g = numqi.group
    NA, beta, bk, ze, form = case['NA'], case['beta'], case['beta_kind'], case['ze'], case['form']
    cs, hcs = beta_trig(beta, bk)
    ga = [k * 2 * math.pi / NA for k in range(NA)]
    gg = [k * 2 * math.pi / NA for k in range(2 * NA)]
    site = 'zero_eps'
    base = {'beta': beta, 'beta_label': case['beta_label'], 'zero_eps': ze, 'passed': form}
    Rall = np.array([[ref_so3(a, beta, c, cs) for c in ga] for a in ga])
    Uall = np.array([[ref_su2(a, beta, c, hcs) for c in gg] for a in ga])
    sbR, sbU = sinb_so3(Rall[0, 0]), sinb_su2(Uall[0, 0])
    clsR = beta_class(sbR, Rall[0, 0, 2, 2])
    clsU = beta_class(sbU, abs(Uall[0, 0, 0, 0]) - abs(Uall[0, 0, 0, 1]))
    pend_so3 = ze == 0.0 and sbR == 0.0 and 'zero_eps_0_exact_pole' in PENDING

    def so3_angles(R, ang, det, tag):
        """angles returned for R under ze: finite, inside the documented ranges, rebuild R"""
        if not finite(*ang):
            out.violation('%s/so3_to_angle/nonfinite/%s' % (site, clsR), 'so3_to_angle(R, zero_eps=%g) returned NaN/Inf (%s)' % (ze, tag), **det)
            return False
        if not in_ranges(*ang, 2 * math.pi):
            out.violation('%s/so3_to_angle/outside_documented_range' % site, 'so3_to_angle(R, zero_eps=%g) left [0,2pi]x[0,pi]x[0,2pi] (%s)' % (ze, tag), angles=[np.asarray(x) for x in ang], **det)
            return False
        return True

    # ---- SO(3), element by element
    angs = {}
    for ia, a in enumerate(ga):
        for ig, c in enumerate(ga):
            out.state()
            if pend_so3:
                out.count('pending/zero_eps_0_exact_pole')
                continue
            R = Rall[ia, ig]
            det = dict(base, alpha=a, gamma=c, R=R, sin_beta=sbR)
            good = True
            st, ang = zcall(out, '%s/so3_to_angle' % site, g.so3_to_angle, R.copy(), ze, form, det)
            if st == 'ok' and so3_angles(R, ang, det, 'single'):
                fl = [float(x) for x in ang]
                angs[(ia, ig)] = fl
                err, tol = float(np.abs(ref_so3(*fl) - R).max()), tol_rt_z(sbR, ze, 2)
                if not err <= tol:
                    out.violation('%s/so3_to_angle/rebuild_mismatch/%s' % (site, clsR),
                                  'Rz Ry Rz of so3_to_angle(R, zero_eps=%g) differs from R by %.3g (tol %.3g), %s: angles %r' % (ze, err, tol, clsR, tuple(fl)), angles=fl, err=err, tol=tol, **det)
                    good = False
                out.outcome(('zso3', ze, np.round(np.array(fl), 5)), nontrivial=bool(np.abs(R - np.eye(3)).max() > 1e-6))
            else:
                good = False
            st, V = zcall(out, '%s/so3_to_su2' % site, g.so3_to_su2, R.copy(), ze, form, det)
            if st == 'ok':
                V = np.asarray(V)
                if V.shape != (2, 2) or not finite(V) or not is_su2(V, 8 * TOL1):
                    out.violation('%s/so3_to_su2/not_su2' % site, 'so3_to_su2(R, zero_eps=%g) is not a finite special unitary 2x2 matrix' % ze, got=V, **det)
                    good = False
                else:
                    err, tol = float(np.abs(ref_su2_to_so3(V) - R).max()), tol_rt_z(sbR, ze, 3)
                    if not err <= tol:
                        out.violation('%s/so3_to_su2/not_a_preimage/%s' % (site, clsR), 'the SO(3) image of so3_to_su2(R, zero_eps=%g) differs from R by %.3g (tol %.3g), %s' % (ze, err, tol, clsR),
                                      got=V, err=err, tol=tol, **det)
                        good = False
                    if (ia, ig) in angs:
                        # forwarding: so3_to_su2(R, ze) is angle_to_su2 of so3_to_angle(R, ze) - the same split of alpha+-gamma, up to the sign
                        Vr = ref_su2(*angs[(ia, ig)])
                        e = min(float(np.abs(V - Vr).max()), float(np.abs(V + Vr).max()))
                        if not e <= 2 * TOL1:
                            out.violation('%s/so3_to_su2/zero_eps_not_forwarded_to_so3_to_angle/%s' % (site, clsR),
                                          'so3_to_su2(R, zero_eps=%g) differs by %.3g from +-Uz Uy Uz of so3_to_angle(R, zero_eps=%g) = %r' % (ze, e, ze, tuple(angs[(ia, ig)])),
                                          got=V, angles=angs[(ia, ig)], err=e, **det)
                            good = False
            else:
                good = False
            if good:
                out.trace()
    # ---- SU(2), element by element
    n_rej = 0
    for ia, a in enumerate(ga):
        for ig, c in enumerate(gg):
            out.state()
            U = Uall[ia, ig]
            det = dict(base, alpha=a, gamma=c, U=U, sin_beta=sbU)
            good = True
            st, ang = zcall(out, '%s/su2_to_angle' % site, g.su2_to_angle, U.copy(), ze, form, det)
            n_rej += st == 'rejected'
            if st == 'ok':
                if not finite(*ang):
                    out.violation('%s/su2_to_angle/nonfinite/%s' % (site, clsU), 'su2_to_angle(U, zero_eps=%g) returned NaN/Inf' % ze, **det)
                    good = False
                elif not in_ranges(*ang, 4 * math.pi):
                    out.violation('%s/su2_to_angle/outside_documented_range' % site, 'su2_to_angle(U, zero_eps=%g) left [0,2pi]x[0,pi]x[0,4pi]' % ze, angles=[float(x) for x in ang], **det)
                    good = False
                else:
                    fl = [float(x) for x in ang]
                    U1, tol = ref_su2(*fl), tol_rt_z(sbU, ze, 2)
                    errp, errm = float(np.abs(U1 - U).max()), float(np.abs(U1 + U).max())
                    if not errp <= tol:
                        what = 'sign_4pi_branch' if errm <= tol else 'rebuild_mismatch'
                        out.violation('%s/su2_to_angle/%s/%s' % (site, what, clsU),
                                      'Uz Uy Uz of su2_to_angle(U, zero_eps=%g) differs from U by %.3g (from -U by %.3g), tol %.3g, %s: angles %r' % (ze, errp, errm, tol, clsU, tuple(fl)),
                                      angles=fl, err=errp, tol=tol, **det)
                        good = False
                    out.outcome(('zsu2', ze, np.round(np.array(fl), 5)), nontrivial=bool(np.abs(U - np.eye(2)).max() > 1e-6))
            elif st == 'failed':
                good = False
            st, Rz_ = zcall(out, '%s/su2_to_so3' % site, g.su2_to_so3, U.copy(), ze, form, det)
            n_rej += st == 'rejected'
            if st == 'ok':
                ok, Rd = call(out, '%s/su2_to_so3' % site, g.su2_to_so3, (U.copy(),), det)
                if ok and (np.shape(Rz_) != (3, 3) or not np.array_equal(np.asarray(Rz_), np.asarray(Rd))):
                    out.violation('%s/su2_to_so3/differs_from_default_call' % site, 'su2_to_so3(U, zero_eps=%g) differs from su2_to_so3(U) (zero_eps only validates the argument)' % ze, got=Rz_, expected=Rd, **det)
                    good = False
                if np.shape(Rz_) == (3, 3) and not np.abs(np.asarray(Rz_) - ref_su2_to_so3(U)).max() <= TOL1:
                    out.violation('%s/su2_to_so3/differs_from_trace_formula' % site, 'su2_to_so3(U, zero_eps=%g) differs from Re Tr(s_i U s_j U^+)/2' % ze, got=Rz_, **det)
                    good = False
            elif st == 'failed':
                good = False
            if good and st != 'rejected':
                out.trace()
    # ---- the whole grids as one batch under the same zero_eps
    detb = dict(base, batch='whole (alpha,gamma) grid')
    if not pend_so3:
        out.state()
        st, ang = zcall(out, '%s/so3_to_angle' % site, g.so3_to_angle, Rall.copy(), ze, form, detb)
        if st == 'ok':
            if any(np.shape(x) != (NA, NA) for x in ang):
                out.violation('%s/so3_to_angle/batch_shape' % site, 'so3_to_angle(batch, zero_eps=%g) returned shapes %s' % (ze, [np.shape(x) for x in ang]), **detb)
            elif so3_angles(Rall, ang, detb, 'batch'):
                Rb = np.array([[ref_so3(ang[0][i, j], ang[1][i, j], ang[2][i, j]) for j in range(NA)] for i in range(NA)])
                err = float(np.abs(Rb - Rall).max())
                if not err <= tol_rt_z(sbR, ze, 2):
                    out.violation('%s/so3_to_angle/batch_rebuild_mismatch/%s' % (site, clsR), 'so3_to_angle(whole grid, zero_eps=%g): rebuild error %.3g (tol %.3g)' % (ze, err, tol_rt_z(sbR, ze, 2)), err=err, **detb)
                else:
                    out.trace()
        out.state()
        st, V = zcall(out, '%s/so3_to_su2' % site, g.so3_to_su2, Rall.copy(), ze, form, detb)
        if st == 'ok':
            V = np.asarray(V)
            if V.shape != (NA, NA, 2, 2) or not finite(V):
                out.violation('%s/so3_to_su2/batch_shape_or_nonfinite' % site, 'so3_to_su2(batch, zero_eps=%g) has shape %s / non-finite entries' % (ze, V.shape), **detb)
            else:
                err = max(float(np.abs(ref_su2_to_so3(V[i, j]) - Rall[i, j]).max()) for i in range(NA) for j in range(NA))
                if not err <= tol_rt_z(sbR, ze, 3):
                    out.violation('%s/so3_to_su2/batch_not_a_preimage/%s' % (site, clsR), 'so3_to_su2(whole grid, zero_eps=%g): image differs from R by %.3g (tol %.3g)' % (ze, err, tol_rt_z(sbR, ze, 3)), err=err, **detb)
                else:
                    out.trace()
    out.state()
    st, ang = zcall(out, '%s/su2_to_angle' % site, g.su2_to_angle, Uall.copy(), ze, form, detb)
    if st == 'ok':
        if any(np.shape(x) != (NA, 2 * NA) for x in ang) or not finite(*ang) or not in_ranges(*ang, 4 * math.pi):
            out.violation('%s/su2_to_angle/batch_shape_nonfinite_or_range' % site, 'su2_to_angle(batch, zero_eps=%g): shapes %s / NaN / outside the documented ranges' % (ze, [np.shape(x) for x in ang]), **detb)
        else:
            Ub = np.array([[ref_su2(ang[0][i, j], ang[1][i, j], ang[2][i, j]) for j in range(2 * NA)] for i in range(NA)])
            err = float(np.abs(Ub - Uall).max())
            if not err <= tol_rt_z(sbU, ze, 2):
                out.violation('%s/su2_to_angle/batch_rebuild_mismatch/%s' % (site, clsU), 'su2_to_angle(whole grid, zero_eps=%g): rebuild error %.3g (tol %.3g)' % (ze, err, tol_rt_z(sbU, ze, 2)), err=err, **detb)
            else:
                out.trace()
    if ze > 0 and n_rej:
        out.violation('%s/su2/rejected_with_positive_zero_eps' % site, 'harness logic: rejection counted for zero_eps > 0', **base)
    out.sample = {'kind': 'zeps', 'beta_label': case['beta_label'], 'zero_eps': ze, 'passed': form, 'so3_points': NA * NA, 'su2_points': 2 * NA * NA, 'su2_rejected_by_assert': int(n_rej)}


# ----------------------------------------------------------------------------------------------- angles outside the canonical box
PI = math.pi
# (name, map of a canonical triple, sign s with Uz Uy Uz (mapped) = s * Uz Uy Uz (canonical)). SO(3) is blind to all of them.
#   Uz(x + 2 pi k) = (-1)^k Uz(x);  Uy(-b) = Uz(pi) Uy(b) Uz(-pi)  =>  (a+pi, -b, g+pi) -> Uz(a+2pi) Uy(b) Uz(g) = -U;
#   Uy(2pi - b) = -Uy(-b)  =>  (a+pi, 2pi-b, g+pi) -> +U.   The signs are re-verified on the reference matrices in run_anglebox.
BOX_MAPS = [
    ('alpha-2pi', lambda a, b, c: (a - 2 * PI, b, c), -1),
    ('gamma-2pi', lambda a, b, c: (a, b, c - 2 * PI), -1),
    ('alpha-2pi,gamma-2pi', lambda a, b, c: (a - 2 * PI, b, c - 2 * PI), 1),
    ('alpha+4pi,gamma+4pi', lambda a, b, c: (a + 4 * PI, b, c + 4 * PI), 1),
    ('alpha+4pi,gamma-2pi', lambda a, b, c: (a + 4 * PI, b, c - 2 * PI), -1),
    ('alpha+pi,-beta,gamma+pi', lambda a, b, c: (a + PI, -b, c + PI), -1),
    ('alpha+pi,2pi-beta,gamma+pi', lambda a, b, c: (a + PI, 2 * PI - b, c + PI), 1),
]


def run_anglebox(case, out, env):
    """Euler triples outside [0,2pi) x [0,pi] x [0,4pi) that name the same group element as a canonical grid triple (up to the known
    sign for SU(2) / odd j2): the forward maps give the canonical matrix, the way back lands inside the documented ranges and
    rebuilds the canonical matrix (sign-exact for SU(2)). Angles have magnitude < 8 pi: argument reduction costs 8 pi eps << TOL1."""
    import numqi
    g = numqi.group
    NA, beta, j2s = case['NA'], case['beta'], case['j2s']
    ga = [k * 2 * PI / NA for k in range(NA)]
    gg = [k * 2 * PI / NA for k in range(2 * NA)]
    site = 'anglebox'
    for a in ga:
        for c in gg:
            Rc, Uc = ref_so3(a, beta, c), ref_su2(a, beta, c)
            sbR, sbU = sinb_so3(Rc), sinb_su2(Uc)
            clsR, clsU = beta_class(sbR, Rc[2, 2]), beta_class(sbU, abs(Uc[0, 0]) - abs(Uc[0, 1]))
            Dc = {j2: ref_irrep(j2, Uc) for j2 in j2s}
            for name, fmap, sgn in BOX_MAPS:
                out.state()
                t = fmap(a, beta, c)
                if not np.abs(ref_su2(*t) - sgn * Uc).max() <= TOL1 or not np.abs(ref_so3(*t) - Rc).max() <= TOL1:
                    raise RuntimeError('harness: sign table of BOX_MAPS is wrong for %s' % name)
                det = {'canonical': [a, beta, c], 'map': name, 'angles': list(t), 'beta_label': case['beta_label']}
                good = True
                ok, R = call(out, '%s/angle_to_so3' % site, g.angle_to_so3, t, det)
                if ok:
                    R = np.asarray(R)
                    if R.shape != (3, 3) or not np.abs(R - Rc).max() <= TOL1:
                        out.violation('%s/angle_to_so3/differs_from_canonical_triple/%s' % (site, name), 'angle_to_so3%r differs from angle_to_so3 of the canonical triple (%r,%r,%r)' % (t, a, beta, c), got=R, expected=Rc, **det)
                        good = False
                    else:
                        ok, ang = call(out, '%s/so3_to_angle' % site, g.so3_to_angle, (R.copy(),), det)
                        if ok and (not finite(*ang) or not in_ranges(*ang, 2 * PI)):
                            out.violation('%s/so3_to_angle/outside_documented_range' % site, 'so3_to_angle(angle_to_so3%r) = %r: NaN or outside [0,2pi]x[0,pi]x[0,2pi]' % (t, tuple(float(x) for x in ang)), **det)
                            good = False
                        elif ok:
                            err, tol = float(np.abs(ref_so3(*ang) - Rc).max()), tol_rt(sbR, 2)
                            if not err <= tol:
                                out.violation('%s/so3_to_angle/rebuild_mismatch/%s' % (site, clsR), 'so3_to_angle(angle_to_so3%r) rebuilds the canonical rotation with error %.3g (tol %.3g)' % (t, err, tol), err=err, **det)
                                good = False
                        else:
                            good = False
                else:
                    good = False
                ok, U = call(out, '%s/angle_to_su2' % site, g.angle_to_su2, t, det)
                if ok:
                    U = np.asarray(U)
                    if U.shape != (2, 2) or not np.abs(U - sgn * Uc).max() <= TOL1:
                        what = 'sign' if U.shape == (2, 2) and np.abs(U + sgn * Uc).max() <= TOL1 else 'value'
                        out.violation('%s/angle_to_su2/differs_from_signed_canonical_triple/%s/%s' % (site, what, name),
                                      'angle_to_su2%r differs from %+d * angle_to_su2 of the canonical triple (%r,%r,%r)' % (t, sgn, a, beta, c), got=U, expected=sgn * Uc, **det)
                        good = False
                    else:
                        ok, ang = call(out, '%s/su2_to_angle' % site, g.su2_to_angle, (U.copy(),), det)
                        if ok and (not finite(*ang) or not in_ranges(*ang, 4 * PI)):
                            out.violation('%s/su2_to_angle/outside_documented_range' % site, 'su2_to_angle(angle_to_su2%r) = %r: NaN or outside [0,2pi]x[0,pi]x[0,4pi]' % (t, tuple(float(x) for x in ang)), **det)
                            good = False
                        elif ok:
                            U1, tol = ref_su2(*ang), tol_rt(sbU, 2)
                            errp, errm = float(np.abs(U1 - sgn * Uc).max()), float(np.abs(U1 + sgn * Uc).max())
                            if not errp <= tol:
                                out.violation('%s/su2_to_angle/%s/%s' % (site, 'sign_4pi_branch' if errm <= tol else 'rebuild_mismatch', clsU),
                                              'su2_to_angle(angle_to_su2%r) rebuilds %+d*U(canonical) with error %.3g (the opposite sign: %.3g), tol %.3g' % (t, sgn, errp, errm, tol), err=errp, **det)
                                good = False
                            out.outcome(('box', name, np.round(np.array([float(x) for x in ang]), 5)), nontrivial=bool(np.abs(Uc - np.eye(2)).max() > 1e-6))
                        else:
                            good = False
                else:
                    good = False
                for j2 in j2s:
                    ok, D = call(out, '%s/get_su2_irrep(angles)' % site, g.get_su2_irrep, (j2,) + tuple(t), dict(det, j2=j2))
                    if not ok:
                        good = False
                        continue
                    D = np.asarray(D)
                    Dr = (sgn ** j2) * Dc[j2]
                    if D.shape != Dr.shape or not finite(D) or not np.abs(D - Dr).max() <= tol_irrep(j2):
                        what = 'sign' if D.shape == Dr.shape and np.abs(D + Dr).max() <= tol_irrep(j2) else 'value'
                        out.violation('%s/get_su2_irrep(angles)/differs_from_signed_canonical_triple/%s/%s' % (site, what, name),
                                      'get_su2_irrep(%d, %r, %r, %r) differs from (%+d)^%d * D(canonical triple (%r,%r,%r))' % ((j2,) + tuple(t) + (sgn, j2, a, beta, c)), j2=j2, got=D, expected=Dr, **det)
                        good = False
                if good:
                    out.trace()
    out.sample = {'kind': 'anglebox', 'beta_label': case['beta_label'], 'maps': [m[0] for m in BOX_MAPS], 'canonical_points': 2 * NA * NA}


INT_ALPHA, INT_BETA, INT_GAMMA = (0, 1, 4, -3, 7), (0, 1, 2, 3, -2, 4), (0, 2, 5, -6, 13)


def run_angleforms(case, out, env):
    """non-array argument forms of the angle entries: python ints (ALL triples of a small integer alphabet, beta outside [0,pi]
    included), mixed int / float, np.int64, python lists (of floats, of ints, nested, list + scalar broadcasting). Reference:
    the float triple element by element."""
    import numqi
    g = numqi.group
    site = 'angleforms'
    j2s = case['j2s']
    trip = list(itertools.product(INT_ALPHA, INT_BETA, INT_GAMMA))

    def one(fname, fn, args, expected, tol, det, pre=()):
        ok, y = call(out, '%s/%s' % (site, fname), fn, tuple(pre) + tuple(args), det)
        if not ok:
            return None
        y = np.asarray(y)
        if y.shape != expected.shape or not finite(y) or not np.abs(y - expected).max() <= tol:
            out.violation('%s/%s/%s/differs_from_float_call' % (site, fname, det['form']), '%s with %s arguments %r: shape %s (expected %s) / differs from the float reference' % (fname, det['form'], det['args'], y.shape, expected.shape),
                          got=y, expected=expected, **det)
            return None
        out.trace()
        return y
    # scalars: python int, np.int64, mixed
    scal = [('python_int', lambda t: t), ('np.int64', lambda t: tuple(np.int64(x) for x in t)), ('int_float_int', lambda t: (t[0], float(t[1]), t[2])),
            ('0d_int_array', lambda t: tuple(np.array(x) for x in t))]
    for t in trip:
        ft = tuple(float(x) for x in t)
        Rc, Uc = ref_so3(*ft), ref_su2(*ft)
        for form, conv in scal:
            out.state()
            det = {'form': form, 'args': list(t)}
            R = one('angle_to_so3', g.angle_to_so3, conv(t), Rc, TOL1, det)
            one('angle_to_su2', g.angle_to_su2, conv(t), Uc, TOL1, det)
            for j2 in j2s:
                one('get_su2_irrep(angles)', g.get_su2_irrep, conv(t), ref_irrep(j2, Uc), tol_irrep(j2), dict(det, j2=j2), pre=(j2,))
            if form == 'python_int' and R is not None:
                # the way back from an integer triple (beta possibly negative or above pi): documented ranges, same rotation
                ok, ang = call(out, '%s/so3_to_angle' % site, g.so3_to_angle, (R.copy(),), det)
                if ok:
                    if not finite(*ang) or not in_ranges(*ang, 2 * PI):
                        out.violation('%s/so3_to_angle/outside_documented_range' % site, 'so3_to_angle(angle_to_so3%r) = %r' % (t, tuple(float(x) for x in ang)), **det)
                    elif not np.abs(ref_so3(*ang) - Rc).max() <= tol_rt(sinb_so3(Rc), 2):
                        out.violation('%s/so3_to_angle/rebuild_mismatch' % site, 'so3_to_angle(angle_to_so3%r) does not rebuild the rotation' % (t,), angles=[float(x) for x in ang], **det)
                    out.outcome(('ints', np.round(np.array([float(x) for x in ang]), 5)), nontrivial=bool(np.abs(Rc - np.eye(3)).max() > 1e-6))
    # lists
    n = len(trip)
    A, B, C = [[t[k] for t in trip] for k in range(3)]
    Rall, Uall = np.array([ref_so3(*map(float, t)) for t in trip]), np.array([ref_su2(*map(float, t)) for t in trip])
    lists = [('list_of_int', (A, B, C), (n,), lambda i: i),
             ('list_of_float', ([float(x) for x in A], [float(x) for x in B], [float(x) for x in C]), (n,), lambda i: i),
             ('nested_list', ([A[:n // 2], A[n // 2:]], [B[:n // 2], B[n // 2:]], [C[:n // 2], C[n // 2:]]), (2, n // 2), lambda i: i),
             ('tuple_of_int', (tuple(A), tuple(B), tuple(C)), (n,), lambda i: i)]
    for form, args, shape, _ in lists:
        out.state()
        det = {'form': form, 'args': 'all %d integer triples' % n}
        one('angle_to_so3', g.angle_to_so3, args, Rall.reshape(shape + (3, 3)), TOL1, det)
        one('angle_to_su2', g.angle_to_su2, args, Uall.reshape(shape + (2, 2)), TOL1, det)
        for j2 in j2s:
            one('get_su2_irrep(angles)', g.get_su2_irrep, args, np.array([ref_irrep(j2, U) for U in Uall]).reshape(shape + (j2 + 1, j2 + 1)), tol_irrep(j2), dict(det, j2=j2), pre=(j2,))
    # list + python scalar broadcasting: alpha list, beta int, gamma list
    for b in INT_BETA:
        out.state()
        sel = [t for t in trip if t[1] == b]
        args = ([t[0] for t in sel], b, [float(t[2]) for t in sel])
        det = {'form': 'list_int_list', 'args': [args[0], b, args[2]]}
        Us = np.array([ref_su2(*map(float, t)) for t in sel])
        one('angle_to_so3', g.angle_to_so3, args, np.array([ref_so3(*map(float, t)) for t in sel]), TOL1, det)
        one('angle_to_su2', g.angle_to_su2, args, Us, TOL1, det)
        for j2 in j2s:
            one('get_su2_irrep(angles)', g.get_su2_irrep, args, np.array([ref_irrep(j2, U) for U in Us]), tol_irrep(j2), dict(det, j2=j2), pre=(j2,))
    out.sample = {'kind': 'angleforms', 'integer_triples': n, 'alphabets': [INT_ALPHA, INT_BETA, INT_GAMMA]}


# ----------------------------------------------------------------------------------------------- input dtypes
DTYPE_FORMS = ['so3_complex128', 'so3_int64', 'su2_float64', 'su2_int64']


def run_dtype(case, out, env):
    """the same rotations handed over in another dtype: SO(3) matrices typed complex128 (zero imaginary part; so3_to_angle has an
    explicit .real branch) - whole rotation alphabet and an (alpha,gamma) grid for every beta -, the octahedral rotation matrices
    as int64, the real elements of the binary octahedral group as float64 and (entries 0, +-1) as int64. Oracles unchanged."""
    import numqi
    g = numqi.group
    form, NA = case['form'], case['NA']
    grp, dt = form.split('_')
    dt = np.dtype(dt)
    site = 'dtype_' + form
    labels, Us, Rs_, kinds = rotation_alphabet(env)
    if grp == 'so3':
        elems = [(lab, R) for lab, R, k in zip(labels, Rs_, kinds) if dt.kind == 'c' or k == 'octa']
        if dt.kind == 'c':
            grid = [k * 2 * math.pi / NA for k in range(NA)]
            for lab, b, bk in beta_alphabet(env.tier):
                elems += [('so3(%r,%s,%r)' % (a, lab, c), ref_so3(a, b, c, beta_trig(b, bk)[0])) for a in grid for c in grid]
        else:
            assert all(np.array_equal(R, np.round(R)) for _, R in elems)
        for lab, R in elems:
            out.state()
            chain_so3(numqi, out, R, site, {'element': lab, 'dtype': str(dt)}, cast=dt)
        # all of them as one batch: bit-identical with the float64 batch (the conversion to float64 is exact)
        X = np.array([R for _, R in elems])
        det = {'dtype': str(dt), 'batch': '%d elements' % len(elems)}
        for fname, fn in (('so3_to_angle', g.so3_to_angle), ('so3_to_su2', g.so3_to_su2)):
            out.state()
            ok1, y1 = call(out, '%s/%s' % (site, fname), fn, (X.astype(dt),), det)
            ok0, y0 = call(out, 'gridbatch/%s' % fname, fn, (X.copy(),), det)
            if ok1 and ok0:
                y1, y0 = [np.asarray(v) for v in (y1, y0)]
                if y1.shape != y0.shape or y1.dtype != y0.dtype or not np.array_equal(y1, y0):
                    out.violation('%s/%s/batch_differs_from_float64_input' % (site, fname), '%s on a %s-typed batch differs from the float64 batch (dtypes %s / %s)' % (fname, dt, y1.dtype, y0.dtype), **det)
                else:
                    out.trace()
    else:
        elems = [(lab, U) for lab, U, k in zip(labels, Us, kinds) if k == 'octa' and not np.any(U.imag) and (dt.kind == 'f' or np.array_equal(U.real, np.round(U.real)))]
        assert len(elems) == (8 if dt.kind == 'f' else 4)
        for lab, U in elems:
            out.state()
            det = {'element': lab, 'dtype': str(dt)}
            chain_su2(numqi, out, U, site, det, cast=dt)
            for j2 in range(case['j2max'] + 1):
                D = impl_irrep(numqi, out, j2, U.real.astype(dt), site, det)
                if D is None:
                    continue
                e = float(np.abs(D - ref_irrep(j2, U)).max())
                if not e <= tol_irrep(j2):
                    out.violation('%s/get_su2_irrep/matrix_entry/differs_from_symmetric_power' % site, 'get_su2_irrep(%d, U typed %s) differs from the symmetric power of U by %.3g for %s' % (j2, dt, e, lab),
                                  j2=j2, U=U, err=e, **det)
                else:
                    out.trace()
        X = np.array([U for _, U in elems])
        det = {'dtype': str(dt), 'batch': '%d elements' % len(elems)}
        out.state()
        ok, ang = call(out, '%s/su2_to_angle' % site, g.su2_to_angle, (X.real.astype(dt),), det)
        if ok:
            if any(np.shape(x) != (len(elems),) for x in ang) or not finite(*ang):
                out.violation('%s/su2_to_angle/batch_shape_or_nonfinite' % site, 'su2_to_angle on a %s-typed batch: shapes %s / NaN' % (dt, [np.shape(x) for x in ang]), **det)
            else:
                err = max(float(np.abs(ref_su2(ang[0][i], ang[1][i], ang[2][i]) - X[i]).max()) for i in range(len(elems)))
                if not err <= 2 * TOL1:
                    out.violation('%s/su2_to_angle/batch_rebuild_mismatch' % site, 'su2_to_angle on a %s-typed batch: rebuild error %.3g' % (dt, err), err=err, **det)
                else:
                    out.trace()
        out.state()
        ok, Rb = call(out, '%s/su2_to_so3' % site, g.su2_to_so3, (X.real.astype(dt),), det)
        if ok:
            Rb = np.asarray(Rb)
            Rr = np.array([ref_su2_to_so3(U) for U in X])
            if Rb.shape != Rr.shape or Rb.dtype.kind != 'f' or not np.abs(Rb - Rr).max() <= TOL1:
                out.violation('%s/su2_to_so3/batch_mismatch' % site, 'su2_to_so3 on a %s-typed batch has shape %s dtype %s / differs from the trace formula' % (dt, Rb.shape, Rb.dtype), **det)
            else:
                out.trace()
    out.count('dtype_elements[%s]' % form, len(elems))
    out.sample = {'kind': 'dtype', 'form': form, 'elements': len(elems), 'first': elems[0][0]}


# ----------------------------------------------------------------------------------------------- pairs
def impl_irrep(numqi, out, j2, U, site, det):
    ok, D = call(out, '%s/get_su2_irrep' % site, numqi.group.get_su2_irrep, (j2, U.copy()), dict(det, j2=j2, U=U))
    if not ok:
        return None
    D = np.asarray(D)
    if D.shape != (j2 + 1, j2 + 1) or not finite(D):
        out.violation('irrep/get_su2_irrep/shape_or_nonfinite', 'get_su2_irrep(%d, U) has shape %s / non-finite entries' % (j2, D.shape), **dict(det, j2=j2, U=U))
        return None
    return D.astype(np.complex128)


def ref_smalld(j2, b, half_cs=None):
    """reference Wigner small-d matrix d^j(beta) = D(0, beta, 0): the symmetric power of the real matrix Uy(beta)"""
    D = ref_irrep(j2, uy2(float(b), half_cs))
    assert not np.any(D.imag)
    return D.real


def check_matd(out, fkey, j2, res, Ddefault, dref, shape, det, what):
    """res = get_su2_irrep(j2, ..., return_matd=True): a pair (D, matd); D bit-identical with the default call (same arithmetic),
    matd real with shape (..., j2+1, j2+1) and equal to the small-d matrix of the element's beta. beta is never discarded by the
    gimbal-lock branch (only the split of alpha+-gamma is), so no zero_eps allowance: tol = 1e3*eps*2^j2."""
    n = j2 + 1
    if not (isinstance(res, tuple) and len(res) == 2):
        out.violation('%s/return_matd/not_a_pair' % fkey, '%s with return_matd=True returned %s instead of a pair' % (what, type(res).__name__), **det)
        return False
    D, d = np.asarray(res[0]), np.asarray(res[1])
    if D.shape != shape + (n, n) or d.shape != shape + (n, n) or d.dtype.kind != 'f' or not finite(d):
        out.violation('%s/return_matd/shape_dtype_nonfinite' % fkey, '%s with return_matd=True: shapes %s, %s (expected %s), matd dtype %s / non-finite'
                      % (what, D.shape, d.shape, shape + (n, n), d.dtype), **det)
        return False
    good = True
    if Ddefault is not None and not np.array_equal(D.astype(np.complex128), np.asarray(Ddefault).astype(np.complex128)):
        out.violation('%s/return_matd/first_element_differs_from_default_call' % fkey, '%s: the first element returned with return_matd=True differs from the default call' % what, **det)
        good = False
    e = float(np.abs(d - dref).max())
    if not e <= tol_irrep(j2):
        out.violation('%s/return_matd/matd_differs_from_small_d' % fkey, '%s: matd differs from the small-d matrix D(0,beta,0) by %.3g (tol %.3g)' % (what, e, tol_irrep(j2)),
                      err=e, matd=d, expected=dref, **det)
        good = False
    if good:
        out.count('return_matd_compared')
    return good


def run_pairs(case, out, env):
    import numqi
    g = numqi.group
    labels, Us, Rs_, kinds = rotation_alphabet(env)
    i = case['i']
    n = len(Us)
    Ui, Ri = Us[i], Rs_[i]
    site = 'pairs'
    # the single element through the chains
    out.state()
    chain_so3(numqi, out, Ri, 'roundtrip', {'element': labels[i]})
    chain_su2(numqi, out, Ui, 'roundtrip', {'element': labels[i]})
    j2s = list(range(case['j2max'] + 1))
    Di = {j2: impl_irrep(numqi, out, j2, Ui, 'irrep', {'element': labels[i]}) for j2 in j2s}
    bi = in_band(sinb_su2(Ui))
    for j2 in j2s:
        if Di[j2] is None:
            continue
        cls = beta_class(sinb_su2(Ui), abs(Ui[0, 0]) - abs(Ui[0, 1]))
        Dr = ref_irrep(j2, Ui)
        e = float(np.abs(Di[j2] - Dr).max())
        if not e <= tol_irrep(j2, bi):
            if j2 % 2 and float(np.abs(Di[j2] + Dr).max()) <= tol_irrep(j2, bi):
                out.violation('irrep/get_su2_irrep/matrix_entry/minus_reference/%s' % cls, 'get_su2_irrep(%d, U) = -D(U) for %s (wrong 4pi branch)' % (j2, labels[i]), j2=j2, U=Ui, element=labels[i])
            else:
                out.violation('irrep/get_su2_irrep/matrix_entry/differs_from_symmetric_power/%s' % cls,
                              'get_su2_irrep(%d, U) differs from the symmetric power of U by %.3g (tol %.3g) for %s' % (j2, e, tol_irrep(j2, bi), labels[i]),
                              j2=j2, U=Ui, element=labels[i], err=e)
        eu = float(np.abs(Di[j2] @ Di[j2].conj().T - np.eye(j2 + 1)).max())
        if not eu <= tol_irrep(j2, bi, 2):
            out.violation('irrep/get_su2_irrep/matrix_entry/not_unitary/%s' % cls, 'get_su2_irrep(%d, U) is not unitary (%.3g) for %s' % (j2, eu, labels[i]), j2=j2, U=Ui, element=labels[i], err=eu)
    for k in range(n):
        out.state()
        Uk, Rk = Us[k], Rs_[k]
        det = {'first': labels[i], 'second': labels[k], 'U1': Ui, 'U2': Uk}
        U12 = Ui @ Uk
        R12 = Ri @ Rk
        if kinds[i] == 'octa' and kinds[k] == 'octa':
            U12 = snap(U12)
            R12 = snap(R12, values=(0.0, 1.0))
        good = True
        # homomorphism of the two-to-one map: implementation values only
        okp, Rp = call(out, '%s/su2_to_so3' % site, g.su2_to_so3, (U12.copy(),), det)
        ok1, R1 = call(out, '%s/su2_to_so3' % site, g.su2_to_so3, (Ui.copy(),), det)
        ok2, R2 = call(out, '%s/su2_to_so3' % site, g.su2_to_so3, (Uk.copy(),), det)
        if okp and ok1 and ok2:
            e = float(np.abs(np.asarray(Rp) - np.asarray(R1) @ np.asarray(R2)).max())
            if not e <= 4 * TOL1:
                out.violation('%s/su2_to_so3/not_homomorphism' % site, 'su2_to_so3(U1 U2) differs from su2_to_so3(U1) su2_to_so3(U2) by %.3g' % e, err=e, **det)
                good = False
            e = float(np.abs(np.asarray(Rp) - R12).max())
            if not e <= 4 * TOL1:
                out.violation('%s/su2_to_so3/product_differs_from_reference' % site, 'su2_to_so3(U1 U2) differs from R1 R2 by %.3g' % e, err=e, **det)
                good = False
        else:
            good = False
        # every product through the round trips (products of axis-aligned rotations are gimbal-locked again)
        good &= chain_so3(numqi, out, R12, 'roundtrip', {'first': labels[i], 'second': labels[k]}, steps0=2)
        good &= chain_su2(numqi, out, U12, 'roundtrip', {'first': labels[i], 'second': labels[k]}, steps0=2)
        # so3_to_su2 is a homomorphism up to sign
        sbp = sinb_su2(U12)
        cls12 = beta_class(sbp, abs(U12[0, 0]) - abs(U12[0, 1]))
        okp, Vp = call(out, '%s/so3_to_su2' % site, g.so3_to_su2, (R12.copy(),), det)
        ok1, V1 = call(out, '%s/so3_to_su2' % site, g.so3_to_su2, (Ri.copy(),), det)
        ok2, V2 = call(out, '%s/so3_to_su2' % site, g.so3_to_su2, (Rk.copy(),), det)
        if okp and ok1 and ok2 and finite(Vp, V1, V2):
            V12 = np.asarray(V1) @ np.asarray(V2)
            sbs = [s for s in (sbp, sinb_su2(Ui), sinb_su2(Uk)) if in_band(s)]
            tol = 6 * TOL1 + (3 * BAND if sbs else 0.0)
            e = min(float(np.abs(Vp - V12).max()), float(np.abs(Vp + V12).max()))
            if not e <= tol:
                out.violation('%s/so3_to_su2/not_homomorphism_up_to_sign/%s' % (site, cls12),
                              'so3_to_su2(R1 R2) differs from +-so3_to_su2(R1) so3_to_su2(R2) by %.3g (tol %.3g); product has %s' % (e, tol, cls12), err=e, R1=Ri, R2=Rk, **det)
                good = False
        else:
            good = False
        # spin-j representations
        bk_ = in_band(sinb_su2(Uk))
        bp = in_band(sbp)
        for j2 in j2s:
            Dk = impl_irrep(numqi, out, j2, Uk, site, det)
            Dp = impl_irrep(numqi, out, j2, U12, site, det)
            if Dk is None or Dp is None or Di[j2] is None:
                good = False
                continue
            band = bi or bk_ or bp
            tol = tol_irrep(j2, False, 3) + (3 * BAND * max(j2, 1) if band else 0.0)
            lhs, rhs = Dp, Di[j2] @ Dk
            e = float(np.abs(lhs - rhs).max())
            if not e <= tol:
                if j2 % 2 and float(np.abs(lhs + rhs).max()) <= tol:
                    out.violation('%s/get_su2_irrep/not_multiplicative/sign/%s' % (site, cls12),
                                  'D(U1 U2) = -D(U1) D(U2) for j2=%d (half-integer spin; wrong 4pi branch); U1=%s, U2=%s, product has %s' % (j2, labels[i], labels[k], cls12),
                                  j2=j2, **det)
                else:
                    out.violation('%s/get_su2_irrep/not_multiplicative/%s' % (site, cls12),
                                  'D(U1 U2) differs from D(U1) D(U2) by %.3g (tol %.3g) for j2=%d; U1=%s, U2=%s, product has %s' % (e, tol, j2, labels[i], labels[k], cls12),
                                  j2=j2, err=e, tol=tol, **det)
                good = False
            if j2 in (1, 2, case['j2max']):
                out.outcome(('D', j2, np.round(Dp, 5)), nontrivial=bool(np.abs(Dp - np.diag(np.diag(Dp))).max() > 1e-6))
        if good:
            out.trace()
    out.sample = {'kind': 'pairs', 'first': labels[i], 'U1': Ui, 'second_elements': n, 'j2': [0, case['j2max']]}


# ----------------------------------------------------------------------------------------------- irreps on an Euler grid
def clear_irrep_cache(numqi):
    try:
        numqi.group._lie._get_su2_irrep_get_coeff.cache_clear()
    except AttributeError:
        from mc import seams
        seams.clear_numqi_caches()


def run_irrep(case, out, env):
    import numqi
    g = numqi.group
    j2, NA = case['j2'], case['NA']
    betas = beta_alphabet(env.tier)
    ga = [k * 2 * math.pi / NA for k in range(NA)]
    gg = [k * 2 * math.pi / NA for k in range(2 * NA)]
    atoms = generic_atoms(env, 2 if env.tier == 'quick' else 6, tag='irrep_atoms')
    q = max(NA // 4, 1)   # scalar return_matd calls on the sub-grid of multiples of pi/2 (+ atoms); the complete grid goes through the batched calls
    points = [(a, b, c, bk, lab, (ia, ig)) for lab, b, bk in betas for ia, a in enumerate(ga) for ig, c in enumerate(gg)] + [(a, b, c, 'num', 'atom', None) for a, b, c in atoms]
    site = 'irrep'
    first = True
    dcache = {}
    Drgrid = {}

    def smalld(b, bk):
        if (b, bk) not in dcache:
            dcache[(b, bk)] = ref_smalld(j2, b, beta_trig(b, bk)[1])
        return dcache[(b, bk)]
    # per beta: the angle entry through broadcasting (alpha (NA,1), beta scalar, gamma (1,2NA)) and the matrix entry on the whole
    # (alpha,gamma) grid as one (NA,2NA) batch; both once more with return_matd=True
    for lab, b, bk in betas:
        hcs = beta_trig(b, bk)[1]
        Ugrid = np.array([[ref_su2(a, b, c, hcs) for c in gg] for a in ga])
        Dr = np.array([[ref_irrep(j2, Ugrid[ia, ig]) for ig in range(2 * NA)] for ia in range(NA)])
        Drgrid[lab] = Dr
        gshape = (NA, 2 * NA)
        out.state()
        det = {'j2': j2, 'beta': b, 'beta_label': lab, 'batch': 'whole (alpha,gamma) grid of SU(2) matrices, shape (%d,%d,2,2)' % gshape}
        band = in_band(sinb_su2(Ugrid[0, 0]))
        ok, Dmb = call(out, '%s/get_su2_irrep' % site, g.get_su2_irrep, (j2, Ugrid.copy()), det)
        if ok:
            Dmb = np.asarray(Dmb)
            if Dmb.shape != Dr.shape or not finite(Dmb) or not np.abs(Dmb - Dr).max() <= tol_irrep(j2, band):
                out.violation('%s/get_su2_irrep/gridbatch_mismatch' % site,
                              'get_su2_irrep(%d, U) on the (alpha,gamma) grid at beta=%s as one batch has shape %s (expected %s) / differs from the reference element-wise' % (j2, lab, Dmb.shape, Dr.shape), **det)
            else:
                out.trace()
            ok, res = call(out, '%s/get_su2_irrep' % site, g.get_su2_irrep, (j2, Ugrid.copy()), det, kw={'return_matd': True})
            if ok:
                check_matd(out, '%s/get_su2_irrep' % site, j2, res, Dmb, np.broadcast_to(smalld(b, bk), Dr.shape), gshape, det, 'get_su2_irrep(%d, U grid at beta=%s)' % (j2, lab))
        if bk != 'num':
            continue
        out.state()
        det = {'j2': j2, 'beta': b, 'beta_label': lab, 'batch': 'alpha (NA,1), beta scalar, gamma (1,2NA)'}
        ok, Db = call(out, '%s/get_su2_irrep(angles)' % site, g.get_su2_irrep, (j2, np.array(ga)[:, None], b, np.array(gg)[None, :]), det)
        if ok:
            Db = np.asarray(Db)
            if Db.shape != Dr.shape or not finite(Db) or not np.abs(Db - Dr).max() <= tol_irrep(j2):
                out.violation('%s/get_su2_irrep(angles)/broadcast_mismatch' % site,
                              'get_su2_irrep(%d, alpha[:,None], %r, gamma[None,:]) has shape %s (expected %s) / differs from the reference element-wise' % (j2, b, Db.shape, Dr.shape), **det)
            else:
                out.trace()
            ok, res = call(out, '%s/get_su2_irrep(angles)' % site, g.get_su2_irrep, (j2, np.array(ga)[:, None], b, np.array(gg)[None, :]), det, kw={'return_matd': True})
            if ok:
                check_matd(out, '%s/get_su2_irrep(angles)' % site, j2, res, Db, np.broadcast_to(smalld(b, bk), Dr.shape), gshape, det,
                           'get_su2_irrep(%d, alpha[:,None], %r, gamma[None,:])' % (j2, b))
    for a, b, c, bk, lab, gi in points:
        out.state()
        _, hcs = beta_trig(b, bk)
        U = ref_su2(a, b, c, hcs)
        Dr = ref_irrep(j2, U) if gi is None else Drgrid[lab][gi]
        sub = gi is None or (gi[0] % q == 0 and gi[1] % q == 0)
        sb = sinb_su2(U)
        band = in_band(sb)
        cls = beta_class(sb, abs(U[0, 0]) - abs(U[0, 1]))
        det = {'j2': j2, 'alpha': a, 'beta': b, 'gamma': c, 'beta_label': lab, 'U': U}
        good = True
        if first:
            clear_irrep_cache(numqi)
        Dm = impl_irrep(numqi, out, j2, U, site, det)
        if first and Dm is not None:
            Dw = impl_irrep(numqi, out, j2, U, site, det)
            if Dw is None or not np.array_equal(Dw, Dm):
                out.violation('%s/get_su2_irrep/cold_warm_cache_differ' % site, 'get_su2_irrep(%d, U) differs between the cold and the warm coefficient cache' % j2, **det)
        first = False
        if Dm is None:
            good = False
        else:
            e = float(np.abs(Dm - Dr).max())
            if not e <= tol_irrep(j2, band):
                if j2 % 2 and float(np.abs(Dm + Dr).max()) <= tol_irrep(j2, band):
                    out.violation('%s/get_su2_irrep/matrix_entry/minus_reference/%s' % (site, cls),
                                  'get_su2_irrep(%d, U) = -D(U) (wrong 4pi branch) for U=su2(%r,%r,%r), %s' % (j2, a, b, c, cls), **det)
                else:
                    out.violation('%s/get_su2_irrep/matrix_entry/differs_from_symmetric_power/%s' % (site, cls),
                                  'get_su2_irrep(%d, U) differs from the symmetric power of U by %.3g (tol %.3g), U=su2(%r,%r,%r), %s' % (j2, e, tol_irrep(j2, band), a, b, c, cls),
                                  err=e, **det)
                good = False
            eu = float(np.abs(Dm @ Dm.conj().T - np.eye(j2 + 1)).max())
            if not eu <= tol_irrep(j2, False, 2):
                out.violation('%s/get_su2_irrep/matrix_entry/not_unitary/%s' % (site, cls), 'get_su2_irrep(%d, U) is not unitary: %.3g' % (j2, eu), err=eu, **det)
                good = False
            if sub:
                ok, res = call(out, '%s/get_su2_irrep' % site, g.get_su2_irrep, (j2, U.copy()), det, kw={'return_matd': True})
                good &= bool(ok) and check_matd(out, '%s/get_su2_irrep' % site, j2, res, Dm, smalld(b, bk), (), det, 'get_su2_irrep(%d, U=su2(%r,%r,%r))' % (j2, a, b, c))
        if bk == 'num':
            ok, Da = call(out, '%s/get_su2_irrep(angles)' % site, g.get_su2_irrep, (j2, a, b, c), det)
            if ok:
                Da = np.asarray(Da)
                if Da.shape != (j2 + 1, j2 + 1) or not finite(Da):
                    out.violation('%s/get_su2_irrep(angles)/shape_or_nonfinite' % site, 'angle entry: shape %s / non-finite' % (Da.shape,), **det)
                    good = False
                else:
                    e = float(np.abs(Da - Dr).max())
                    if not e <= tol_irrep(j2):
                        out.violation('%s/get_su2_irrep(angles)/differs_from_symmetric_power' % site,
                                      'get_su2_irrep(%d, %r, %r, %r) differs from the symmetric power of Uz(a)Uy(b)Uz(g) by %.3g (tol %.3g)' % (j2, a, b, c, e, tol_irrep(j2)),
                                      err=e, **det)
                        good = False
                    if Dm is not None:
                        e = float(np.abs(Da - Dm).max())
                        if not e <= tol_irrep(j2, band, 2):
                            out.violation('%s/get_su2_irrep/matrix_and_angle_entry_disagree/%s' % (site, cls),
                                          'get_su2_irrep(%d, U) and get_su2_irrep(%d, a, b, g) differ by %.3g for U = angle_to_su2(%r,%r,%r), %s' % (j2, j2, e, a, b, c, cls),
                                          err=e, **det)
                            good = False
                    out.outcome(('D', j2, np.round(Da, 5)), nontrivial=bool(np.abs(Da - np.diag(np.diag(Da))).max() > 1e-6))
                    if sub:
                        ok, res = call(out, '%s/get_su2_irrep(angles)' % site, g.get_su2_irrep, (j2, a, b, c), det, kw={'return_matd': True})
                        good &= bool(ok) and check_matd(out, '%s/get_su2_irrep(angles)' % site, j2, res, Da, smalld(b, bk), (), det, 'get_su2_irrep(%d, %r, %r, %r)' % (j2, a, b, c))
            else:
                good = False
        if good:
            out.trace()
    # j2 argument forms (the docstring allows j = 0, 0.5, 1 ... given as j2; the code normalises with int() in front of a cached
    # coefficient table): float / np.float64 / np.int64 give bit-identically what the python int gives, with a cold table first
    fpts = [atoms[0], (4.5, 0.0, 0.0), (2.0, math.pi, 5.0), (1.0, 3e-8, 2.0)]
    for fname, v in (('float', float(j2)), ('np.float64', np.float64(j2)), ('np.int64', np.int64(j2))):
        for entry in ('matrix', 'angles'):
            for a, b, c in fpts:
                out.state()
                args = (ref_su2(a, b, c),) if entry == 'matrix' else (a, b, c)
                det = {'j2': j2, 'j2_form': fname, 'entry': entry, 'alpha': a, 'beta': b, 'gamma': c}
                fkey = '%s/get_su2_irrep%s/j2_form/%s' % (site, '' if entry == 'matrix' else '(angles)', fname)
                clear_irrep_cache(numqi)
                okf, Df = call(out, fkey, g.get_su2_irrep, (v,) + tuple(np.copy(x) for x in args), det)
                oki, Di = call(out, '%s/get_su2_irrep' % site, g.get_su2_irrep, (j2,) + tuple(np.copy(x) for x in args), det)
                if okf and oki:
                    if np.shape(Df) != np.shape(Di) or not np.array_equal(np.asarray(Df), np.asarray(Di)):
                        out.violation(fkey + '/differs_from_int_call', 'get_su2_irrep(%s(%d), %s) differs from get_su2_irrep(%d, %s)' % (fname, j2, entry, j2, entry), got=Df, expected=Di, **det)
                    else:
                        out.count('j2_form_compared')
                        out.trace()
    out.sample = {'kind': 'irrep', 'j2': j2, 'points': len(points), 'atoms': atoms}


# ----------------------------------------------------------------------------------------------- batches
def arrangements(arr, first):
    """index arrays (into the 8-element batch alphabet) of every batch of this arrangement"""
    K = 8
    if arr == '1d':
        for n in (1, 2, 3):
            for t in itertools.product(range(K), repeat=n):
                yield np.array(t)
    elif arr == '(1,3)':
        for t in itertools.product(range(K), repeat=3):
            yield np.array(t).reshape(1, 3)
    elif arr == '(3,1)':
        for t in itertools.product(range(K), repeat=3):
            yield np.array(t).reshape(3, 1)
    elif arr in ('(2,2)', '(4,)', '(2,1,2)'):
        shp = {'(2,2)': (2, 2), '(4,)': (4,), '(2,1,2)': (2, 1, 2)}[arr]
        for t in itertools.product(range(K), repeat=3):
            yield np.array((first,) + t).reshape(shp)
    else:
        raise ValueError(arr)


BATCH_J2 = (1, 2, 5)


def run_batch(case, out, env):
    import numqi
    g = numqi.group
    fam, arr = case['fam'], case['arr']
    E = batch_alphabet(env)
    K = len(E)
    ang = np.array([e[1] for e in E])
    Us = np.array([ref_su2(*e[1]) for e in E])
    Rs = np.array([ref_so3(*e[1]) for e in E])
    deg = np.array([e[2] == 'deg' for e in E])
    labels = [e[0] for e in E]
    site = 'batch/%s' % fam

    # element-wise answers: one scalar-shaped call per alphabet element (None if that call fails - reported by the other spaces)
    def single(k):
        try:
            if fam == 'so3_to_angle':
                a = g.so3_to_angle(Rs[k].copy())
                return ref_so3(*a) if finite(*a) else None
            if fam == 'su2_to_angle':
                a = g.su2_to_angle(Us[k].copy())
                return ref_su2(*a) if finite(*a) else None
            if fam == 'so3_to_su2':
                return np.asarray(g.so3_to_su2(Rs[k].copy()))
            if fam == 'su2_to_so3':
                return np.asarray(g.su2_to_so3(Us[k].copy()))
            if fam == 'angle_to_so3':
                return np.asarray(g.angle_to_so3(*ang[k]))
            if fam == 'angle_to_su2':
                return np.asarray(g.angle_to_su2(*ang[k]))
            if fam == 'irrep_mat':
                return [np.asarray(g.get_su2_irrep(j2, Us[k].copy())) for j2 in BATCH_J2]
            if fam == 'irrep_ang':
                return [np.asarray(g.get_su2_irrep(j2, *ang[k])) for j2 in BATCH_J2]
        except Exception:  # noqa
            return None
        raise ValueError(fam)
    singles = []
    for k in range(K):
        out.trans()
        singles.append(single(k))
    # return_matd coordinate of the irrep families: element-wise small-d matrices from scalar-shaped calls with return_matd=True
    singles_d = [None] * K
    if fam.startswith('irrep'):
        for k in range(K):
            out.trans()
            try:
                r = [g.get_su2_irrep(j2, *((Us[k].copy(),) if fam == 'irrep_mat' else tuple(ang[k])), return_matd=True) for j2 in BATCH_J2]
                if all(isinstance(x, tuple) and len(x) == 2 for x in r):
                    singles_d[k] = [np.asarray(x[1]) for x in r]
            except Exception:  # noqa: reported by the irrep cases
                pass
    n_single_failed = sum(s is None for s in singles)
    if n_single_failed:
        out.count('batch_alphabet_elements_whose_single_call_fails', n_single_failed)

    def compare(idx, got_list, mixture, extra='', singles=singles, cls='differs_from_elementwise'):
        """got_list: list over components (1, or len(BATCH_J2)) of arrays with shape idx.shape + tail"""
        flat = idx.reshape(-1)
        for ci, got in enumerate(got_list):
            got = np.asarray(got)
            tail = got.shape[idx.ndim:]
            if got.shape[:idx.ndim] != idx.shape:
                out.violation('%s/shape' % site, '%s%s: batch shape %s gave output shape %s' % (fam, extra, idx.shape, got.shape), batch=[labels[i] for i in flat], batch_shape=list(idx.shape))
                return False
            gf = got.reshape((len(flat),) + tail)
            for pos, k in enumerate(flat):
                s = singles[k]
                if s is None:
                    continue
                s = s[ci] if isinstance(s, list) else s
                j2 = BATCH_J2[ci] if fam.startswith('irrep') else 0
                tol = tol_irrep(j2, False, 2) if fam.startswith('irrep') else 2 * TOL1
                if gf[pos].shape != np.shape(s) or not finite(gf[pos]) or not np.abs(gf[pos] - s).max() <= tol:
                    out.violation('%s/%s/%s' % (site, cls, mixture),
                                  '%s%s: element %d (%s) of the batch %s (shape %s) differs from the single call on that element' % (fam, extra, pos, labels[k], [labels[i] for i in flat], idx.shape),
                                  batch=[labels[i] for i in flat], batch_shape=list(idx.shape), position=pos, got=gf[pos], single=s,
                                  angles_of_batch=ang[flat], **({'j2': j2} if j2 else {}))
                    return False
        return True

    for idx in arrangements(arr, case['first']):
        out.state()
        flat = idx.reshape(-1)
        d = deg[flat]
        mixture = 'mixed_degenerate_and_generic' if (d.any() and not d.all()) else ('all_degenerate' if d.all() else 'all_generic')
        det = {'batch': [labels[i] for i in flat], 'batch_shape': list(idx.shape), 'angles_of_batch': ang[flat]}
        key = '%s/%%s/%s' % (site, mixture)
        good = True
        if fam in ('so3_to_angle', 'su2_to_angle'):
            fn, X, reb = (g.so3_to_angle, Rs, ref_so3) if fam == 'so3_to_angle' else (g.su2_to_angle, Us, ref_su2)
            out.trans()
            try:
                a = fn(X[idx].copy())
            except Exception as e:  # noqa
                out.violation(key % type(e).__name__, '%s raised %s on the batch %s: %s' % (fam, type(e).__name__, det['batch'], str(e)[:160]), **det)
                continue
            if any(np.shape(x) != idx.shape for x in a):
                out.violation('%s/shape' % site, '%s: batch shape %s gave angle shapes %s' % (fam, idx.shape, [np.shape(x) for x in a]), **det)
                continue
            if not finite(*a):
                # only a batch effect if the single calls are finite
                if all(singles[k] is not None for k in flat):
                    out.violation('%s/nonfinite/%s' % (site, mixture), '%s returned NaN on the batch %s although every single call is finite' % (fam, det['batch']), **det)
                continue
            af = [np.asarray(x).reshape(-1) for x in a]
            reb_all = np.array([reb(af[0][p], af[1][p], af[2][p]) for p in range(len(flat))]).reshape(idx.shape + X.shape[1:])
            good = compare(idx, [reb_all], mixture)
        elif fam in ('so3_to_su2', 'su2_to_so3'):
            fn, X = (g.so3_to_su2, Rs) if fam == 'so3_to_su2' else (g.su2_to_so3, Us)
            out.trans()
            try:
                y = fn(X[idx].copy())
            except Exception as e:  # noqa
                out.violation(key % type(e).__name__, '%s raised %s on the batch %s: %s' % (fam, type(e).__name__, det['batch'], str(e)[:160]), **det)
                continue
            good = compare(idx, [y], mixture)
        elif fam in ('angle_to_so3', 'angle_to_su2'):
            fn = g.angle_to_so3 if fam == 'angle_to_so3' else g.angle_to_su2
            out.trans()
            try:
                y = fn(ang[idx][..., 0].copy(), ang[idx][..., 1].copy(), ang[idx][..., 2].copy())
            except Exception as e:  # noqa
                out.violation(key % type(e).__name__, '%s raised %s on the batch %s: %s' % (fam, type(e).__name__, det['batch'], str(e)[:160]), **det)
                continue
            good = compare(idx, [y], mixture)
        else:
            ys = []
            for j2 in BATCH_J2:
                out.trans()
                try:
                    if fam == 'irrep_mat':
                        ys.append(g.get_su2_irrep(j2, Us[idx].copy()))
                    else:
                        ys.append(g.get_su2_irrep(j2, ang[idx][..., 0].copy(), ang[idx][..., 1].copy(), ang[idx][..., 2].copy()))
                except Exception as e:  # noqa
                    out.violation(key % type(e).__name__, 'get_su2_irrep(%d, %s) raised %s on the batch %s: %s'
                                  % (j2, 'U' if fam == 'irrep_mat' else 'angles', type(e).__name__, det['batch'], str(e)[:160]), j2=j2, **det)
                    ys = None
                    break
            if ys is None:
                continue
            good = compare(idx, ys, mixture)
            if env.tier == 'quick' and arr not in ('1d', '(1,3)', '(3,1)'):
                out.outcome((fam, tuple(int(v) for v in sorted(set(flat.tolist()))), mixture), nontrivial=mixture == 'mixed_degenerate_and_generic')
                if good:
                    out.trace()
                continue  # quick tier: the return_matd coordinate on all tuples of length 1..3 only (thorough: every arrangement)
            # the same batch with return_matd=True: first element bit-identical with the default call, matd element-wise
            yd = []
            for ci, j2 in enumerate(BATCH_J2):
                out.trans()
                try:
                    if fam == 'irrep_mat':
                        r = g.get_su2_irrep(j2, Us[idx].copy(), return_matd=True)
                    else:
                        r = g.get_su2_irrep(j2, ang[idx][..., 0].copy(), ang[idx][..., 1].copy(), ang[idx][..., 2].copy(), return_matd=True)
                except Exception as e:  # noqa
                    out.violation(key % ('return_matd/' + type(e).__name__), 'get_su2_irrep(%d, %s, return_matd=True) raised %s on the batch %s: %s'
                                  % (j2, 'U' if fam == 'irrep_mat' else 'angles', type(e).__name__, det['batch'], str(e)[:160]), j2=j2, **det)
                    yd = None
                    break
                if not (isinstance(r, tuple) and len(r) == 2) or np.asarray(r[1]).dtype.kind != 'f':
                    out.violation('%s/return_matd/not_a_pair_with_real_matd' % site, 'get_su2_irrep(%d, batch, return_matd=True) returned %s' % (j2, type(r).__name__), j2=j2, **det)
                    yd = None
                    break
                if not np.array_equal(np.asarray(r[0]), np.asarray(ys[ci])):
                    out.violation('%s/return_matd/first_element_differs_from_default_call/%s' % (site, mixture),
                                  'get_su2_irrep(%d, batch %s): the first element returned with return_matd=True differs from the default call' % (j2, det['batch']), j2=j2, **det)
                    good = False
                yd.append(r[1])
            if yd is None:
                continue
            good &= compare(idx, yd, mixture, extra=' matd (return_matd=True)', singles=singles_d, cls='return_matd/matd_differs_from_elementwise')
            out.count('return_matd_compared')
        out.outcome((fam, tuple(int(v) for v in sorted(set(flat.tolist()))), mixture), nontrivial=mixture == 'mixed_degenerate_and_generic')
        if good:
            out.trace()
    out.sample = {'kind': 'batch', 'fam': fam, 'arrangement': arr, 'alphabet': labels, 'alphabet_angles': ang}


# ----------------------------------------------------------------------------------------------- angular momentum, Clebsch-Gordan
def run_angmom(case, out, env):
    import numqi
    j2 = case['j2']
    n = j2 + 1
    j = j2 / 2
    ok, ops = call(out, 'angmom/get_angular_momentum_op', numqi.matrix_space.get_angular_momentum_op, (j2,), {'j2': j2})
    if not ok:
        return
    if len(ops) != 3 or any(np.shape(x) != (n, n) for x in ops) or not finite(*ops):
        out.violation('angmom/get_angular_momentum_op/shape_or_nonfinite', 'get_angular_momentum_op(%d) returned shapes %s' % (j2, [np.shape(x) for x in ops]), j2=j2)
        return
    J = [np.asarray(x).astype(np.complex128) for x in ops]
    Jr = ref_angmom(j2)
    tol_e = 4 * EPS * max(1.0, j)            # entries are one square root of an exactly representable number, halved
    tol_c = C_SAFETY * EPS * max(1.0, j * j)
    names = 'xyz'
    out.state(3 * n * n)
    for c in range(3):
        e = float(np.abs(J[c] - Jr[c]).max())
        if not e <= tol_e:
            out.violation('angmom/get_angular_momentum_op/wrong_entry/J%s' % names[c], 'J%s of spin %g differs from the ladder-operator reference by %.3g' % (names[c], j, e), j2=j2, got=J[c], expected=Jr[c])
        if not np.abs(J[c] - J[c].conj().T).max() <= tol_e:
            out.violation('angmom/get_angular_momentum_op/not_hermitian/J%s' % names[c], 'J%s of spin %g is not Hermitian' % (names[c], j), j2=j2, got=J[c])
    for a, b, c in ((0, 1, 2), (1, 2, 0), (2, 0, 1)):
        out.state()
        e = float(np.abs(J[a] @ J[b] - J[b] @ J[a] - 1j * J[c]).max())
        if not e <= tol_c:
            out.violation('angmom/get_angular_momentum_op/commutator', '[J%s,J%s] - i J%s = %.3g for spin %g' % (names[a], names[b], names[c], e, j), j2=j2, err=e)
    out.state()
    e = float(np.abs(J[0] @ J[0] + J[1] @ J[1] + J[2] @ J[2] - j * (j + 1) * np.eye(n)).max())
    if not e <= tol_c:
        out.violation('angmom/get_angular_momentum_op/casimir', 'Jx^2+Jy^2+Jz^2 - j(j+1) = %.3g for spin %g' % (e, j), j2=j2, err=e)
    out.outcome(('J', j2, np.round(J[0], 6)), nontrivial=j2 > 0)
    out.trace()
    out.sample = {'kind': 'angmom', 'j2': j2}


def clear_cg_cache(numqi):
    try:
        numqi.matrix_space._clebsch_gordan._get_clebsch_gordan_coeffient_cache.cache_clear()
    except AttributeError:
        from mc import seams
        seams.clear_numqi_caches()


def run_cg(case, out, env):
    import numqi
    j1, j2 = case['j1d'], case['j2d']
    n1, n2 = j1 + 1, j2 + 1
    N = n1 * n2
    det = {'j1_double': j1, 'j2_double': j2}
    fn = numqi.matrix_space.get_clebsch_gordan_coeffient
    clear_cg_cache(numqi)
    ok, cold = call(out, 'cg/get_clebsch_gordan_coeffient', fn, (j1, j2), det)
    if not ok:
        return
    ok, warm = call(out, 'cg/get_clebsch_gordan_coeffient', fn, (j1, j2), det)
    if not ok:
        return
    jlist = list(range(abs(j1 - j2), j1 + j2 + 1, 2))
    for tag, z in (('cold', cold), ('warm', warm)):
        if [int(x[0]) for x in z] != jlist or any(np.shape(x[1]) != (jd + 1, n1, n2) for x, jd in zip(z, jlist)) or not finite(*[x[1] for x in z]):
            out.violation('cg/get_clebsch_gordan_coeffient/block_list', 'blocks %s with shapes %s, expected j_double = %s with shapes (j_double+1,%d,%d) (%s cache)'
                          % ([x[0] for x in z], [np.shape(x[1]) for x in z], jlist, n1, n2, tag), **det)
            return
    if any(not np.array_equal(a[1], b[1]) for a, b in zip(cold, warm)):
        out.violation('cg/get_clebsch_gordan_coeffient/cold_warm_cache_differ', 'first and second call return different tables', **det)
    z = cold
    tol = C_SAFETY * EPS
    # every entry against Racah's formula; selection rule m = m1 + m2
    for jd, coeff in z:
        for i in range(jd + 1):
            for i1 in range(n1):
                for i2 in range(n2):
                    out.state()
                    M, m1, m2 = jd - 2 * i, j1 - 2 * i1, j2 - 2 * i2   # doubled magnetic numbers, index 0 <-> m = +j
                    v = float(coeff[i, i1, i2])
                    if m1 + m2 != M:
                        if v != 0.0:
                            out.violation('cg/get_clebsch_gordan_coeffient/selection_rule', '<%d/2 %d/2; %d/2 %d/2 | %d/2 %d/2> = %r although m1+m2 != m' % (j1, m1, j2, m2, jd, M, v),
                                          J_double=jd, m_double=[m1, m2, M], value=v, **det)
                        continue
                    r = racah_cg(j1, m1, j2, m2, jd, M)
                    if not abs(v - r) <= tol:
                        what = 'sign' if abs(v + r) <= tol else 'value'
                        out.violation('cg/get_clebsch_gordan_coeffient/differs_from_racah/%s' % what,
                                      '<%d/2 %d/2; %d/2 %d/2 | %d/2 %d/2> = %r, Racah formula gives %r' % (j1, m1, j2, m2, jd, M, v, r),
                                      J_double=jd, m_double=[m1, m2, M], value=v, expected=r, **det)
                    out.outcome(('cg', round(v, 9)), nontrivial=v != 0.0)
    V = np.concatenate([x[1] for x in z], axis=0).reshape(N, N)
    e = float(np.abs(V @ V.T - np.eye(N)).max())
    if not e <= tol * 4:
        out.violation('cg/get_clebsch_gordan_coeffient/orthogonality/coupled_basis', 'sum_{m1 m2} C C - delta = %.3g' % e, err=e, **det)
    e = float(np.abs(V.T @ V - np.eye(N)).max())
    if not e <= tol * 4:
        out.violation('cg/get_clebsch_gordan_coeffient/orthogonality/product_basis', 'sum_{j m} C C - delta = %.3g' % e, err=e, **det)
    # intertwining: V (J1 x 1 + 1 x J2) V^T = blockdiag(J^(j)) with the implementation's own operators and with the reference ones
    for src in ('impl', 'ref'):
        try:
            getop = (lambda d: [np.asarray(x).astype(np.complex128) for x in numqi.matrix_space.get_angular_momentum_op(d)]) if src == 'impl' else ref_angmom
            A, B = getop(j1), getop(j2)
            blocks = [getop(jd) for jd in jlist]
        except Exception:  # noqa: reported by the angmom cases
            continue
        if src == 'impl':
            out.trans(2 + len(jlist))
        for c in range(3):
            tot = np.kron(A[c], np.eye(n2)) + np.kron(np.eye(n1), B[c])
            blk = np.zeros((N, N), dtype=np.complex128)
            p = 0
            for b_ in blocks:
                k = b_[c].shape[0]
                blk[p:p + k, p:p + k] = b_[c]
                p += k
            e = float(np.abs(V @ tot @ V.T - blk).max())
            if not e <= tol * (j1 / 2 + j2 / 2 + 1) * 4:
                out.violation('cg/get_clebsch_gordan_coeffient/intertwining/J%s' % 'xyz'[c],
                              'V (J1 x 1 + 1 x J2) V^T differs from the direct sum of the spin-j operators (%s) by %.3g' % (src, e), err=e, operators=src, **det)
    out.trace()
    out.sample = {'kind': 'cg', 'j1_double': j1, 'j2_double': j2, 'blocks': jlist}
