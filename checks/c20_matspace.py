"""C20 - matrix-subspace decomposition is exact and rank certificates are sound   (mode P: product lattices)

Spaces (DESIGN.md section 4, C20). Every space below is a finite product that is enumerated completely; the only
seed-dependent ingredients are generic atoms drawn from env.rng(tag).

  decomp   : numqi.matrix_space.get_matrix_orthogonal_basis(generators, field) for every
             (generator class, field) in {real general, real symmetric, complex general, Hermitian, complex symmetric}
             x {real, complex}  (space_char R, R_T, C, C_T, C_H, R_cT, R_c), every shape (m,n) in [2..dmax]^2 (square only
             for the symmetric / Hermitian classes) and every generator list of the alphabet
               - k = 1..ambient independent generic atoms of the class  x  dependency pattern
                 {none, duplicate, sum, zero matrix first, integer mixing to k+2 generators, i*generator}  x  G atom sets
               - spans of the matrix units of the class: all subsets (ambient <= 8) or all prefixes, suffixes, singletons
               - the zero subspace ([0], [0,0]) and one antisymmetric real list (documented 'not implemented' rejection)
             Oracle 1: membership of input and output in the reported class; #basis == reference rank (own SVD over the
             right field); basis mutually orthogonal with ONE common norm (value recorded, not prescribed); every
             generator reproduced by its projection on the basis (=> equal spans); complement orthogonal to the basis,
             linearly independent, and #basis + #complement == ambient dimension from an explicit list of class units.
             dtype axis: atoms rounded to the grid 2^-10 (so that every dependency pattern is EXACT in float32) x patterns {dup, sum, mix}
             handed over as float32 / complex64 (tolerances with eps(float32): the library reduces in the input precision); int64 unit
             lists and int64 generic atoms x the same patterns (real classes).  Inexact single precision data are outside the space.
             option zero_eps in {1e-6, 1e-13} x lists [a_1..a_k, a_1 + delta E]/8, delta in {1e-4, 1e-9, 1e-15}: reference rank with the
             same threshold (domain: no singular value within a factor 10 of it).
  hier     : has_rank_hierarchical_method(B, r, k): B = orthonormal basis of span{P, A_1..A_(N-1)}, P from the planted
             alphabet (ALL matrix units / all two-unit partial identities, two structured sums, generic atoms of rank
             r-1 and, for r=3, rank 1), A_i generic atoms, basis chosen by EVERY element of the change-of-basis alphabet
             {planted first, planted last, dense integer, generic invertible, planar rotation of the (planted, A_1) pair
             by t in T_ROT[tier] with the near-planted element first / last}; all N, all levels k, real and complex.
             Oracle 2: the answer must be False (a True answer certifies 'every non-zero element has rank >= r').
  abc      : is_ABC_completely_entangled_subspace(B, k): same construction with a planted product vector a(x)b(x)c
             (ALL basis product vectors, two structured ones, generic atoms).  Must be False.
  rank1    : detect_real_matrix_subspace_rank_one(B): real subspaces (general and symmetric) with a planted rank-one
             element; both answers of the environment (entropy stream used by ARPACK's start vector). Must be True.
  options  : hier: list-of-matrices argument == array argument ('first' basis); return_info=True: same answer + Hermitian PSD matrix
             whose smallest eigenvalue reproduces it ('atom' basis).  zero_eps of all three certificates in {1e-10, 1e-13} (smaller than
             the default 1e-7: soundness demanded as for the default) and 1e-5 (larger: twins only; certificate must be monotone).
             rank1 on RAW generator lists [P, A_1..] x change of basis {first, atom} x patterns {indep, dup, sum, zero, mix} x scale
             {1e-3, 1, 1e3}: must stay True.  hier shapes (2,3), (2,4), (4,5) and the full rank bound r = 4 on (4,4) (planted ranks 1..3);
             abc dimension triples (3,2,2), (2,3,2), (2,3,4).
  bipartite: get_real_bipartite_numerical_range(B, kind, method='eigen') for kind in {min, max}, B and -B, B from {zero, identity, unit,
             diagonal, PSD (x) PSD (exact ends lmin lmin / lmax lmax), the same - 2I, antisym (x) antisym (range {0}, kink of the convex
             objective at p = 1/2), generic symmetric atoms, projectors}.  Oracle: value == own golden-section minimisation of the convex
             function p -> lambda(pB + (1-p)B^Gamma) (one-sided: never beyond the optimum; excess <= Lipschitz constant x Brent's x
             tolerance), == exact end where known, bounds every e_i (x) f_j, min(B) == -max(-B).  method='rotation' is documented as
             unreliable on non-smooth ranges: executed, agreement with 'eigen' recorded only.
  (twin)   : the same configurations with the planted element replaced by a generic atom are executed as well; their
             answers are only recorded (liveness / non-vacuity: the certificate is issued on comparable input).
  numrange : get_matrix_numerical_range(A[, num_point]) for n = 1..8 (one dense eigensolver for every size since the repair of the
             ARPACK branch; the key segment dense / arpack is kept as the name of the size classes n<5 / n>=5), A from
             {Hermitian, i*Hermitian, normal, unitary, Jordan block, real / complex diagonal (polygon), identity, zero,
             matrix unit, rank one, real antisymmetric, real generic atoms, complex generic atoms, integer (int64) Jordan / diagonal /
             generic atoms; n=1: scalars}, num_point from a list (+ the call without num_point at one size), entropy stream in {0,1}.  Oracle 3: Re(e^{i th_j} p_j) == lambda_max((e^{i th_j}A + h.c.)/2) for every
             returned point, and every point lies in all supporting half planes of the sampled directions.

Tolerances (DESIGN 3.2: c * eps * kappa, c = 1e3 fixed):
  decomp  : the basis comes from LAPACK's SVD (rows of V^H) and the complement from eigh(1 - P) with P a projector.
            Both are orthonormal to O(n eps) independent of the conditioning of the generators; the invariant subspaces
            of 1-P (eigenvalues 0 and 1) are separated by a gap of 1, so by Davis-Kahan the computed complement is
            orthogonal to the basis to ||E||/gap = O(n eps): kappa = n_coord * nu^2 (n_coord = real/complex coordinate
            count <= 2mn, nu = the common norm: 1, sqrt2 or 2).  The Gell-Mann coordinate change used by the symmetric
            / Hermitian classes adds (d+2) eps per entry, absorbed in c.
            Span residual of a generator g: the discarded singular directions carry at most sigma_discarded (the
            library drops sigma <= zero_eps = 1e-10 *by contract*); tol = c eps n_coord ||G||_F + 2 sigma_discarded(ref).
            Domain: reference singular values of the generator coordinates are either > 1e-6 or < 1e-11 (the library's
            absolute threshold 1e-10 then classifies them as the reference does, SVD perturbation being O(eps ||G||));
            anything in between is counted as skipped_ill_conditioned.
  hier/abc/rank1 : no tolerance at all - the handed basis is orthonormal to 1e-15 (own QR, checked) and contains the
            planted element to 1e-12 (checked by projection), and the claim is the one-sided boolean. A generator list
            whose QR has min|R_ii|/max|R_ii| < 1e-6 is skipped_ill_conditioned.
  numrange: p = x^H A x with x the computed top eigenvector of H = Re(e^{i th}A). Rayleigh quotient error <= residual
            <= O(n eps ||H||) for LAPACK (and for ARPACK with tol=0, should a sparse branch come back); evaluating x^H A x adds n eps ||A||:
            tol = c eps n ||A||_2  (kappa = n ||A||_2; 0 for A = 0, where the answer is exactly 0).
"""
import contextlib
import io
import itertools
from math import comb

import numpy as np

from mc import core
from mc.seams import EntropySeam

PROPERTY = 'C20'
GUARD = ['numqi.matrix_space']  # argument-immutability oracle (mc.seams.ImmutabilityGuard)
GUARD_LAYOUT = ['numqi.matrix_space']  # memory-layout metamorphic oracle (same wrapper)
LEVEL = 'model_checking'
RULE = ('mode P (product lattices): case = one configuration (decomp: generator class x field x shape; hier/abc/rank1: sizes x rank bound '
        'x subspace dimension N x hierarchy level x field; numrange: matrix size); inside a case the whole input alphabet is executed on the '
        'real code: decomp = all (number of independent atoms 1..ambient) x dependency patterns x atom sets + all unit-spanned lists; '
        'certificates = planted alphabet x change-of-basis alphabet (x entropy stream) + generic twins; numrange = matrix alphabet x '
        'num_point list x entropy stream; bipartite = matrix alphabet x kind x sign x entropy stream. Option axes: decomp dtype {f64,c128,f32,c64,i64} '
        '(single precision only with exactly representable generators) and zero_eps x perturbation size; certificates zero_eps, raw generator lists '
        '(rank1), list argument / return_info (hier). state = one input (generator list / handed orthonormal basis / (matrix, num_point, stream)); '
        'transition = one numqi call whose complete result was compared with the reference (plus, for numrange, one per returned point); '
        'trace = one state on which every oracle clause was evaluated; non-trivial = decomp: basis and complement both non-empty; '
        'certificates: a certificate was actually issued (twin states); numrange: the matrix is not a multiple of the identity')
# additions whose oracle fires on the unchanged tree (defect reported, repair of numqi pending): skipped and counted
PENDING = set()  # bipartite_zero_matrix was repaired in numqi (known_findings.json)
ASSUMPTIONS = [
    'reference = plain numpy: own coordinates (flattened real / imaginary parts over R, flattened entries over C), numpy SVD for ranks, '
    'numpy QR for the handed orthonormal bases, numpy eigvalsh for the support function',
    'the inner product of a class is Re Tr(A^H B) over R and Tr(A^H B) over C; the R_c / R_cT results are block-real matrices '
    '[[re,-im],[im,re]] (documented by the tests of the repository) and are mapped back to complex matrices before comparison',
    'the reported space_char may be any documented class over the requested field that contains every generator; it must be the '
    'narrowest documented one whenever the list contains a generic atom of the generating class',
    'a real antisymmetric generator list is rejected by an explicit "not implemented yet" assert: counted as rejected_by_precondition',
    'the subspace handed to a certificate contains the planted element exactly up to rounding (checked: projection residual <= 1e-12) '
    'and the handed basis is orthonormal (checked: <= 1e-13); unnormalised generators are outside the claim (absolute thresholds)',
    'the start vector ARPACK draws through np.random.default_rng() is an environment answer owned by the entropy seam (streams 0,1)',
    'soundness only: a generic twin that is not certified is not a violation (completeness of a level is not claimed)',
    'sizes above the stated bounds and generators with singular values inside (1e-11, 1e-6) are outside the explored space',
    'single precision generator lists are covered only with exactly representable entries (grid 2^-10): for rounded float32 data '
    'fl(A+B) != fl(A)+fl(B) by ~1e-8 > zero_eps and the larger rank is the correct answer for the data as given; their results are '
    'compared with eps(float32) tolerances (the SVD runs in the input precision)',
    'explicit zero_eps: lists with a singular value within a factor 10 of the threshold, or with 8 eps sigma_1 above threshold/10, are '
    'outside the domain; a zero_eps above the default can only withhold a certificate (checked: monotone), below it soundness is demanded',
    'get_real_bipartite_numerical_range: reference = own golden-section minimisation over p of numpy eigvalsh; scipy Brent is trusted to '
    'stop within 3(sqrt(eps)|p|+xtol/3) of the minimiser of a convex function (safety 10); method="rotation" makes no promise (docstring)',
    'PENDING additions (oracle in place, skipped and counted until numqi is repaired): ' + ', '.join(sorted(PENDING)),
]
CHUNK = 1

C_SAFETY = 1e3
EPS = 2.220446049250313e-16
EPS32 = 1.1920928955078125e-07   # float32 / complex64 generator lists (dtype axis of decomp)
SIGMA_HI = 1e-6    # reference singular values above this are "non-zero"
SIGMA_LO = 1e-11   # ... below this are "zero" (library threshold zero_eps=1e-10 lies in between)
QUANT = 1024.0     # dtype axis: atoms rounded to multiples of 1/1024 (exact in float32, as are their integer combinations)
DTYPE_PATTERNS = ('dup', 'sum', 'mix')
ZERO_EPS_CERT = (1e-10, 1e-13, 1e-5)   # zero_eps option of the three certificates (default 1e-7): two smaller values, one larger
RAW_PATTERNS = ('indep', 'dup', 'sum', 'zero', 'mix')   # rank1 on raw generator lists: dependency patterns ...
RAW_SCALES = (1e-3, 1.0, 1e3)                           # ... x common scale of the generators
ZERO_EPS_DECOMP = (1e-6, 1e-13)        # zero_eps option of get_matrix_orthogonal_basis ...
PERTURB_DECOMP = (1e-4, 1e-9, 1e-15)   # ... x size of the perturbation of the duplicated generator (factor >= 100 between the grids)
T_ROT = {'quick': (1e-3, 1e-4, 1e-5), 'thorough': (1e-2, 1e-3, 1e-4, 1e-5, 1e-6)}   # planar rotation angles of the near-aligned change of basis


# =============================================================================================== reference: classes
FIELD_OF = {'R': 'real', 'R_T': 'real', 'C_H': 'real', 'R_c': 'real', 'R_cT': 'real', 'C': 'complex', 'C_T': 'complex'}
BLOCK_REAL = ('R_c', 'R_cT')
# (generator class, field) -> narrowest documented class
EXPECT = {('Rgen', 'real'): 'R', ('Rgen', 'complex'): 'C', ('Rsym', 'real'): 'R_T', ('Rsym', 'complex'): 'C_T',
          ('Cgen', 'complex'): 'C', ('Cgen', 'real'): 'R_c', ('Cherm', 'real'): 'C_H', ('Cherm', 'complex'): 'C',
          ('Csym', 'real'): 'R_cT', ('Csym', 'complex'): 'C_T'}
SQUARE_ONLY = ('Rsym', 'Cherm', 'Csym')
IS_COMPLEX_GEN = {'Rgen': False, 'Rsym': False, 'Cgen': True, 'Cherm': True, 'Csym': True}
# classes the docstring offers for (complex dtype?, field)
ALLOWED = {(False, 'real'): ('R', 'R_T'), (False, 'complex'): ('C', 'C_T'), (True, 'real'): ('C_H', 'R_cT', 'R_c'),
           (True, 'complex'): ('C', 'C_T')}


def unit(m, n, a, b, v=1.0):
    x = np.zeros((m, n), dtype=np.complex128)
    x[a, b] = v
    return x


def class_units(char, m, n):
    """explicit list of matrices spanning the structured space `char` over its field (independent definition of the
    ambient dimension: len(class_units))"""
    ret = []
    if char in ('R', 'C'):
        ret = [unit(m, n, a, b) for a in range(m) for b in range(n)]
    elif char == 'R_c':
        ret = [unit(m, n, a, b, v) for a in range(m) for b in range(n) for v in (1.0, 1j)]
    elif char in ('R_T', 'C_T'):
        ret = [unit(n, n, a, a) for a in range(n)] + [unit(n, n, a, b) + unit(n, n, b, a) for a in range(n) for b in range(a + 1, n)]
    elif char == 'R_cT':
        ret = [v * x for x in class_units('C_T', n, n) for v in (1.0, 1j)]
    elif char == 'C_H':
        ret = [unit(n, n, a, a) for a in range(n)]
        for a in range(n):
            for b in range(a + 1, n):
                ret.append(unit(n, n, a, b) + unit(n, n, b, a))
                ret.append(unit(n, n, a, b, 1j) + unit(n, n, b, a, -1j))
    else:
        raise ValueError(char)
    return ret


def ambient_dim(char, m, n):
    """the table of DESIGN.md (mn, n(n+1)/2, n^2, n(n+1), 2mn)"""
    return {'R': m * n, 'C': m * n, 'R_c': 2 * m * n, 'R_T': n * (n + 1) // 2, 'C_T': n * (n + 1) // 2, 'R_cT': n * (n + 1),
            'C_H': n * n}[char]


def class_defect(X, char):
    """max deviation of the matrices X (K,m,n) from the defining relations of the class (0 = member)"""
    X = np.asarray(X)
    if X.shape[0] == 0:
        return 0.0
    if char in ('C', 'R_c'):
        return 0.0
    if char == 'R':
        return float(np.abs(X.imag).max())
    if X.shape[1] != X.shape[2]:
        return float('inf')
    if char == 'R_T':
        return float(max(np.abs(X.imag).max(), np.abs(X - X.transpose(0, 2, 1)).max()))
    if char in ('C_T', 'R_cT'):
        return float(np.abs(X - X.transpose(0, 2, 1)).max())
    if char == 'C_H':
        return float(np.abs(X - X.transpose(0, 2, 1).conj()).max())
    raise ValueError(char)


def coords(X, field):
    """(K,m,n) -> (K,ncoord): flattened entries over C; flattened real and imaginary parts over R"""
    X = np.asarray(X, dtype=np.complex128)
    F = X.reshape(X.shape[0], int(np.prod(X.shape[1:])))
    if field == 'real':
        return np.concatenate([F.real, F.imag], axis=1)
    return F


def inner(X, Y, field):
    """Gram block <X_i, Y_j> = Tr(X_i^H Y_j) (real part over R)"""
    return coords(X, field).conj() @ coords(Y, field).T


def ref_singular_values(X, field):
    c = coords(X, field)
    if c.shape[0] == 0:
        return np.zeros(0)
    return np.linalg.svd(c, compute_uv=False)


def unblock(B, m, n):
    """block-real [[re,-im],[im,re]] (K,2m,2n) -> complex (K,m,n), with the maximal violation of the block structure"""
    B = np.asarray(B)
    re, im = B[:, :m, :n], B[:, m:, :n]
    dev = 0.0
    if B.shape[0]:
        dev = float(max(np.abs(B[:, :m, n:] + im).max(), np.abs(B[:, m:, n:] - re).max()))
    return re + 1j * im, dev


# =============================================================================================== alphabets
def atom(rng, gen, m, n):
    """one generic atom of a generator class; the structured ones are *exactly* symmetric / Hermitian"""
    if gen == 'Rgen':
        return rng.normal(size=(m, n))
    if gen == 'Rsym':
        a = rng.normal(size=(n, n))
        return (a + a.T) / 2
    a = rng.normal(size=(m, n)) + 1j * rng.normal(size=(m, n))
    if gen == 'Cgen':
        return a
    if gen == 'Cherm':
        return (a + a.conj().T) / 2
    if gen == 'Csym':
        return (a + a.T) / 2
    raise ValueError(gen)


def lincomb(T, mats):
    """sum_j T[i,j] mats[j] with a fixed summation order (keeps exact symmetry of structured atoms)"""
    ret = []
    for row in T:
        acc = row[0] * mats[0]
        for c, x in zip(row[1:], mats[1:]):
            acc = acc + c * x
        ret.append(acc)
    return ret


def mix_matrix(k):
    """fixed (k+2) x k integer matrix with entries in {-2..2}"""
    return np.array([[((i + 1) * (j + 2) + i * i) % 5 - 2 for j in range(k)] for i in range(k + 2)], dtype=np.float64)


PATTERNS = ('indep', 'dup', 'sum', 'zero', 'mix', 'iscaled')


def apply_pattern(pat, atoms):
    k = len(atoms)
    if pat == 'indep':
        return list(atoms)
    if pat == 'dup':
        return list(atoms) + [atoms[0].copy()]
    if pat == 'sum':
        return list(atoms) + [(atoms[0] + atoms[-1]) if k > 1 else (2 * atoms[0])]
    if pat == 'zero':
        return [np.zeros_like(atoms[0])] + list(atoms)
    if pat == 'mix':
        return lincomb(mix_matrix(k), list(atoms))
    if pat == 'iscaled':
        return list(atoms) + [1j * atoms[0]]
    raise ValueError(pat)


def unit_lists(units):
    """index lists into `units`: all non-empty subsets if there are at most 8 units, else prefixes, suffixes, singletons"""
    L = len(units)
    if L <= 8:
        return [list(s) for r in range(1, L + 1) for s in itertools.combinations(range(L), r)]
    seen, ret = set(), []
    cand = [list(range(k)) for k in range(1, L + 1)] + [list(range(L - k, L)) for k in range(1, L)] + [[i] for i in range(L)]
    for c in cand:
        if tuple(c) not in seen:
            seen.add(tuple(c))
            ret.append(c)
    return ret


def gen_units(gen, field, m, n):
    char = {'Rgen': 'R', 'Rsym': 'R_T', 'Cgen': 'R_c' if field == 'real' else 'C', 'Cherm': 'C_H',
            'Csym': 'R_cT' if field == 'real' else 'C_T'}[gen]
    u = class_units(char, m, n)
    if not IS_COMPLEX_GEN[gen]:
        u = [x.real.copy() for x in u]
    return u


# =============================================================================================== decomp
def tol_decomp(ncoord, scale, eps=EPS):
    return C_SAFETY * eps * ncoord * max(scale, 1e-300)


def check_decomp(numqi, out, gens, field, strict_char, label, cfg, zero_eps=None, variant='', EPS=EPS):
    """one state: call get_matrix_orthogonal_basis and evaluate every clause of oracle 1.
    zero_eps: None = the default call (threshold 1e-10, domain band (SIGMA_LO, SIGMA_HI)); a number = passed as the documented
    option, domain band (zero_eps/10, 10 zero_eps).  variant: suffix of every finding key of this state ('' = double precision
    default call; '/float32', '/int64', '/zero_eps' ...): a defect confined to an option / dtype gets its own key.
    The reference always works on the exact values of the handed array (cast to double / complex double).
    EPS: unit roundoff of the precision the library computes in (= input dtype: float32 / complex64 lists are reduced by a single
    precision SVD, so orthogonality / span residuals are O(n eps32)); the double precision default for every other dtype."""
    fn = numqi.matrix_space.get_matrix_orthogonal_basis
    site = 'decomp/get_matrix_orthogonal_basis'
    N0, m, n = gens.shape
    out.state()
    sv = ref_singular_values(gens, field)
    s_lo, s_hi = (SIGMA_LO, SIGMA_HI) if zero_eps is None else (zero_eps / 10, zero_eps * 10)
    if np.any((sv > s_lo) & (sv < s_hi)) or (zero_eps is not None and len(sv) and 8 * EPS * sv.max() > s_lo):
        # second clause: the SVD error bound p eps sigma_1 (p = 8) of library and reference must stay below the band
        out.count('skipped_ill_conditioned')
        return
    rank = int((sv >= s_hi).sum())
    sigma_disc = float(sv[sv < s_hi].max()) if np.any(sv < s_hi) else 0.0
    det = dict(cfg, generators=gens, field=field, state=label)
    kw = {}
    if zero_eps is not None:
        kw['zero_eps'] = zero_eps
        det['zero_eps'] = zero_eps
    out.trans()
    try:
        res = fn(gens.copy(), field, **kw)
    except AssertionError as e:
        if core.is_precondition_assert(e) and 'not implemented' in str(e):
            out.count('rejected_by_precondition')
            return
        out.violation('%s/AssertionError%s' % (site, variant), 'AssertionError on an admissible generator list (%s): %s' % (label, str(e)[:120]), **det)
        return
    except Exception as e:  # noqa
        cls = 'zero_subspace' if rank == 0 else 'rank>0'
        out.violation('%s/%s/%s%s' % (site, type(e).__name__, cls, variant),
                      '%s for %s generator list %s, field=%s, shape (%d,%d,%d): %s' % (type(e).__name__, cfg['gen'], label, field, N0, m, n, str(e)[:150]), **det)
        return
    if not (isinstance(res, tuple) and len(res) == 3):
        out.violation(site + '/return_type' + variant, 'expected (basis, basis_orth, space_char)', **det)
        return
    basis, compl, char = res
    basis, compl = np.asarray(basis), np.asarray(compl)
    key = '%s/%%s/%s%s' % (site, char if char in FIELD_OF else 'unknown', variant)
    # ---- reported class: documented for this dtype/field, contains the input, narrowest if the list is generic
    allowed = ALLOWED[(bool(np.iscomplexobj(gens)), field)]
    if char not in allowed or class_defect(gens, char) > 0:
        out.violation(site + '/wrong_space_char' + variant, 'space_char %r for a %s list over the %s field (%s): not a documented class containing the input'
                      % (char, cfg['gen'], field, label), got=char, allowed=list(allowed), **det)
        return
    if strict_char is not None and char != strict_char:
        out.violation(site + '/wrong_space_char' + variant, 'space_char %r for a generic %s list over the %s field, documented %r' % (char, cfg['gen'], field, strict_char),
                      got=char, expected=strict_char, **det)
        return
    amb = ambient_dim(char, m, n)
    assert amb == len(class_units(char, m, n))
    # ---- shapes, finiteness, block structure
    shp = (2 * m, 2 * n) if char in BLOCK_REAL else (m, n)
    for nm, x in (('basis', basis), ('complement', compl)):
        if x.ndim != 3 or x.shape[1:] != shp:
            out.violation(key % 'shape', '%s has shape %s, expected (*,%d,%d) for %s' % (nm, x.shape, shp[0], shp[1], char), **det)
            return
        if not np.all(np.isfinite(x)):
            out.violation(key % 'nonfinite', 'NaN/Inf in the %s' % nm, **det)
            return
    ncoord = coords(gens[:1], field).shape[1]
    if char in BLOCK_REAL:
        if np.iscomplexobj(basis) or np.iscomplexobj(compl):
            out.violation(key % 'shape', 'block-real representation expected for %s but the result is complex' % char, **det)
            return
        basis, d1 = unblock(basis, m, n)
        compl, d2 = unblock(compl, m, n)
        if max(d1, d2) > tol_decomp(ncoord, 2.0, EPS):
            out.violation(key % 'block_structure', 'result is not of the form [[re,-im],[im,re]] (deviation %.3g)' % max(d1, d2), **det)
            return
    # ---- rank
    if basis.shape[0] != rank:
        out.violation(key % 'wrong_rank', '%d basis elements for a generator list of rank %d over the %s field (%s, shape %s)'
                      % (basis.shape[0], rank, field, label, (N0, m, n)), got=int(basis.shape[0]), expected=rank, singular_values=sv, **det)
        return
    # ---- basis: one common norm, mutually orthogonal, inside the class
    Gb = inner(basis, basis, field)
    nu2 = float(np.real(np.diag(Gb)).max()) if rank else 1.0
    if rank and not (nu2 > 0):
        out.violation(key % 'norms_differ', 'basis element of zero norm', **det)
        return
    tol = tol_decomp(ncoord, nu2, EPS)
    ok = True
    if rank:
        dg = np.real(np.diag(Gb))
        if dg.max() - dg.min() > tol:
            out.violation(key % 'norms_differ', 'basis elements have different norms: squared norms range %.15g .. %.15g (tol %.2g)' % (dg.min(), dg.max(), tol),
                          squared_norms=dg, **det)
            ok = False
        off = np.abs(Gb - np.diag(np.diag(Gb)))
        if off.max() > tol:
            i, j = [int(v) for v in np.argwhere(off == off.max())[0]]
            out.violation(key % 'not_orthogonal', 'basis elements %d and %d are not orthogonal over the %s field: |<,>|=%.3g > %.2g' % (i, j, field, off.max(), tol),
                          i=i, j=j, value=float(off.max()), **det)
            ok = False
        if class_defect(basis, char) > C_SAFETY * EPS * ncoord * np.sqrt(nu2):
            out.violation(key % 'outside_class', 'a basis element is not in the class %s (defect %.3g)' % (char, class_defect(basis, char)), **det)
            ok = False
    # ---- span(basis) contains every generator (with #basis == rank this is equality of the spans)
    if rank and ok:
        cg, cb = coords(gens, field), coords(basis, field)
        proj = (cg @ cb.conj().T) @ cb / nu2
        res_ = np.linalg.norm(cg - proj, axis=1)
        tol_s = C_SAFETY * EPS * ncoord * float(np.linalg.norm(cg)) + 2 * sigma_disc
        if res_.max() > tol_s:
            i = int(np.argmax(res_))
            out.violation(key % 'span_not_contained', 'generator %d is not in the span of the returned basis over the %s field: residual %.3g > %.2g (%s)'
                          % (i, field, res_.max(), tol_s, label), generator_index=i, residual=float(res_.max()), tol=tol_s, **det)
            ok = False
    # ---- complement: orthogonal to basis, in the class, independent; dimensions add up
    nc = compl.shape[0]
    if nc:
        Gc = inner(compl, compl, field)
        nuc2 = float(np.real(np.diag(Gc)).max())
        if class_defect(compl, char) > C_SAFETY * EPS * ncoord * np.sqrt(max(nuc2, 1e-300)):
            out.violation(key % 'complement_outside_class', 'a complement element is not in the class %s (defect %.3g)' % (char, class_defect(compl, char)), **det)
            ok = False
        if rank:
            cross = np.abs(inner(basis, compl, field))
            tol_c = C_SAFETY * EPS * ncoord * np.sqrt(nu2 * max(nuc2, 1e-300))
            if cross.max() > tol_c:
                i, j = [int(v) for v in np.argwhere(cross == cross.max())[0]]
                out.violation(key % 'complement_not_orthogonal', 'complement element %d is not orthogonal to basis element %d over the %s field: %.3g > %.2g'
                              % (j, i, field, cross.max(), tol_c), i=i, j=j, value=float(cross.max()), **det)
                ok = False
        svc = ref_singular_values(compl, field)
        rank_c = int((svc > 1e-6 * svc.max()).sum()) if svc.max() > 0 else 0
    else:
        rank_c = 0
    if rank_c != nc:
        out.violation(key % 'complement_dependent', 'the %d complement elements span only %d dimensions' % (nc, rank_c), **det)
        ok = False
    if rank + rank_c != amb:
        out.violation(key % 'dims_do_not_add_up', 'dim(basis)=%d + dim(complement)=%d != %d = ambient dimension of %s (%d,%d) (%s)'
                      % (rank, rank_c, amb, char, m, n, label), rank=rank, complement=rank_c, ambient=amb, **det)
        ok = False
    out.outcome(('decomp', char, m, n, rank, nc, round(nu2, 6)), nontrivial=(0 < rank < amb))
    if ok:
        out.trace()


def run_decomp(case, out, env):
    import numqi
    gen, field, m, n, G = case['gen'], case['field'], case['m'], case['n'], case['G']
    cplx = IS_COMPLEX_GEN[gen]
    expected = EXPECT[(gen, field)]
    amb = ambient_dim(expected, m, n)
    cfg = {'gen': gen, 'm': m, 'n': n}
    dt = np.complex128 if cplx else np.float64
    # zero subspace
    for k in (1, 2):
        check_decomp(numqi, out, np.zeros((k, m, n), dtype=dt), field, None, 'zero_x%d' % k, cfg)
    # documented rejection: a real antisymmetric list
    if gen == 'Rgen' and m == n:
        a = np.zeros((1, m, n))
        a[0, 0, 1], a[0, 1, 0] = 1.0, -1.0
        check_decomp(numqi, out, a, field, None, 'antisymmetric', cfg)
    # spans of class units
    units = gen_units(gen, field, m, n)
    for idx in unit_lists(units):
        g = np.stack([units[i] for i in idx]).astype(dt)
        check_decomp(numqi, out, g, field, None, 'units%s' % (idx if len(idx) <= 6 else '[%d..%d](%d)' % (idx[0], idx[-1], len(idx))), cfg)
    # generic atoms x number of independent generators x dependency pattern
    for gset in range(G):
        rng = env.rng('decomp', gen, field, m, n, gset)
        atoms = [atom(rng, gen, m, n) for _ in range(amb)]
        for k in range(1, amb + 1):
            for pat in PATTERNS:
                if pat == 'iscaled' and gen not in ('Cgen', 'Csym'):
                    continue
                g = np.stack(apply_pattern(pat, atoms[:k])).astype(dt)
                check_decomp(numqi, out, g, field, expected, 'atoms(set%d,k=%d,%s)' % (gset, k, pat), cfg)
    # ---- dtype axis (audit gap 1): single precision atoms with EXACT dependencies, integer unit lists
    # atoms on the grid 2^-10 (|entries| < 8, integer combinations with |coefficients| <= 2 of at most 25 atoms: < 2^9 * 2^10 grid
    # points, exact in the 24 bit mantissa of float32), so the cast list has exactly the rank of the double precision list and the
    # reference (exact cast values -> double) needs no single precision tolerance; the result is compared with double tolerances
    # whenever it is returned in double precision and with eps(float32) if the library answers in single precision
    sdt = np.complex64 if cplx else np.float32
    for gset in range(case.get('G32', G)):
        rng = env.rng('decomp', gen, field, m, n, gset)
        atoms = [np.round(np.clip(atom(rng, gen, m, n), -7, 7) * QUANT) / QUANT for _ in range(amb)]
        for k in range(1, amb + 1):
            for pat in DTYPE_PATTERNS:
                g = np.stack(apply_pattern(pat, atoms[:k]))
                g32 = g.astype(sdt)
                assert np.array_equal(g32.astype(dt), g.astype(dt))  # harness premise: the cast is exact
                out.count('decomp_single_precision_states')
                check_decomp(numqi, out, g32, field, expected, 'atoms_q(set%d,k=%d,%s,%s)' % (gset, k, pat, sdt.__name__), cfg, variant='/' + sdt.__name__,
                             EPS=EPS32)
    if not cplx:
        for idx in unit_lists(units):
            g = np.stack([units[i] for i in idx]).astype(np.int64)
            check_decomp(numqi, out, g, field, None, 'units_int64%s' % (idx if len(idx) <= 6 else '[%d..%d](%d)' % (idx[0], idx[-1], len(idx))), cfg,
                         variant='/int64')
        atoms_i = [np.round(3 * x).astype(np.int64) for x in atoms]  # generic integer atoms (last atom set), exact dependencies
        for k in range(1, amb + 1):
            for pat in DTYPE_PATTERNS:
                g = np.stack(apply_pattern(pat, atoms_i[:k])).astype(np.int64)
                check_decomp(numqi, out, g, field, None, 'atoms_int64(k=%d,%s)' % (k, pat), cfg, variant='/int64')
    # ---- zero_eps option (audit gap 2): [a_1..a_k, a_1 + delta E]/8 with E a further generic atom of unit norm; the reference rank
    # uses the same threshold; lists with a singular value within a factor 10 of the threshold are outside the domain
    rng = env.rng('decomp', gen, field, m, n, 'zero_eps')
    atoms = [atom(rng, gen, m, n) / 8 for _ in range(amb)]
    for k in (range(1, amb) if case.get('zero_eps_all_k', True) else sorted({1, 2, amb // 2, amb - 1} & set(range(1, amb)))):
        E = atoms[k] / np.linalg.norm(atoms[k])
        for delta in PERTURB_DECOMP:
            g = np.stack(list(atoms[:k]) + [atoms[0] + delta * E]).astype(dt)
            for z in ZERO_EPS_DECOMP:
                out.count('decomp_zero_eps_states')
                check_decomp(numqi, out, g, field, expected, 'atoms(k=%d,dup+%gE,zero_eps=%g)' % (k, delta, z), cfg, zero_eps=z, variant='/zero_eps')
    out.sample = {'kind': 'decomp', 'gen': gen, 'field': field, 'shape': [m, n], 'expected_space_char': expected, 'ambient': amb,
                  'unit_lists': len(unit_lists(units)), 'patterns': list(PATTERNS), 'atom_sets': G}


# =============================================================================================== certificates
def gauss(rng, shape, cplx):
    x = rng.normal(size=shape)
    if cplx:
        x = x + 1j * rng.normal(size=shape)
    return x


def orthonormalise(gens):
    """rows: orthonormal basis of the span of the (independent) generators, by QR in the order given.
    Returns (basis, conditioning = min|R_ii|/max|R_ii|)"""
    M = gens.reshape(gens.shape[0], -1)
    Q, R = np.linalg.qr(M.T)
    d = np.abs(np.diag(R))
    return Q.T.reshape(gens.shape), float(d.min() / d.max())


def change_of_basis(N, cplx, rng):
    """alphabet of invertible (N,N) matrices acting on the generator list [planted, A_1..A_(N-1)] (before QR)"""
    ret = [('first', np.eye(N))]
    if N >= 2:
        ret.append(('last', np.eye(N)[list(range(1, N)) + [0]]))
        ret.append(('dense', np.ones((N, N)) + N * np.eye(N)))
        ret.append(('atom', gauss(rng, (N, N), cplx)))
    return ret


def handed_bases(gens, cplx, rng, out, rot, reduced=False):
    """every orthonormal basis the change-of-basis alphabet produces for span(gens); gens[0] is the planted element.
    yields (label, family, basis)"""
    N = gens.shape[0]
    Q0 = None
    for lab, M in change_of_basis(N, cplx, rng):
        if reduced and lab in ('last', 'dense'):
            continue
        B, cond = orthonormalise(np.tensordot(M, gens, axes=(1, 0)))
        if cond < 1e-6:
            out.count('skipped_ill_conditioned')
            continue
        if lab == 'first':
            Q0 = B
        yield lab, 'generic_basis', B
    if N >= 2 and Q0 is not None:
        for t in rot:
            B = Q0.copy()
            B[0] = np.cos(t) * Q0[0] + np.sin(t) * Q0[1]
            B[1] = -np.sin(t) * Q0[0] + np.cos(t) * Q0[1]
            yield 'rot(%g,first)' % t, 'near_aligned_basis', B
            yield 'rot(%g,last)' % t, 'near_aligned_basis', B[::-1].copy()


def verify_handed(B, planted):
    """the oracle's own premises: B orthonormal, planted inside span(B)"""
    F = B.reshape(B.shape[0], -1)
    g = np.abs(F.conj() @ F.T - np.eye(len(F))).max()
    p = planted.reshape(-1)
    r = np.linalg.norm(p - (F.conj() @ p) @ F) / np.linalg.norm(p)
    if g > 1e-13 or r > 1e-12:
        raise RuntimeError('harness: handed basis not orthonormal (%.2g) or planted element not contained (%.2g)' % (g, r))


def matrix_rank_exact(P):
    s = np.linalg.svd(P, compute_uv=False)
    return int((s > 1e-12 * s[0]).sum())


def planted_matrices(dA, dB, rk, cplx, G, rng, symmetric=False):
    """alphabet of planted matrices of rank `rk` (1 or 2): all units, structured sums, generic atoms"""
    ret = []
    eA, eB = np.eye(dA), np.eye(dB)
    if symmetric:
        for i in range(dA):
            ret.append(('e%de%d^T' % (i, i), np.outer(eA[i], eA[i])))
        ret.append(('(e0+e1)(e0+e1)^T', np.outer(eA[0] + eA[1], eA[0] + eA[1])))
        ret.append(('1 1^T', np.ones((dA, dA))))
        for g in range(G):
            u = rng.normal(size=dA)
            ret.append(('atom%d' % g, np.outer(u, u)))
        return ret
    if rk == 1:
        for i in range(dA):
            for j in range(dB):
                ret.append(('E%d%d' % (i, j), np.outer(eA[i], eB[j])))
        ret.append(('(e0+e1)(f0+f1)^T', np.outer(eA[0] + eA[1], eB[0] + eB[1])))
        ret.append(('(e0-e_last)1^T', np.outer(eA[0] - eA[-1], np.ones(dB))))
        for g in range(G):
            ret.append(('atom%d' % g, np.outer(gauss(rng, dA, cplx), gauss(rng, dB, cplx))))
    elif rk == 2:
        for i, j in itertools.combinations(range(dA), 2):
            for a, b in itertools.combinations(range(dB), 2):
                ret.append(('E%d%d+E%d%d' % (i, a, j, b), np.outer(eA[i], eB[a]) + np.outer(eA[j], eB[b])))
        ret.append(('E00+E11+E01', np.outer(eA[0], eB[0]) + np.outer(eA[1], eB[1]) + np.outer(eA[0], eB[1])))
        for g in range(G):
            ret.append(('atom%d' % g, gauss(rng, (dA, 2), cplx) @ gauss(rng, (2, dB), cplx)))
    elif 3 <= rk <= min(dA, dB):   # all partial identities with rk units, one structured sum, generic atoms
        for I in itertools.combinations(range(dA), rk):
            for J in itertools.combinations(range(dB), rk):
                ret.append(('+'.join('E%d%d' % (i, a) for i, a in zip(I, J)), sum(np.outer(eA[i], eB[a]) for i, a in zip(I, J))))
        ret.append(('sum_(i<%d)E_ii+E01' % rk, sum(np.outer(eA[i], eB[i]) for i in range(rk)) + np.outer(eA[0], eB[1])))
        for g in range(G):
            ret.append(('atom%d' % g, gauss(rng, (dA, rk), cplx) @ gauss(rng, (rk, dB), cplx)))
    else:
        raise ValueError(rk)
    for lab, P in ret:
        assert matrix_rank_exact(P) == rk, lab
    return ret


def planted_products(dims, cplx, G, rng):
    es = [np.eye(d) for d in dims]
    ret = []
    for idx in itertools.product(*[range(d) for d in dims]):
        ret.append(('e%d%d%d' % idx, [es[0][idx[0]], es[1][idx[1]], es[2][idx[2]]]))
    ret.append(('(1)(1)(1)', [np.ones(d) for d in dims]))
    ret.append(('(e0+e1)(e0)(e0-e_last)', [es[0][0] + es[0][1], es[1][0], es[2][0] - es[2][-1]]))
    for g in range(G):
        ret.append(('atom%d' % g, [gauss(rng, d, cplx) for d in dims]))
    return [(lab, np.einsum('a,b,c->abc', *v)) for lab, v in ret]


def run_certificate(case, out, env):
    """hier / abc / rank1: planted alphabet x change-of-basis alphabet (x entropy streams), plus generic twins"""
    import numqi
    kind = case['kind']
    N, G = case['N'], case['G']
    cplx = case.get('field', 'real') == 'complex'
    dims = tuple(case['dims'])
    rng = env.rng(kind, dims, case.get('r'), N, cplx, case.get('sym', False))
    dt = np.complex128 if cplx else np.float64
    sym = bool(case.get('sym', False))
    reduced = bool(case.get('reduced', False))  # large configuration: generic planted atoms x {first, atom} bases only
    rot = () if reduced else tuple(case['rot'])

    def generic(k):
        x = gauss(rng, (k,) + dims, cplx)
        if sym:
            x = (x + x.transpose(0, 2, 1)) / 2
        return x
    atoms = generic(N - 1)
    twin = generic(1)[0]
    # option zero_eps (default 1e-7 in all three functions). A smaller threshold makes the certificate easier to obtain: soundness is
    # demanded as for the default. A larger one can only withhold it: the planted alphabet is skipped, the twins are recorded and the
    # certificate must be monotone (issued at the larger threshold => issued at the default).
    zeps = case.get('zero_eps')
    zkw = {} if zeps is None else {'zero_eps': zeps}
    z_eff = 1e-7 if zeps is None else zeps
    larger = zeps is not None and zeps > 1e-7
    cfgdet = {k_: v for k_, v in case.items() if k_ not in ('G',)}
    if kind == 'hier':
        r, k = case['r'], case['k']
        site = 'hier/has_rank_hierarchical_method'
        planted = planted_matrices(dims[0], dims[1], r - 1, cplx, G, rng)
        if r == 3:
            planted += [('rank1:' + l, P) for l, P in planted_matrices(dims[0], dims[1], 1, cplx, G, rng)[-(G + 2):]]
        if r >= 4:   # every lower rank: structured sums and generic atoms
            for rk in range(1, r - 1):
                planted += [('rank%d:%s' % (rk, l), P) for l, P in planted_matrices(dims[0], dims[1], rk, cplx, G, rng)[-(G + 2):]]
        streams = [None]
        hfn = numqi.matrix_space.has_rank_hierarchical_method

        def call(B, stream, blab='', zkw=zkw):
            ans = bool(hfn(B, r, hierarchy_k=k, **zkw))
            if blab == 'first':   # argument form: a list of matrices (np.asarray inside) must give the answer of the array
                out.trans()
                a2 = bool(hfn([x.copy() for x in B], r, hierarchy_k=k, **zkw))
                out.check(a2 == ans, site + '/list_input_differs', 'has_rank_hierarchical_method(list of matrices) = %s but %s for the stacked array' % (a2, ans),
                          basis=B, **cfgdet)
            if blab == ('atom' if N >= 2 else 'first'):   # option return_info=True: (same answer, Hermitian PSD matrix whose smallest eigenvalue is tested)
                out.trans()
                ri = hfn(B, r, hierarchy_k=k, return_info=True, **zkw)
                if not (isinstance(ri, tuple) and len(ri) == 2):
                    out.violation(site + '/return_info/return_type', 'return_info=True: expected (answer, matrix)', basis=B, **cfgdet)
                else:
                    M = np.asarray(ri[1])
                    out.check(bool(ri[0]) == ans, site + '/return_info/answer_differs', 'return_info=True answers %s, the plain call %s' % (bool(ri[0]), ans), basis=B, **cfgdet)
                    okM = M.ndim == 2 and M.shape[0] == M.shape[1] and bool(np.all(np.isfinite(M)))
                    if okM:
                        # M = T T^H by one matrix product: Hermitian and PSD up to the rounding of the product, eps * (inner length) * max|M|
                        # (inner length = #antisymmetric coordinates x #symmetric coordinates x #index splittings)
                        n_inner = comb(dims[0], r) * comb(dims[1], r) * (dims[0] * dims[1]) ** (k - 1) * comb(r - 1 + k, r)
                        tolM = C_SAFETY * EPS * max(n_inner, 1) * max(float(np.abs(M).max()), 1e-300)
                        ev = np.linalg.eigvalsh((M + M.conj().T) / 2)
                        okM = float(np.abs(M - M.conj().T).max()) <= tolM and ev[0] >= -tolM and (abs(ev[0] - z_eff) <= tolM or (ev[0] > z_eff) == ans)
                    out.check(okM, site + '/return_info/matrix', 'return_info=True: the matrix is not a finite Hermitian PSD matrix whose smallest eigenvalue '
                              'reproduces the answer', basis=B, matrix=M, answer=ans, **cfgdet)
            return ans
        certificate = True
        what = 'has_rank_hierarchical_method(basis, rank=%d, hierarchy_k=%d) returned True (= every non-zero element has rank >= %d)' % (r, k, r)
    elif kind == 'abc':
        k = case['k']
        site = 'abc/is_ABC_completely_entangled_subspace'
        planted = planted_products(dims, cplx, G, rng)
        if reduced:
            planted = planted[-G:]
        streams = [None]

        def call(B, stream, blab='', zkw=zkw):
            return bool(numqi.matrix_space.is_ABC_completely_entangled_subspace(B, hierarchy_k=k, **zkw))
        certificate = True
        what = 'is_ABC_completely_entangled_subspace(basis, hierarchy_k=%d) returned True (= no product vector in the subspace)' % k
    elif kind == 'rank1':
        site = 'rank1/detect_real_matrix_subspace_rank_one'
        planted = planted_matrices(dims[0], dims[1], 1, False, G, rng, symmetric=sym)
        streams = list(range(case['streams'])) if dims[0] * dims[1] >= 5 else [0]

        def call(B, stream, blab='', zkw=zkw):
            with EntropySeam(stream) as seam:
                ret = numqi.matrix_space.detect_real_matrix_subspace_rank_one(B, **zkw)
            out.count('entropy_draws_answered', len(seam.hits))
            return bool(ret[0]), float(ret[1])
        certificate = False
        what = 'detect_real_matrix_subspace_rank_one(basis) returned tag_rank_one=False (= all non-zero elements have rank >= 2)'
    else:
        raise ValueError(kind)

    def issued(ans):
        a = ans[0] if isinstance(ans, tuple) else ans
        return a == certificate
    n_planted_states = 0
    for plab, P in ([] if larger else planted):
        P = np.asarray(P, dtype=dt)
        gens = np.concatenate([P[None], atoms.astype(dt)], axis=0)
        for blab, family, B in handed_bases(gens, cplx, env.rng(kind, 'basis', dims, N, cplx), out, rot, reduced):
            verify_handed(B, P)
            for stream in streams:
                out.state()
                out.trans()
                n_planted_states += 1
                try:
                    ans = call(B, stream, blab)
                except Exception as e:  # noqa
                    out.violation('%s/%s' % (site, type(e).__name__), '%s on an orthonormal basis (planted %s, basis %s): %s' % (type(e).__name__, plab, blab, str(e)[:150]),
                                  basis=B, planted=P, planted_label=plab, basis_label=blab, **cfgdet)
                    continue
                if issued(ans):
                    extra = (' upper_bound-1=%.3g' % (ans[1] - 1)) if isinstance(ans, tuple) else ''
                    out.violation('%s/false_certificate' % site,
                                  '%s for an orthonormal basis of a %d-dimensional %s subspace of %s tensors that contains the %s element %s '
                                  '(basis choice %s: %s)%s' % (what, N, 'complex' if cplx else 'real', 'x'.join(str(d) for d in dims),
                                                              'rank-%d' % matrix_rank_exact(P) if P.ndim == 2 else 'product', plab, blab, family, extra),
                                  basis=B, planted=P, planted_label=plab, basis_label=blab, basis_family=family, entropy_stream=stream, **cfgdet)
                else:
                    out.trace()
                out.outcome((kind, dims, case.get('r'), N, case.get('k'), cplx, sym, 'planted', blab.split('(')[0], issued(ans)), nontrivial=False)
    # raw generator lists (audit gap 3; rank1 only: the detector orthogonalises internally, docstring 'a series of real matrices'):
    # change of basis {first, atom} (NOT orthonormalised) x dependency pattern x common scale; the planted element stays in the span
    if kind == 'rank1' and case.get('raw') and not larger:
        pl_raw = planted if case['raw'].get('planted') == 'all' else planted[:1] + planted[-(G + 2):]   # quick: first unit, structured, generic atoms
        for which, P0 in [('planted', P_) for P_ in pl_raw] + [('twin', ('generic', twin))]:
            plab, P = P0
            gens = np.concatenate([np.asarray(P, dtype=dt)[None], atoms.astype(dt)], axis=0)
            for clab, M in change_of_basis(N, False, env.rng(kind, 'basis', dims, N, cplx)):
                if clab not in case['raw']['bases']:
                    continue
                base = np.tensordot(M, gens, axes=(1, 0))
                if orthonormalise(base)[1] < 1e-6:
                    out.count('skipped_ill_conditioned')
                    continue
                for pat in case['raw']['patterns']:
                    lst = np.stack(apply_pattern(pat, list(base)))
                    # premise of the oracle: the pattern keeps the whole span (mix_matrix(k) is rank deficient for some k, e.g. k = 5)
                    F = lst.reshape(lst.shape[0], -1)
                    u_, s_, vt_ = np.linalg.svd(F, full_matrices=False)
                    vt_ = vt_[s_ > 1e-9 * s_[0]]
                    pv = np.asarray(P, dtype=dt).reshape(-1)
                    if vt_.shape[0] != N or np.linalg.norm(pv - vt_.T @ (vt_ @ pv)) > 1e-12 * np.linalg.norm(pv):
                        out.count('raw_pattern_loses_span')
                        continue
                    for scale in case['raw']['scales']:
                        raw = scale * lst
                        out.state()
                        out.trans()
                        det = dict(cfgdet, generators=raw, planted=P, planted_label=plab, basis_label=clab, pattern=pat, scale=scale)
                        try:
                            ans = call(raw, 0)
                        except Exception as e:  # noqa
                            out.violation('%s/%s/raw_generators' % (site, type(e).__name__), '%s on a raw generator list (%s, %s, pattern %s, scale %g): %s'
                                          % (type(e).__name__, plab, clab, pat, scale, str(e)[:150]), **det)
                            continue
                        if which == 'twin':
                            out.count('twin_certified_raw' if issued(ans) else 'twin_not_certified_raw')
                            out.outcome((kind, dims, N, sym, 'twin_raw', pat, scale, issued(ans)), nontrivial=issued(ans))
                        elif issued(ans):
                            out.violation('%s/false_certificate/raw_generators' % site,
                                          '%s for the raw (not orthonormalised) generator list of a %d-dimensional real subspace of %s matrices that contains the '
                                          'rank-one element %s (change of basis %s, dependency pattern %s, scale %g) upper_bound-1=%.3g'
                                          % (what, N, 'x'.join(str(d) for d in dims), plab, clab, pat, scale, ans[1] - 1), **det)
                            continue
                        else:
                            out.outcome((kind, dims, N, sym, 'planted_raw', pat, scale, False), nontrivial=False)
                        out.trace()
    # generic twins: same construction without the planted element (recorded only)
    gens = np.concatenate([twin[None].astype(dt), atoms.astype(dt)], axis=0)
    for blab, family, B in handed_bases(gens, cplx, env.rng(kind, 'basis', dims, N, cplx), out, (), reduced):
        if family != 'generic_basis':
            continue
        for stream in streams:
            out.state()
            out.trans()
            try:
                ans = call(B, stream, blab)
                if larger:
                    ans0 = call(B, stream, '', {})
                    out.check(issued(ans0) or not issued(ans), site + '/zero_eps_not_monotone', 'certificate issued with zero_eps=%g but not with the '
                              'smaller default threshold' % zeps, basis=B, **cfgdet)
            except Exception as e:  # noqa
                out.violation('%s/%s' % (site, type(e).__name__), '%s on a generic orthonormal basis: %s' % (type(e).__name__, str(e)[:150]), basis=B, **cfgdet)
                continue
            out.count('twin_certified' if issued(ans) else 'twin_not_certified')
            out.outcome((kind, dims, case.get('r'), N, case.get('k'), cplx, sym, 'twin', issued(ans)), nontrivial=issued(ans))
            out.trace()
    out.sample = dict(cfgdet, planted_alphabet=[l for l, _ in planted][:4] + ['...'], planted_alphabet_size=len(planted),
                      planted_states=n_planted_states, rotation_angles=list(rot))


# =============================================================================================== numerical range
def numrange_alphabet(n, G, rng):
    if n == 1:   # W(A) = {a}: every returned point is the entry itself
        return [('zero', np.zeros((1, 1), dtype=np.complex128)), ('real_scalar', np.array([[2.5]])), ('int_scalar', np.array([[-3]], dtype=np.int64)),
                ('imag_scalar', np.array([[1.5j]]))] + [('atom%d' % g, gauss(rng, (1, 1), True)) for g in range(G)]

    def herm():
        a = gauss(rng, (n, n), True)
        return (a + a.conj().T) / 2
    U = np.linalg.qr(gauss(rng, (n, n), True))[0]
    H = herm()
    ret = [
        ('hermitian', H),
        ('i*hermitian', 1j * H),
        ('normal', U @ np.diag(gauss(rng, n, True)) @ U.conj().T),
        ('unitary', U),
        ('jordan', np.diag(np.ones(n - 1), 1).astype(np.complex128)),
        ('diag_real', np.diag(np.arange(n, dtype=np.float64)).astype(np.complex128)),
        ('diag_roots_of_unity', np.diag(np.exp(2j * np.pi * np.arange(n) / n))),
        ('identity', np.eye(n, dtype=np.complex128)),
        ('zero', np.zeros((n, n), dtype=np.complex128)),
        ('E01', unit(n, n, 0, 1)),
        ('rank_one', np.outer(gauss(rng, n, True), gauss(rng, n, True))),
    ]
    a = rng.normal(size=(n, n))
    ret.append(('real_antisymmetric', a - a.T))
    for g in range(G):
        ret.append(('real_atom%d' % g, rng.normal(size=(n, n))))
    for g in range(G):
        ret.append(('atom%d' % g, gauss(rng, (n, n), True)))
    # integer dtype (drawn last: the atoms above do not depend on this addition)
    ret.append(('int_jordan', np.diag(np.ones(n - 1, dtype=np.int64), 1)))
    ret.append(('int_diag', np.diag(np.arange(n, dtype=np.int64) - 1)))
    for g in range(G):
        ret.append(('int_atom%d' % g, np.round(3 * rng.normal(size=(n, n))).astype(np.int64)))
    return ret


def support_function(A, theta):
    A = np.asarray(A, dtype=np.complex128)
    H = (np.exp(1j * theta) * A + np.exp(-1j * theta) * A.conj().T) / 2
    return float(np.linalg.eigvalsh(H)[-1]), float(np.abs(H).max())


def run_numrange(case, out, env):
    import numqi
    n, G = case['n'], case['G']
    site = 'numrange/get_matrix_numerical_range'
    branch = 'arpack' if n >= 5 else 'dense'   # size class (historical name: n>=5 used ARPACK before the repair; keys kept stable)
    streams = list(range(case['streams'])) if n >= 5 else [0]
    alphabet = numrange_alphabet(n, G, env.rng('numrange', n))
    for lab, A in alphabet:
        normA = float(np.linalg.norm(A, 2))
        tol = C_SAFETY * EPS * n * normA
        scalar = bool(np.abs(A - A[0, 0] * np.eye(n)).max() == 0)
        for npnt_arg in case['num_point']:
            npnt = 100 if npnt_arg is None else npnt_arg   # None: the call without num_point (documented default 100)
            theta = np.linspace(0, 2 * np.pi, npnt)
            sup = [support_function(A, t) for t in theta]
            h = np.array([s[0] for s in sup])
            degenerate = min(s[1] for s in sup) <= 4 * EPS * normA
            for stream in streams:
                out.state()
                out.trans()
                det = dict(n=n, matrix=A, matrix_label=lab, num_point=npnt_arg, entropy_stream=stream)
                try:
                    with EntropySeam(stream) as seam:
                        if npnt_arg is None:
                            p = numqi.matrix_space.get_matrix_numerical_range(A.copy())
                        else:
                            p = numqi.matrix_space.get_matrix_numerical_range(A.copy(), npnt)
                    out.count('entropy_draws_answered', len(seam.hits))
                except Exception as e:  # noqa
                    cls = 'zero_hermitian_part' if degenerate else 'generic'
                    out.violation('%s/%s/%s/%s' % (site, type(e).__name__, branch, cls),
                                  'get_matrix_numerical_range raised %s for the %dx%d matrix %s, num_point=%d (Hermitian part of e^{i theta}A %s at a '
                                  'sampled angle): %s' % (type(e).__name__, n, n, lab, npnt, 'vanishes' if degenerate else 'does not vanish', str(e)[:120]), **det)
                    continue
                p = np.asarray(p)
                if p.shape != (npnt,):
                    out.violation(site + '/shape', 'returned shape %s, documented (%d,)' % (p.shape, npnt), **det)
                    continue
                if not np.all(np.isfinite(p)):
                    out.violation('%s/nonfinite/%s' % (site, branch), 'NaN/Inf among the returned points (matrix %s)' % lab, points=p, **det)
                    continue
                out.trans(npnt)
                got = (np.exp(1j * theta) * p).real
                err = np.abs(got - h)
                ok = True
                if err.max() > tol:
                    j = int(np.argmax(err))
                    out.violation('%s/support_not_attained/%s' % (site, branch),
                                  'point %d of get_matrix_numerical_range(%s %dx%d, num_point=%d): Re(e^{i theta}p)=%.15g but the support function is %.15g '
                                  '(theta=%.6g, |diff|=%.3g > tol %.2g)' % (j, lab, n, n, npnt, got[j], h[j], theta[j], err[j], tol),
                                  point_index=j, theta=float(theta[j]), point=complex(p[j]), support=float(h[j]), tol=tol, **det)
                    ok = False
                # every point lies in every sampled supporting half plane
                inside = (np.exp(1j * theta)[:, None] * p[None, :]).real - h[:, None]
                if ok and inside.max() > tol:
                    i, j = [int(v) for v in np.argwhere(inside == inside.max())[0]]
                    out.violation('%s/outside_numerical_range/%s' % (site, branch),
                                  'point %d lies outside the supporting half plane of direction theta_%d by %.3g' % (j, i, inside.max()),
                                  point_index=j, direction_index=i, point=complex(p[j]), **det)
                    ok = False
                out.outcome(('numrange', n, lab, npnt, np.round(got, 6)), nontrivial=not scalar)
                if ok:
                    out.trace()
    out.sample = {'kind': 'numrange', 'n': n, 'branch': branch, 'alphabet': [l for l, _ in alphabet], 'num_point': case['num_point'],
                  'streams': streams, 'atom0': alphabet[-1][1]}


# =============================================================================================== bipartite numerical range
SQRT_EPS = 1.4901161193847656e-08   # Brent's relative x tolerance inside scipy.optimize.minimize_scalar (and its xtol, 1.48e-8)


def unguarded(fn, *a, **kw):
    """call fn at guard depth 1 (argument-immutability / memory-layout oracles off), for record-only calls of documented-unreliable paths"""
    g = core._GUARDS.get(__name__)
    if g is None:
        return fn(*a, **kw)
    g.depth += 1
    try:
        return fn(*a, **kw)
    finally:
        g.depth -= 1


def partial_transpose_B(M, dA, dB):
    return M.reshape(dA, dB, dA, dB).transpose(0, 3, 2, 1).reshape(dA * dB, dA * dB)


def ref_bipartite(M, dA, dB, kind):
    """own reference for min_p lambda_max(p M + (1-p) M^Gamma) (kind='max') / max_p lambda_min (kind='min'): the function of p is
    convex and, unless M = M^Gamma, coercive; bracket by doubling, then golden section (plain numpy). Returns (value, p*)"""
    D = M - partial_transpose_B(M, dA, dB)
    Mg = M - D
    sgn = 1.0 if kind == 'max' else -1.0

    def f(p):
        return float(np.linalg.eigvalsh(sgn * (Mg + p * D))[-1])
    if np.abs(D).max() == 0:
        return sgn * f(0.0), 0.0
    R = 1.0
    while not (f(-R) > f(-R / 2) and f(R) > f(R / 2)) and R < 1e6:
        R *= 2
    a, b = -R, R
    g = (np.sqrt(5) - 1) / 2
    c, d = b - g * (b - a), a + g * (b - a)
    fc, fd = f(c), f(d)
    for _ in range(120):
        if fc < fd:
            b, d, fd = d, c, fc
            c = b - g * (b - a)
            fc = f(c)
        else:
            a, c, fc = c, d, fd
            d = a + g * (b - a)
            fd = f(d)
    ps = (a + b) / 2
    return sgn * min(fc, fd, f(ps)), ps


def bipartite_alphabet(dA, dB, G, rng):
    """real symmetric (dA dB x dA dB) matrices with a known or independently computable bipartite range.
    (label, matrix, exact (min,max) or None)"""
    def psd(d):
        a = rng.normal(size=(d, d))
        return a @ a.T

    def asym(d):
        a = rng.normal(size=(d, d))
        return a - a.T
    n = dA * dB
    ret = [('zero', np.zeros((n, n)), (0.0, 0.0)), ('identity', np.eye(n), (1.0, 1.0)),
           ('E00', np.diag([1.0] + [0.0] * (n - 1)), (0.0, 1.0)), ('diag', np.diag(np.arange(n, dtype=np.float64) - 1), (-1.0, n - 2.0))]
    for g in range(G):
        A1, A2 = psd(dA), psd(dB)
        e1, e2 = np.linalg.eigvalsh(A1), np.linalg.eigvalsh(A2)
        ret.append(('psd(x)psd%d' % g, np.kron(A1, A2), (e1[0] * e2[0], e1[-1] * e2[-1])))
        ret.append(('psd(x)psd%d-2I' % g, np.kron(A1, A2) - 2 * np.eye(n), (e1[0] * e2[0] - 2, e1[-1] * e2[-1] - 2)))
        ret.append(('antisym(x)antisym%d' % g, np.kron(asym(dA), asym(dB)), (0.0, 0.0)))  # x^T A x = 0: the range is {0}; kink at p = 1/2
        a = rng.normal(size=(n, n))
        ret.append(('atom%d' % g, (a + a.T) / 2, None))
        q = np.linalg.qr(rng.normal(size=(n, max(1, n // 2))))[0]
        ret.append(('projector%d' % g, q @ q.T, None))   # the form detect_real_matrix_subspace_rank_one hands over
    return ret


def run_bipartite(case, out, env):
    """get_real_bipartite_numerical_range(B, kind, method): kind x method x entropy stream over the alphabet.
    Oracle (method='eigen'): value == own convex minimisation; equals the exact range end where it is known; bounds every product
    vector e_i (x) f_j;  min(B) == -max(-B).  method='rotation' is documented as unreliable ('might give wrong results'): recorded."""
    import numqi
    dA, dB, G = case['dims'][0], case['dims'][1], case['G']
    n = dA * dB
    fn = numqi.matrix_space.get_real_bipartite_numerical_range
    site = 'bipartite/get_real_bipartite_numerical_range'
    streams = list(range(case['streams'])) if n >= 5 else [0]
    alphabet = bipartite_alphabet(dA, dB, G, env.rng('bipartite', dA, dB))
    for lab, M, exact in alphabet:
        normM = float(np.linalg.norm(M, 2))
        L = float(np.linalg.norm(M - partial_transpose_B(M, dA, dB), 2))   # Lipschitz constant of p -> lambda(p M + (1-p) M^Gamma)
        diag = np.diag(M)   # values on the product vectors e_i (x) f_j
        got = {}
        for kind in ('min', 'max'):
            ref, pstar = ref_bipartite(M, dA, dB, kind)
            # Brent stops within 3 (sqrt(eps)|p| + xtol/3) of the minimiser; the objective moves by at most L per unit of p; eigenvalues
            # are accurate to n eps ||.||_2 (LAPACK, ARPACK with tol=0) at |p| <= |p*|+1: one-sided, the optimiser can only stay ABOVE
            tol_eig = C_SAFETY * EPS * n * normM * (1 + 2 * abs(pstar))
            tol_opt = 10 * 3 * L * (SQRT_EPS * abs(pstar) + SQRT_EPS)
            for sign in (1, -1):   # B and -B (with the opposite kind)
                k2 = kind if sign == 1 else {'min': 'max', 'max': 'min'}[kind]
                for stream in streams:
                    out.state()
                    out.trans()
                    det = dict(dims=[dA, dB], matrix=M, matrix_label=lab, kind=k2, sign=sign, entropy_stream=stream)
                    if lab == 'zero' and n >= 5 and 'bipartite_zero_matrix' in PENDING:
                        out.count('pending/bipartite_zero_matrix')
                        continue
                    try:
                        with EntropySeam(stream) as seam:
                            v = fn((sign * M).reshape(dA, dB, dA, dB).copy(), kind=k2, method='eigen')
                        out.count('entropy_draws_answered', len(seam.hits))
                    except Exception as e:  # noqa
                        out.violation('%s/%s/%s' % (site, type(e).__name__, 'zero_matrix' if normM == 0 else 'generic'),
                                      '%s for the symmetric %dx%d (x) %dx%d matrix %s, kind=%s: %s' % (type(e).__name__, dA, dA, dB, dB, lab, k2, str(e)[:120]), **det)
                        continue
                    v = sign * float(v)   # estimate of the `kind` end of the range of M
                    if not np.isfinite(v):
                        out.violation(site + '/nonfinite', 'NaN/Inf for matrix %s, kind=%s' % (lab, k2), **det)
                        continue
                    got[(kind, sign, stream)] = v
                    s = 1.0 if kind == 'max' else -1.0
                    over = s * (v - ref)    # >= -tol_eig (cannot beat the true optimum), <= tol_opt + tol_eig
                    ok = True
                    if over < -tol_eig or over > tol_opt + tol_eig:
                        out.violation('%s/value_mismatch/%s' % (site, k2), 'kind=%s of %s%s: %.15g, own convex optimisation gives %.15g (p*=%.6g; allowed '
                                      'excess [%.2g, %.2g])' % (k2, '-' if sign < 0 else '', lab, sign * v, sign * ref, pstar, -tol_eig, tol_opt + tol_eig),
                                      got=sign * v, expected=sign * ref, **det)
                        ok = False
                    if exact is not None:
                        ex = exact[1] if kind == 'max' else exact[0]
                        if abs(v - ex) > tol_opt + tol_eig:
                            out.violation('%s/known_range_end/%s' % (site, k2), 'kind=%s of %s%s: %.15g, exact value %.15g' % (k2, '-' if sign < 0 else '', lab, sign * v, sign * ex),
                                          got=sign * v, expected=sign * ex, **det)
                            ok = False
                    worst = s * (diag.max() if kind == 'max' else diag.min())
                    if s * v < worst - tol_eig:
                        out.violation('%s/not_a_bound/%s' % (site, k2), 'kind=%s of %s%s: %.15g does not bound the value %.15g attained on a product basis vector'
                                      % (k2, '-' if sign < 0 else '', lab, sign * v, sign * s * worst), **det)
                        ok = False
                    out.outcome(('bipartite', dA, dB, lab, kind, round(v, 6)), nontrivial=L > 0)
                    if ok:
                        out.trace()
            # min/max symmetry under B -> -B: same objective up to the sign, both within the optimiser tolerance of the optimum
            for stream in streams:
                a, b = got.get((kind, 1, stream)), got.get((kind, -1, stream))
                if a is not None and b is not None and abs(a - b) > tol_opt + 2 * tol_eig:
                    out.violation('%s/sign_symmetry' % site, '%s(B)=%.15g but -%s(-B)=%.15g for B=%s' % (kind, a, {'min': 'max', 'max': 'min'}[kind], b, lab),
                                  dims=[dA, dB], matrix=M, matrix_label=lab, kind=kind, entropy_stream=stream)
        # method='rotation' (documented: 'might give wrong results, especially when numerical range is not smooth'): recorded only
        # (called as a library-internal call: the layout oracle would demand reproducibility from a method that promises none)
        for kind in ('min', 'max'):
            out.state()
            try:
                with EntropySeam(0), contextlib.redirect_stdout(io.StringIO()):
                    v = float(unguarded(fn, M.reshape(dA, dB, dA, dB).copy(), kind=kind, method='rotation'))
                ref = got.get((kind, 1, 0))
                agree = ref is not None and abs(v - ref) <= 1e-6 * max(normM, 1e-300)
                out.count('rotation_agrees_with_eigen' if agree else 'rotation_differs_from_eigen')
            except Exception:  # noqa  (degenerate numerical range: bracketing assert / root finder / ARPACK)
                out.count('rotation_raised_on_nonsmooth_range')
    out.sample = {'kind': 'bipartite', 'dims': [dA, dB], 'alphabet': [l for l, _, _ in alphabet], 'streams': streams}


# =============================================================================================== cases
DECOMP_COMBOS = [('Rgen', 'real'), ('Rsym', 'real'), ('Rgen', 'complex'), ('Rsym', 'complex'), ('Cgen', 'complex'), ('Cherm', 'real'),
                 ('Csym', 'complex'), ('Csym', 'real'), ('Cgen', 'real'), ('Cherm', 'complex')]


def build_cases(tier, seed):
    quick = tier == 'quick'
    G = 2 if quick else 4
    rot = list(T_ROT[tier])
    dmax = 4 if quick else 5
    cases = []
    # ---- decomp
    for gen, field in DECOMP_COMBOS:
        if gen in SQUARE_ONLY:
            shapes = [(d, d) for d in range(2, dmax + 1)]
        else:
            shapes = sorted([(a, b) for a in range(2, dmax + 1) for b in range(2, dmax + 1)], key=lambda s: (s[0] * s[1], s))
        for m, n in shapes:
            cases.append({'kind': 'decomp', 'gen': gen, 'field': field, 'm': m, 'n': n, 'G': G, 'G32': 1 if quick else G, 'zero_eps_all_k': not quick})
    cases.sort(key=lambda c: c['m'] * c['n'])
    # ---- numrange
    num_point = [1, 2, 3, 5, 8, 13] if quick else [1, 2, 3, 4, 5, 8, 13, 32, 100]
    for n in range(1, 9):
        default_too = [None] if n in ((3,) if quick else (1, 3, 6)) else []   # None = call without num_point (default 100)
        cases.append({'kind': 'numrange', 'n': n, 'G': G, 'num_point': num_point + default_too, 'streams': 2 if quick else 4})
    # ---- bipartite numerical range (options kind x method)
    for dA, dB in ([(2, 2), (2, 3), (3, 2), (3, 3)] if quick else [(2, 2), (2, 3), (3, 2), (3, 3), (2, 4), (3, 4), (4, 4)]):
        cases.append({'kind': 'bipartite', 'dims': [dA, dB], 'G': G, 'streams': 2 if quick else 3})
    # ---- rank1 (real)
    shapes1 = [(2, 2), (2, 3), (3, 3), (3, 4)] if quick else [(2, 2), (2, 3), (2, 4), (3, 3), (3, 4), (4, 4)]
    for dA, dB in shapes1:
        nmax = (dA - 1) * (dB - 1) + 1
        if quick and dA * dB > 9:
            nmax = 3
        for N in range(1, nmax + 1):
            raw = None
            if quick and N <= 2 and dA * dB <= 9:
                raw = {'patterns': list(RAW_PATTERNS), 'scales': list(RAW_SCALES), 'bases': ['atom' if N >= 2 else 'first'], 'planted': 'subset'}
            elif not quick:
                raw = {'patterns': list(RAW_PATTERNS), 'scales': list(RAW_SCALES), 'bases': ['first', 'atom'], 'planted': 'all'}
            cases.append({'kind': 'rank1', 'dims': [dA, dB], 'N': N, 'G': G, 'streams': 2 if quick else 3, 'sym': False, 'rot': rot, 'raw': raw})
            if dA == dB and N <= dA * (dA - 1) // 2 + 1:
                cases.append({'kind': 'rank1', 'dims': [dA, dB], 'N': N, 'G': G, 'streams': 2 if quick else 3, 'sym': True, 'rot': rot, 'raw': raw})
    # zero_eps option of the detector (smaller: soundness; larger: twins + monotonicity)
    for dA, dB in ([(2, 2), (2, 3)] if quick else shapes1):
        for N in range(1, 3 if quick else 4):
            if N > (dA - 1) * (dB - 1) + 1:
                continue
            for z in ZERO_EPS_CERT:
                cases.append({'kind': 'rank1', 'dims': [dA, dB], 'N': N, 'G': G, 'streams': 1 if quick else 2, 'sym': False, 'rot': rot[:1] if quick else rot,
                              'zero_eps': z})
    # ---- abc
    if quick:
        abc_cfg = [((2, 2, 2), range(1, 6), (1, 2)), ((2, 2, 2), range(1, 4), (3,)), ((2, 2, 3), range(1, 5), (1, 2))]
    else:
        abc_cfg = [((2, 2, 2), range(1, 6), (1, 2, 3)), ((2, 2, 3), range(1, 8), (1, 2)), ((2, 2, 3), range(1, 6), (3,)),
                   ((2, 3, 3), range(1, 5), (1, 2))]
    # permuted / unequal dimension triples (audit gap 5): the planted product vector lives in the permuted order
    if quick:
        abc_cfg += [((3, 2, 2), range(1, 4), (1, 2)), ((2, 3, 2), range(1, 4), (1,)), ((2, 3, 4), range(1, 3), (1,))]
    else:
        abc_cfg += [((3, 2, 2), range(1, 6), (1, 2)), ((2, 3, 2), range(1, 6), (1, 2)), ((3, 2, 2), range(1, 4), (3,)), ((2, 3, 4), range(1, 5), (1, 2)),
                    ((4, 3, 2), range(1, 4), (1, 2)), ((3, 3, 2), range(1, 4), (1, 2))]
    for dims, Ns, ks in abc_cfg:
        for N in Ns:
            for k in ks:
                for field in ('real', 'complex'):
                    cases.append({'kind': 'abc', 'dims': list(dims), 'N': N, 'k': k, 'field': field, 'G': G, 'rot': rot})
    for dims, Ns, ks in ([((2, 2, 2), range(1, 4), (1,))] if quick else [((2, 2, 2), range(1, 5), (1, 2)), ((2, 2, 3), range(1, 4), (1,))]):
        for N in Ns:
            for k in ks:
                for field in ('real', 'complex'):
                    for z in ZERO_EPS_CERT:
                        cases.append({'kind': 'abc', 'dims': list(dims), 'N': N, 'k': k, 'field': field, 'G': G, 'rot': rot[:1] if quick else rot, 'zero_eps': z})
    if not quick:
        # one large configuration with a reduced alphabet (generic planted atoms x {planted first, generic invertible} bases)
        cases.append({'kind': 'abc', 'dims': [2, 3, 3], 'N': 11, 'k': 3, 'field': 'real', 'G': G, 'rot': [], 'reduced': True})
    # ---- hier
    if quick:
        hier_cfg = [((3, 3), 2, range(1, 5), (1, 2, 3)), ((3, 3), 3, range(1, 3), (1, 2, 3)), ((3, 4), 2, range(1, 5), (1, 2)),
                    ((4, 4), 2, range(1, 4), (1, 2)), ((4, 4), 3, range(1, 4), (1, 2))]
    else:
        hier_cfg = [((3, 3), 2, range(1, 6), (1, 2, 3)), ((3, 3), 3, range(1, 3), (1, 2, 3)), ((3, 4), 2, range(1, 7), (1, 2)),
                    ((3, 4), 2, range(1, 5), (3,)), ((3, 4), 3, range(1, 4), (1, 2)), ((4, 4), 2, range(1, 7), (1, 2)), ((4, 4), 2, range(1, 5), (3,)),
                    ((4, 4), 3, range(1, 5), (1, 2)), ((4, 4), 3, range(1, 4), (3,))]
    # audit gap 4: dA = 2 (one-dimensional antisymmetric space), full rank bound r = dA = dB, non-square 4x5; level 1
    hier_cfg += [((2, 3), 2, range(1, 3), (1,)), ((2, 4), 2, range(1, 4), (1,)), ((4, 4), 4, range(1, 3), (1,)), ((4, 5), 2, range(1, 5 if quick else 8), (1,))]
    if not quick:
        hier_cfg += [((2, 3), 2, range(1, 3), (2, 3)), ((2, 4), 2, range(1, 4), (2,)), ((4, 4), 4, range(1, 3), (2,)), ((4, 5), 2, range(1, 4), (2,)),
                     ((4, 5), 3, range(1, 4), (1,))]
    for (dA, dB), r, Ns, ks in ([((3, 3), 2, range(1, 3), (1, 2))] if quick else [((3, 3), 2, range(1, 4), (1, 2, 3)), ((3, 4), 2, range(1, 4), (1, 2)),
                                                                                 ((4, 4), 3, range(1, 3), (1,))]):
        for N in Ns:
            for k in ks:
                for field in ('real', 'complex'):
                    for z in ZERO_EPS_CERT:
                        cases.append({'kind': 'hier', 'dims': [dA, dB], 'r': r, 'N': N, 'k': k, 'field': field, 'G': G, 'rot': rot[:1] if quick else rot, 'zero_eps': z})
    for (dA, dB), r, Ns, ks in hier_cfg:
        for N in Ns:
            for k in ks:
                for field in ('real', 'complex'):
                    cases.append({'kind': 'hier', 'dims': [dA, dB], 'r': r, 'N': N, 'k': k, 'field': field, 'G': G, 'rot': rot})
    info = {
        'decomp': {'combos': ['%s/%s->%s' % (g, f, EXPECT[(g, f)]) for g, f in DECOMP_COMBOS], 'dims': [2, dmax], 'atom_sets': G,
                   'patterns': list(PATTERNS), 'generators': '1..ambient independent atoms (+ up to 2 dependent ones), unit lists, zero lists'},
        'hier': [{'shape': list(s), 'rank_bound': r, 'N': [min(Ns), max(Ns)], 'levels': list(ks)} for s, r, Ns, ks in hier_cfg],
        'abc': [{'dims': list(d), 'N': [min(Ns), max(Ns)], 'levels': list(ks)} for d, Ns, ks in abc_cfg],
        'rank1': {'shapes': [list(s) for s in shapes1], 'N': '1..(dA-1)(dB-1)+1 (quick: 1..3 for shapes with more than 9 entries)',
                  'symmetric_variant': 'square shapes'},
        'change_of_basis_alphabet': ['first', 'last', 'dense', 'atom'] + ['rot(%g,first|last)' % t for t in rot],
        'numrange': {'n': [1, 8], 'num_point': num_point, 'default_num_point_at_n': [3] if quick else [1, 3, 6], 'dtypes': ['complex128', 'float64', 'int64'], 'entropy_streams': 2 if quick else 4},
        'generic_atoms_per_alphabet': G,
        'decomp_dtype_axis': {'dtypes': ['float32/complex64 (grid 2^-10)', 'int64'], 'patterns': list(DTYPE_PATTERNS), 'atom_sets': 1 if quick else G},
        'decomp_zero_eps': {'zero_eps': list(ZERO_EPS_DECOMP), 'perturbation': list(PERTURB_DECOMP), 'k': '{1,2,amb/2,amb-1}' if quick else '1..amb-1'},
        'certificate_zero_eps': list(ZERO_EPS_CERT), 'rank1_raw': {'patterns': list(RAW_PATTERNS), 'scales': list(RAW_SCALES)},
        'bipartite': {'shapes': 'quick (2,2),(2,3),(3,2),(3,3); thorough + (2,4),(3,4),(4,4)', 'kinds': ['min', 'max'], 'methods': ['eigen (oracle)', 'rotation (recorded)']},
        'pending': sorted(PENDING),
        'exhaustive': True,
        'note': 'exhaustive within the stated bounds: every element of every listed product is executed; real-valued inputs off the '
                'alphabets (other atoms, other rotation angles) are not covered',
    }
    return cases, info


def run_case(case, out, env):
    kind = case['kind']
    if kind == 'decomp':
        run_decomp(case, out, env)
    elif kind in ('hier', 'abc', 'rank1'):
        run_certificate(case, out, env)
    elif kind == 'numrange':
        run_numrange(case, out, env)
    elif kind == 'bipartite':
        run_bipartite(case, out, env)
    else:
        raise ValueError(kind)
