"""C04 - hand-written backward passes return the true gradient.

Spaces (DESIGN.md section 4, C04):
  prog    : mode H-stateless over Circuit programs. Every history up to the depth bound over the event alphabet
            {rx ry rz u3 rzz (trainable | placeholder circ.P[..] | placeholder re-using the previous placeholder's parameter |
            non-trainable), crx cry crz cu3 (trainable | non-trainable; one and two controls), H, cnot, generic 2-qubit unitary,
            toffoli, controlled generic 1-qubit unitary, the shipped custom gates GroverOracle / FractionalGroverOracle (own
            grad_backward; trainable | non-trainable), append_gate of the gate object created at step i on the same / rotated /
            reversed wiring (= shared parameter)} x ALL wirings on nq qubits (targets in both orders, controls above and below).
            Each history is built on a fresh Circuit + CircuitTorchWrapper inside a small torch model; for every parameter
            point of {generic, (0..0), (pi/2..pi/2)} and every initial-state mode {|0..0> fixed, generic fixed state, generic *trainable* state}:
              - hf_model_wrapper(model)(theta) -> (fval, grad) for two losses (<psi|O|psi>, |<phi|psi>|^2; the second call
                runs with the stale .grad of the first),
              - depth 1: the FULL Jacobian d psi / d theta through loss.backward() for the complete real cotangent basis
                {Re psi_i, Im psi_i} (the backward is linear in the cotangent: mode B),
            compared with a dense forward-mode reference (kron embeddings, analytic gate derivatives), guarded by central finite
            differences of the model's own forward.
  psd     : PSDMatrixSqrtm, _PSDMatrixSqrtmRepeat(s=1,2,3), PSDMatrixLogm(num_sqrtm, pade_order): FULL Jacobian (complete basis
            of Hermitian / real-symmetric tangent directions x complete real cotangent basis, cross-batch blocks included) on a
            PSD alphabet {generic, 2 / 3 / all eigenvalues equal, gap 1e-6, scaled 1e3 / 1e-3, diagonal} x d in 2..4 x
            {complex Hermitian, real symmetric} x batch shapes; rank-deficient inputs are outside the domain of the derivative
            (counted, only observed). Reference: Sylvester equations solved as Kronecker systems + explicit differential of the
            Gauss-Legendre Pade sum; guard: central finite differences of the implementation's forward.
  entropy : numqi.utils.get_von_neumann_entropy / get_relative_entropy on torch inputs with the ('pade',s,m) logarithm.
  kl      : knill_laflamme_inner_product: FULL Jacobian w.r.t. Re/Im of the code words for every operator sequence of length
            1..2 (generic non-Hermitian 1- and 2-qubit operators, every ordered wiring) x logical dimension 1,2,4 x n=2,3.
  bridge  : hf_model_wrapper / set_model_flat_parameter / get_model_flat_parameter on every registration order x frozen subset
            x stale-grad state x custom grad_backward of a 3-tensor model with an exactly known polynomial loss.
  model   : losses of to_stiefel_polar, VarQEC, VarQECUnitary, EntanglementFormationModel, ConcurrenceModel,
            DensityMatrixGMEModel, QueryGroverQuantumModel (thorough: + AutodiffCHAREE, PureBosonicExt, VarQEC with 3 code words,
            the Stiefel('polar') module) at lattice points; oracle = 4th-order (Richardson) central differences of the model's own forward.

Coordinates added after the coverage audit (all enumerated, none sampled):
  prog    : second alphabet 'ext' (3 and 4 qubits): controlled_double_qubit_gate, triple_qubit_gate, a user ParameterGate('control', rzz) on
            two targets, positional placeholders circ.P[k], leaf placeholders circ.P['name'], requires_grad left to default_requires_grad,
            requires_grad_(False) after creation, name= ; on 4 qubits the control sets behind every reduce_shape_index pattern.
            At the generic point additionally (configurations flagged 'extras'):
              - memory form of the cotangent: loss = Re(c_eff . psi) written as sum(psi.conj()*c) (conjugate bit), vdot, flip, strided
                slice, transposed view, expanded sum,
              - interleaving: forward(theta); {torch.no_grad forward of the same wrapper at theta+1 | forward of a SECOND wrapper built on
                the same Circuit at theta+1}; backward of the first -> gradient at theta,
              - tensor kind of the initial state (a differentiable input): complex128 non-contiguous view, real float64 leaf, complex64 leaf,
                lazily conjugated view: parameter gradient and the gradient delivered to the initial state against the reference.
  psd     : d = 1; a tiny eigenvalue 1e-8 / 1e-12 (positive definite: inside the domain; decided only while c*eps*kappa < 0.1) and a
            tiny eigenvalue next to an exact zero (outside, observed); float32 / complex64 inputs (eps(float32) tolerances); the output
            transposed / permuted (matrix axes first, batch axes swapped, batch and matrix axes mixed) / sliced / conjugated / summed
            before a generic linear loss: gradient == the same contraction of the basis Jacobian.
  kl      : the empty operator sequence and sequences of length 3; conjugated / transposed / flipped / expanded cotangent.
  bridge  : x parameter dtype {float64, float32} x {every trainable parameter used, one trainable parameter the loss does not use
            (its gradient entry is 0)}; get_model_flat_grad == the gradient hf returned.
PENDING: oracles that fire on the pinned tree (reported; the guarded addition is skipped and counted as pending/<flag>).
"""
import itertools

import numpy as np

from mc import core, ref
from checks import c03_simgate as c03

PROPERTY = 'C04'
LEVEL = 'model_checking'
RULE = ('prog: every history up to the depth bound over the stated gate/provenance/wiring alphabet on a fresh Circuit, x parameter '
        'points {generic, 0, pi/2} x initial-state modes; state = one (history, init mode, point); transition = one gradient delivered '
        'by the implementation (hf_model_wrapper call or one backward of the cotangent basis) compared with the dense forward-mode '
        'reference; trace = one history on which forward value, every gradient and the finite-difference guard were compared. '
        'psd/kl: state = one (function, input, batch shape), transition = one backward call of the complete cotangent basis. '
        'bridge: state = one (registration order, frozen subset, stale flag, custom flag, parameter dtype, unused-parameter flag). model: state = one '
        '(model configuration, lattice point). non-trivial = the observed gradient is not identically zero. Added coordinates (module docstring): '
        'second program alphabet (new gate kinds, placeholder forms, requires_grad provenances, 4 qubits); at the generic point the memory form of '
        'the cotangent {conj, vdot, flip, slice, transposed, expanded}, forward/backward interleaved with another forward {no_grad, second wrapper}, '
        'the tensor kind of the initial state {complex128 view, float64, complex64, conjugated view}; psd: d=1, tiny eigenvalues, float32 inputs, '
        'permuted / sliced / conjugated outputs; kl: sequences of length 0 and 3, cotangent forms; oracles guarded by PENDING are counted, not run')
ASSUMPTIONS = [
    'the initial state handed to CircuitTorchWrapper is a complex tensor (a real-dtype tensor that requires grad is outside the domain: ruled, DESIGN 9.5)',
    'kron + explicit axis permutation embedding (mc.ref.embed / controlled), qubit 0 most significant; gate formulas as documented (validated by C03 gatedef)',
    'analytic derivatives of the reference gate matrices are self-tested against finite differences of the reference matrices in prepare()',
    'the backward of a custom autograd Function is linear in the incoming cotangent (composition of einsum/matmul/slicing); at depth>=2 two generic cotangents stand for the basis',
    'Hermitian (real symmetric) inputs of the PSD functions are perturbed along Hermitian (symmetric) directions only: eigh reads one triangle, so the unconstrained derivative is not defined by the forward',
    'rank-deficient PSD inputs are outside the domain of the derivative (sqrt is not differentiable at 0)',
    'cotangent forms (psd, kl): the basis Jacobian delivered by the implementation (itself compared with the reference) contracted with the generic cotangent is the oracle for the permuted / conjugated loss',
    'interleaving: parameters are restored to theta before the first backward runs (torch saved tensors alias the parameters); only the state numqi keeps outside the autograd graph is under test',
    'float32 / complex64 inputs: eps(float32) replaces eps(float64) in the derived tolerance; where c*eps*kappa >= 0.1 only finiteness is decided (counted skipped_ill_conditioned)',
    'relative-entropy models need a full-rank model state (configurations chosen accordingly)',
    'model losses: the Richardson-extrapolated central difference of the float64 forward is the oracle; lattice points at kinks of max(.,eps) / abs are excluded by construction (generic points)',
]
CHUNK = 1

EPS = np.finfo(np.float64).eps
C_SAFE = 1e3
H_FD = 1e-4
H_RICH = 4e-3


class OracleDisagreement(Exception):
    """reference derivative and finite differences of a forward that agrees with the reference forward disagree: harness bug"""


# ------------------------------------------------------------------------------------------------ atoms
_ATOMS = {}


def _separated(rng, size, lo, hi, gap):
    while True:
        x = rng.uniform(lo, hi, size=size)
        y = np.sort(x)
        if np.min(np.diff(y)) > gap:
            return x


def atoms(env):
    key = env.seed
    if key not in _ATOMS:
        rng = env.rng('C04', 'atoms')
        A = {}
        A['U1'] = ref.haar_unitary(rng, 2)
        A['V1'] = ref.haar_unitary(rng, 2)
        A['U2'] = ref.haar_unitary(rng, 4)
        A['M1'] = rng.normal(size=(2, 2)) + 1j * rng.normal(size=(2, 2))
        A['N1'] = rng.normal(size=(2, 2)) + 1j * rng.normal(size=(2, 2))
        A['M2'] = rng.normal(size=(4, 4)) + 1j * rng.normal(size=(4, 4))
        # parameter tags: pairwise separated so that a flat parameter vector can be matched to the reference parameters by value
        tags = _separated(rng, 40, 0.3, 2 * np.pi - 0.3, 1e-3)
        A['theta'] = tags[:24]
        A['const'] = tags[24:]
        for n in (1, 2, 3, 4):
            D = 2**n
            A['psi%d' % n] = ref.rand_state(rng, D)
            A['phi%d' % n] = ref.rand_state(rng, D)
            tmp = rng.normal(size=(D, D)) + 1j * rng.normal(size=(D, D))
            A['O%d' % n] = (tmp + tmp.conj().T) / 2
            while True:
                q = rng.normal(size=(2, D))
                allv = np.sort(np.concatenate([q.reshape(-1), tags]))
                if np.min(np.diff(allv)) > 1e-6:
                    break
            A['q0p%d' % n] = q
        for d in (2, 3, 4):
            A['Uc%d' % d] = ref.haar_unitary(rng, d)
            A['Ur%d' % d] = np.linalg.qr(rng.normal(size=(d, d)))[0]
            A['Wc%d' % d] = ref.haar_unitary(rng, d)
            A['Wr%d' % d] = np.linalg.qr(rng.normal(size=(d, d)))[0]
            A['spec%d' % d] = np.sort(_separated(rng, d, 0.3, 2.0, 0.15))
            tmp = rng.normal(size=(d, d)) + 1j * rng.normal(size=(d, d))
            A['rho%d' % d] = ref.rand_dm(rng, d)
        A['g'] = rng.normal(size=400)   # generic directions for model lattice points
        A['g2'] = rng.normal(size=400)
        # (drawn after every older atom so that the older atoms keep their values) generic complex cotangents, 3-qubit unitary
        for n in (1, 2, 3, 4):
            A['c%d' % n] = rng.normal(size=2**n) + 1j * rng.normal(size=2**n)
        A['U3'] = ref.haar_unitary(rng, 8)
        A['spec1'] = rng.uniform(0.3, 2.0, size=1)
        _ATOMS.clear()
        _ATOMS[key] = A
    return _ATOMS[key]


# ------------------------------------------------------------------------------------------------ reference gates with derivatives
ZZ = np.kron(ref.Z, ref.Z)
XZ = np.kron(ref.X, ref.Z)


def hf_rxz(theta):
    """harness-defined matrix function for a user ParameterGate: exp(-i theta X(x)Z / 2), numpy / torch, batched like numqi.gate.rzz"""
    try:
        import torch
        is_t = isinstance(theta, torch.Tensor)
    except Exception:
        is_t = False
    if is_t:
        P = torch.tensor(XZ, dtype=torch.complex128)
        ca = torch.cos(theta / 2).reshape(*theta.shape, 1, 1)
        sa = torch.sin(theta / 2).reshape(*theta.shape, 1, 1)
        return ca * torch.eye(4, dtype=torch.complex128) - 1j * sa * P
    theta = np.asarray(theta, dtype=np.float64)
    ca = np.cos(theta / 2).reshape(*theta.shape, 1, 1)
    sa = np.sin(theta / 2).reshape(*theta.shape, 1, 1)
    return ca * np.eye(4) - 1j * sa * XZ


def _rot(P, t):
    return np.cos(t / 2) * np.eye(len(P)) - 1j * np.sin(t / 2) * P


def _drot(P, t):
    return -0.5 * np.sin(t / 2) * np.eye(len(P)) - 0.5j * np.cos(t / 2) * P


def _u3(a):
    t, p, l = a
    ct, st = np.cos(t / 2), np.sin(t / 2)
    return np.array([[ct, -st * np.exp(1j * l)], [st * np.exp(1j * p), ct * np.exp(1j * (p + l))]])


def _du3(a):
    t, p, l = a
    ct, st = np.cos(t / 2), np.sin(t / 2)
    el, ep, epl = np.exp(1j * l), np.exp(1j * p), np.exp(1j * (p + l))
    return [np.array([[-st / 2, -ct / 2 * el], [ct / 2 * ep, -st / 2 * epl]]),
            np.array([[0, 0], [1j * st * ep, 1j * ct * epl]]),
            np.array([[0, -1j * st * el], [0, 1j * ct * epl]])]


def _grover(a):
    ph = np.exp(-1j * np.pi * a[0])
    return np.diag([ph, 1, 1, ph])


def _dgrover(a):
    ph = np.exp(-1j * np.pi * a[0])
    return [np.diag([-1j * np.pi * ph, 0, 0, -1j * np.pi * ph])]


# family -> (number of parameters, matrix(args), [d matrix / d arg_k]); every entry is a trigonometric polynomial of frequency <= 1 in each
# argument (pi for the oracle phase exp(-i pi theta))
FAMILY = {
    'rx': (1, lambda a: _rot(ref.X, a[0]), lambda a: [_drot(ref.X, a[0])]),
    'ry': (1, lambda a: _rot(ref.Y, a[0]), lambda a: [_drot(ref.Y, a[0])]),
    'rz': (1, lambda a: _rot(ref.Z, a[0]), lambda a: [_drot(ref.Z, a[0])]),
    'rzz': (1, lambda a: _rot(ZZ, a[0]), lambda a: [_drot(ZZ, a[0])]),
    'rxz': (1, lambda a: _rot(XZ, a[0]), lambda a: [_drot(XZ, a[0])]),  # user gate exp(-i t X(x)Z / 2): NOT symmetric under exchange of its two qubits
    'u3': (3, _u3, _du3),
    'grover': (1, _grover, _dgrover),
}
CFAM = {'crx': 'rx', 'cry': 'ry', 'crz': 'rz', 'cu3': 'u3'}
GROVER0 = np.diag([-1.0, 1, 1, -1]).astype(np.complex128)


def selftest_reference():
    """harness self-test: reference matrices == C03's documented formulas; analytic derivative == central differences"""
    pts = [np.array([0.0, 0.0, 0.0]), np.array([0.7, 1.9, -0.4]), np.array([np.pi / 2] * 3)]
    for a in pts:
        assert np.abs(FAMILY['rx'][1](a) - c03.ref_rx(a[0])).max() < 1e-14
        assert np.abs(FAMILY['ry'][1](a) - c03.ref_ry(a[0])).max() < 1e-14
        assert np.abs(FAMILY['rz'][1](a) - c03.ref_rz(a[0])).max() < 1e-14
        assert np.abs(FAMILY['rzz'][1](a) - c03.ref_rzz(a[0])).max() < 1e-14
        assert np.abs(FAMILY['u3'][1](a) - c03.ref_u3(*a)).max() < 1e-14
        for name, (npar, fM, fD) in FAMILY.items():
            dM = fD(a[:npar])
            for k in range(npar):
                h = 1e-5
                ap, am = a[:npar].copy(), a[:npar].copy()
                ap[k] += h
                am[k] -= h
                fd = (fM(ap) - fM(am)) / (2 * h)
                assert np.abs(fd - dM[k]).max() < 1e-8, (name, k)


# ------------------------------------------------------------------------------------------------ program alphabet
def _cwires(nq):
    Q = range(nq)
    ret = [((a,), b) for a, b in itertools.permutations(Q, 2)]
    if nq >= 3:
        for t in Q:
            rest = [q for q in Q if q != t]
            ret += [(tuple(c), t) for c in itertools.combinations(rest, 2)]
    return ret


def event_list(nq, level):
    """event alphabet on nq qubits; level 'full' | 'medium' | 'reduced' | 'tiny' (2-qubit, for depth 3 in the quick tier).
    medium = full without crz/cry/rz (same code path as crx/rx/ry, other name group) ; reduced = one or two wirings per category"""
    Q = list(range(nq))
    pairs = list(itertools.permutations(Q, 2))
    ev = []
    if level == 'reduced':
        ev += [('P1', 'rx', q, 'T') for q in Q] + [('P1', 'ry', Q[-1], 'T'), ('P1', 'rx', 0, 'H'), ('P1', 'ry', Q[-1], 'H'), ('P1', 'rx', 1, 'Hs'), ('P1', 'ry', 0, 'N')]
        ev += [('u3', 0, 'T'), ('u3', Q[-1], 'H')]
        ev += [('rzz', Q[-1], 0, 'T'), ('rzz', 0, 1, 'H')]
        ev += [('uxz', 0, 1, 'T'), ('uxz', Q[-1], 0, 'T')] + ([('cxz', (1,), (2, 0), 'T'), ('cxz', (2,), (0, 1), 'T')] if nq >= 3 else [])
        ev += [('CP', 'crx', (0,), 1, 'T'), ('CP', 'crx', (Q[-1],), 0, 'T'), ('CP', 'cry', (1,), 0, 'N')]
        ev += [('cu3', (1,), 0, 'T')]
        if nq >= 3:
            ev += [('CP', 'crx', (0, 2), 1, 'T'), ('cu3', (1, 2), 0, 'T'), ('toffoli', (0, 1), 2)]
        ev += [('U1', 'H', 1), ('C1', 'cnot', 0, 1), ('C1', 'cnot', Q[-1], 0), ('double', 1, 0), ('csingle', (Q[-1],), 0)]
        ev += [('grover', 'T')]
        ev += [('append', 0, 0), ('append', 0, 1), ('append', 1, 2)]
        return ev
    if level == 'ext':
        return ext_event_list(nq)
    if level == 'ext_s':   # one representative per new provenance / gate kind, for depth 2 in the quick tier
        return [('P1', 'rx', 0, 'Hi'), ('P1', 'rx', 1, 'Hl'), ('u3', 2, 'Hl'), ('rzz', 2, 0, 'Hi'), ('P1', 'rx', 1, 'Td'), ('P1', 'ry', 2, 'Nf'), ('P1', 'rx', 0, 'Tn'),
                ('cdouble', (1,), (2, 0)), ('crzz', (0,), (2, 1), 'T'), ('crzz', (2,), (0, 1), 'T'), ('triple', (2, 0, 1)), ('P1', 'rx', 1, 'Hs'),
                ('uxz', 2, 0, 'T'), ('uxz', 0, 2, 'T'), ('cxz', (1,), (2, 0), 'T'),
                ('append', 0, 0), ('append', 0, 1), ('append', 0, 2)]
    if level == 'tiny':
        return [('P1', 'rx', 1, 'T'), ('P1', 'ry', 0, 'T'), ('P1', 'rx', 0, 'H'), ('P1', 'rx', 1, 'Hs'), ('u3', 1, 'T'), ('CP', 'crx', (0,), 1, 'T'), ('cu3', (1,), 0, 'T'),
                ('C1', 'cnot', 1, 0), ('grover', 'T'), ('append', 0, 0), ('append', 1, 0), ('append', 1, 1)]
    full = level == 'full'
    for g in (('rx', 'ry', 'rz') if full else ('rx', 'ry')):
        for q in Q:
            ev += [('P1', g, q, prov) for prov in ('T', 'H', 'Hs', 'N')]
    for q in Q:
        ev += [('u3', q, prov) for prov in ('T', 'H', 'N')]
    for a, b in pairs:
        ev += [('rzz', a, b, prov) for prov in ('T', 'H', 'N')]
    for a, b in pairs:
        ev += [('uxz', a, b, 'T')]
    for g in (('crx', 'cry', 'crz') if full else ('crx',)):
        for c, t in _cwires(nq):
            ev += [('CP', g, c, t, prov) for prov in ('T', 'N')]
    for c, t in _cwires(nq):
        ev += [('cu3', c, t, prov) for prov in ('T', 'N')]
    ev += [('U1', 'H', q) for q in Q]
    ev += [('C1', 'cnot', a, b) for a, b in pairs]
    ev += [('double', a, b) for a, b in pairs]
    if nq >= 3:
        for t in Q:
            rest = [q for q in Q if q != t]
            ev.append(('toffoli', tuple(rest), t))
    ev += [('csingle', c, t) for c, t in _cwires(nq)]
    ev += [('grover', 'T'), ('grover', 'N'), ('grover0',)]
    ev += [('append', i, r) for i in (0, 1) for r in (0, 1, 2)]
    return ev


def ext_event_list(nq):
    """second alphabet: gate kinds, placeholder forms and requires_grad provenances that the first alphabet does not have, plus a few
    companions (so that depth 2 shares / re-wires them). Provenances: Hi = positional placeholder circ.P[k]; Hl = leaf placeholder
    circ.P['name'] (the whole tensor is the argument); Td = requires_grad left to Circuit(default_requires_grad=True); Nf = created trainable,
    then gate.requires_grad_(False); Tn = trainable with a user-chosen name= ; crzz = user ParameterGate('control', numqi.gate.rzz) on two
    targets appended with append_gate; cdouble / triple = controlled_double_qubit_gate / triple_qubit_gate"""
    Q = list(range(nq))
    ev = []
    if nq == 3:
        ev += [('P1', 'rx', q, prov) for q in Q for prov in ('Hi', 'Hl')] + [('P1', 'ry', 0, 'Hi'), ('P1', 'rz', 2, 'Hl')]
        ev += [('u3', q, 'Hl') for q in Q] + [('rzz', 0, 1, 'Hi'), ('rzz', 2, 0, 'Hi')]
        ev += [('P1', 'rx', 1, 'Td'), ('P1', 'ry', 2, 'Nf'), ('P1', 'rx', 0, 'Tn'), ('u3', 1, 'Td'), ('CP', 'crx', (2,), 0, 'Td'), ('CP', 'cry', (0,), 2, 'Nf')]
        for c in Q:
            rest = [q for q in Q if q != c]
            for t in (tuple(rest), tuple(rest[::-1])):
                ev += [('cdouble', (c,), t), ('crzz', (c,), t, 'T'), ('cxz', (c,), t, 'T')]
        ev += [('crzz', (1,), (2, 0), 'N')]
        ev += [('uxz', a, b, 'T') for a, b in itertools.permutations(Q, 2)]
        ev += [('triple', t) for t in itertools.permutations(Q, 3)]
        ev += [('P1', 'rx', 0, 'T'), ('P1', 'ry', 2, 'H'), ('P1', 'rx', 1, 'Hs'), ('C1', 'cnot', 0, 1), ('CP', 'crx', (0,), 1, 'T')]
    else:
        assert nq == 4
        # control sets giving the reduce_shape_index patterns [N,1,N,1], [1,N,N,1], [1,N,1,N], [N,1,1,N] and the single controls
        for c in ((1, 3), (0, 3), (0, 2), (1, 2)):
            rest = [q for q in Q if q not in c]
            ev += [('CP', 'crx', c, rest[0], 'T'), ('cu3', c, rest[1], 'T'), ('csingle', c, rest[0]), ('cdouble', c, (rest[1], rest[0])), ('crzz', c, (rest[0], rest[1]), 'T')]
        for c in Q:
            rest = [q for q in Q if q != c]
            ev += [('crzz', (c,), (rest[2], rest[0]), 'T'), ('cdouble', (c,), (rest[0], rest[2]))]
        ev += [('triple', (3, 1, 0)), ('triple', (0, 2, 3)), ('toffoli', (0, 3), 1)]
        ev += [('P1', 'rx', 3, 'T'), ('P1', 'ry', 0, 'Hi'), ('u3', 2, 'Hl'), ('C1', 'cnot', 3, 0)]
    ev += [('append', 0, 0), ('append', 0, 1), ('append', 0, 2)]
    return ev


def ev_category(ev):
    k = ev[0]
    if k in ('P1', 'u3', 'rzz', 'uxz'):
        return 'unitary[%s]' % ev[-1]
    if k in ('CP', 'cu3', 'crzz', 'cxz'):
        return 'control[%s]' % ev[-1]
    if k == 'grover':
        return 'custom[%s]' % ev[-1]
    if k == 'grover0':
        return 'custom[fixed]'
    if k == 'append':
        return 'append_gate'
    return 'fixed'


def ev_name(ev):
    k = ev[0]
    if k in ('P1', 'CP', 'U1', 'C1'):
        return ev[1]
    return k


# ------------------------------------------------------------------------------------------------ program builder (real circuit + reference)
class Prog:
    """interprets a history on a real numqi Circuit and, in lock-step, on the reference op list.
    reference op: dict(fam|None, M (fixed matrix) | src (list of ('p', param id) | ('c', value)), ctl, tgt, cat)"""

    def __init__(self, numqi, env):
        self.numqi = numqi
        self.A = atoms(env)
        self.circ = numqi.sim.Circuit(default_requires_grad=True)
        self.circ.register_custom_gate('oracle_f', numqi.query.FractionalGroverOracle)
        self.circ.register_custom_gate('oracle0', numqi.query.GroverOracle)
        self.ops = []
        self.params = []      # dict(tag, kind 'T'|'H', cat)
        self.hp = []          # param id of the k-th scalar placeholder  (circ.P['p'][k])
        self.hq = []          # [3 param ids] of the k-th u3 placeholder (circ.P['q'][k])
        self.hi = []          # param id of the k-th positional placeholder (circ.P[k])
        self.hl = []          # [param ids] of the k-th leaf placeholder    (circ.P['l<k>'])
        self.gates = []       # per top-level event: (gate object, reference op, is_placeholder) or None
        self.n_const = 0
        self.status = 'ok'
        self.has_custom = False
        self.reused_placeholder = False

    def _new_param(self, kind, cat):
        self.params.append(dict(tag=float(self.A['theta'][len(self.params)]), kind=kind, cat=cat, nocc=0))
        return len(self.params) - 1

    def _const(self):
        v = float(self.A['const'][self.n_const])
        self.n_const += 1
        return v

    def _args(self, npar, prov, cat):
        """-> (argument for the numqi call, src list, is_placeholder)"""
        if prov in ('T', 'Td', 'Tn'):
            pids = [self._new_param('T', cat) for _ in range(npar)]
            vals = tuple(self.params[p]['tag'] for p in pids)
            return (vals[0] if npar == 1 else vals), [('p', p) for p in pids], False
        if prov in ('N', 'Nf'):
            vals = tuple(self._const() for _ in range(npar))
            return (vals[0] if npar == 1 else vals), [('c', v) for v in vals], False
        if prov == 'H':
            if npar == 1:
                pid = self._new_param('H', cat)
                self.hp.append(pid)
                return self.circ.P['p'][len(self.hp) - 1], [('p', pid)], True
            pids = [self._new_param('H', cat) for _ in range(npar)]
            self.hq.append(pids)
            return self.circ.P['q'][len(self.hq) - 1], [('p', p) for p in pids], True
        if prov == 'Hi':
            assert npar == 1
            pid = self._new_param('H', cat)
            self.hi.append(pid)
            return self.circ.P[len(self.hi) - 1], [('p', pid)], True
        if prov == 'Hl':
            pids = [self._new_param('H', cat) for _ in range(npar)]
            self.hl.append(pids)
            return self.circ.P['l%d' % (len(self.hl) - 1)], [('p', p) for p in pids], True
        if prov == 'Hs':
            if not self.hp:
                self.status = 'no_previous_placeholder'
                return None, None, True
            return self.circ.P['p'][len(self.hp) - 1], [('p', self.hp[-1])], True
        raise ValueError(prov)

    @staticmethod
    def _rgkw(prov, name):
        """keyword arguments of the gate-creating call for a provenance"""
        if prov == 'Td':
            return {}                                   # requires_grad=None -> Circuit.default_requires_grad (True)
        if prov == 'Tn':
            return {'requires_grad': True, 'name': 'user_' + name}
        return {'requires_grad': prov != 'N'}           # Nf: created trainable, frozen afterwards

    def add(self, ev):
        circ, A = self.circ, self.A
        kind = ev[0]
        cat = ev_category(ev)
        rec = None
        if kind == 'P1':
            arg, src, ph = self._args(1, ev[3], cat)
            if self.status != 'ok':
                return
            g = getattr(circ, ev[1])(ev[2], arg, **self._rgkw(ev[3], ev[1]))
            op = dict(fam=ev[1], src=src, ctl=(), tgt=(ev[2],), cat=cat)
            rec = (g, op, ph)
        elif kind == 'u3':
            arg, src, ph = self._args(3, ev[2], cat)
            g = circ.u3(ev[1], arg, **self._rgkw(ev[2], 'u3'))
            op = dict(fam='u3', src=src, ctl=(), tgt=(ev[1],), cat=cat)
            rec = (g, op, ph)
        elif kind == 'rzz':
            arg, src, ph = self._args(1, ev[3], cat)
            g = circ.rzz((ev[1], ev[2]), arg, requires_grad=ev[3] != 'N')
            op = dict(fam='rzz', src=src, ctl=(), tgt=(ev[1], ev[2]), cat=cat)
            rec = (g, op, ph)
        elif kind == 'CP':
            arg, src, ph = self._args(1, ev[4], cat)
            c = ev[2]
            g = getattr(circ, ev[1])(c[0] if len(c) == 1 else tuple(c), ev[3], arg, **self._rgkw(ev[4], ev[1]))
            op = dict(fam=CFAM[ev[1]], src=src, ctl=tuple(c), tgt=(ev[3],), cat=cat)
            rec = (g, op, ph)
        elif kind == 'cu3':
            arg, src, ph = self._args(3, ev[3], cat)
            c = ev[1]
            g = circ.cu3(c[0] if len(c) == 1 else tuple(c), ev[2], arg, requires_grad=ev[3] != 'N')
            op = dict(fam='u3', src=src, ctl=tuple(c), tgt=(ev[2],), cat=cat)
            rec = (g, op, ph)
        elif kind == 'U1':
            g = getattr(circ, ev[1])(ev[2])
            op = dict(fam=None, M=c03.FIXED1[ev[1]], ctl=(), tgt=(ev[2],), cat=cat)
            rec = (g, op, False)
        elif kind == 'C1':
            g = getattr(circ, ev[1])(ev[2], ev[3])
            op = dict(fam=None, M=c03.CTRL1[ev[1]], ctl=(ev[2],), tgt=(ev[3],), cat=cat)
            rec = (g, op, False)
        elif kind == 'double':
            g = circ.double_qubit_gate(A['U2'].copy(), ev[1], ev[2])
            op = dict(fam=None, M=A['U2'], ctl=(), tgt=(ev[1], ev[2]), cat=cat)
            rec = (g, op, False)
        elif kind == 'toffoli':
            g = circ.toffoli(tuple(ev[1]), ev[2])
            op = dict(fam=None, M=ref.X, ctl=tuple(ev[1]), tgt=(ev[2],), cat=cat)
            rec = (g, op, False)
        elif kind == 'csingle':
            c = ev[1]
            g = circ.controlled_single_qubit_gate(A['V1'].copy(), set(c), ev[2])
            op = dict(fam=None, M=A['V1'], ctl=tuple(c), tgt=(ev[2],), cat=cat)
            rec = (g, op, False)
        elif kind == 'cdouble':
            g = circ.controlled_double_qubit_gate(A['U2'].copy(), set(ev[1]), tuple(ev[2]))
            op = dict(fam=None, M=A['U2'], ctl=tuple(ev[1]), tgt=tuple(ev[2]), cat=cat)
            rec = (g, op, False)
        elif kind == 'triple':
            g = circ.triple_qubit_gate(A['U3'].copy(), *ev[1])
            op = dict(fam=None, M=A['U3'], ctl=(), tgt=tuple(ev[1]), cat=cat)
            rec = (g, op, False)
        elif kind in ('uxz', 'cxz'):
            # user ParameterGate with an exchange-asymmetric two-qubit matrix, plain ('unitary') or controlled, any target order
            arg, src, ph = self._args(1, ev[3], cat)
            if kind == 'uxz':
                g = self.numqi.sim.ParameterGate('unitary', hf_rxz, arg, name='user_rxz', requires_grad=ev[3] != 'N')
                circ.append_gate(g, (ev[1], ev[2]))
                op = dict(fam='rxz', src=src, ctl=(), tgt=(ev[1], ev[2]), cat=cat)
            else:
                g = self.numqi.sim.ParameterGate('control', hf_rxz, arg, name='user_crxz', requires_grad=ev[3] != 'N')
                circ.append_gate(g, (set(ev[1]), tuple(ev[2])))
                op = dict(fam='rxz', src=src, ctl=tuple(ev[1]), tgt=tuple(ev[2]), cat=cat)
            rec = (g, op, False)
        elif kind == 'crzz':
            arg, src, ph = self._args(1, ev[3], cat)
            g = self.numqi.sim.ParameterGate('control', self.numqi.gate.rzz, arg, name='user_crzz', requires_grad=ev[3] != 'N')
            circ.append_gate(g, (set(ev[1]), tuple(ev[2])))
            op = dict(fam='rzz', src=src, ctl=tuple(ev[1]), tgt=tuple(ev[2]), cat=cat)
            rec = (g, op, False)
        elif kind == 'grover':
            arg, src, ph = self._args(1, ev[1], cat)
            g = circ.oracle_f(1, arg, requires_grad=ev[1] != 'N')
            op = dict(fam='grover', src=src, ctl=(), tgt=(0, 1), cat=cat, custom=True)
            self.has_custom = True
            rec = (g, op, False)
        elif kind == 'grover0':
            g = circ.oracle0(1)
            op = dict(fam=None, M=GROVER0, ctl=(), tgt=(0, 1), cat=cat, custom=True)
            self.has_custom = True
            rec = (g, op, False)
        elif kind == 'append':
            i, r = ev[1], ev[2]
            if i >= len(self.gates) or self.gates[i] is None:
                self.status = 'no_gate_to_append'
                return
            g, op0, ph = self.gates[i]
            if ph:
                self.reused_placeholder = True
            if op0.get('custom'):
                if r != 0:
                    self.status = 'append_custom_has_no_wiring'
                    return
                circ.append_gate(g, ())
                op = dict(op0)
            else:
                n = prog_nq(self.ops)
                perm = {0: (lambda q: q), 1: (lambda q: (q + 1) % n), 2: (lambda q: n - 1 - q)}[r]
                c2, t2 = tuple(perm(q) for q in op0['ctl']), tuple(perm(q) for q in op0['tgt'])
                if r != 0 and (set(c2), t2) == (set(op0['ctl']), op0['tgt']):
                    self.status = 'append_same_wiring'
                    return
                if c2:
                    circ.append_gate(g, (set(c2), t2))
                else:
                    circ.append_gate(g, t2 if len(t2) > 1 else t2[0])
                op = dict(op0, ctl=c2, tgt=t2)
            op['shared'] = True
            self.ops.append(op)
            self.gates.append(None)
            return
        else:
            raise ValueError(ev)
        if ev[-1] == 'Nf':
            rec[0].requires_grad_(False)
        self.ops.append(op)
        self.gates.append(rec)

    def finish(self):
        for op in self.ops:
            for s in op.get('src', []):
                if s[0] == 'p':
                    self.params[s[1]]['nocc'] += 1


def prog_nq(ops):
    qs = [q for op in ops if not op.get('custom') for q in (tuple(op['ctl']) + tuple(op['tgt']))]
    return (1 + max(qs)) if qs else 0


_EMB = {}


def _embed(M, ctl, tgt, n):
    key = (M.tobytes(), tuple(ctl), tuple(tgt), n)
    W = _EMB.get(key)
    if W is None:
        if len(_EMB) > 20000:
            _EMB.clear()
        W = _EMB[key] = c03.ref_operator(np.asarray(M, dtype=np.complex128), tuple(ctl), tuple(tgt), n)
    return W


def _embed_d(dM, ctl, tgt, n):
    """derivative of the embedded operator: embed(dM) for a plain gate; P.embed(dM) for a controlled gate ((1-P) is constant)"""
    if len(ctl) == 0:
        return ref.embed(dM, list(tgt), n)
    return c03.ref_operator(dM, tuple(ctl), tuple(tgt), n) - c03.ref_operator(np.zeros_like(dM), tuple(ctl), tuple(tgt), n)


def ref_forward_jac(ops, n, x, q0, q0_trainable):
    """dense forward mode. x: values of the reference parameters. Returns psi (D,), J (D, P + [2D]) with the q0 columns
    (d/dRe q0_i then d/dIm q0_i) appended when q0 is trainable"""
    D = 2**n
    P = len(x)
    s = q0.astype(np.complex128)
    T = np.zeros((D, P + (2 * D if q0_trainable else 0)), dtype=np.complex128)
    if q0_trainable:
        T[:, P:P + D] = np.eye(D)
        T[:, P + D:] = 1j * np.eye(D)
    for op in ops:
        if op['fam'] is None:
            W = _embed(op['M'], op['ctl'], op['tgt'], n)
            T = W @ T
            s = W @ s
            continue
        npar, fM, fD = FAMILY[op['fam']]
        a = np.array([x[v] if k == 'p' else v for k, v in op['src']], dtype=np.float64)
        W = c03.ref_operator(fM(a), tuple(op['ctl']), tuple(op['tgt']), n)
        dM = fD(a)
        T = W @ T
        for k, (kk, v) in enumerate(op['src']):
            if kk == 'p':
                T[:, v] += _embed_d(dM[k], op['ctl'], op['tgt'], n) @ s
        s = W @ s
    return s, T


# ------------------------------------------------------------------------------------------------ the torch model around a program
def make_model(numqi, prog, n, q0_mode, A):
    import torch

    class ProgModel(torch.nn.Module):
        def __init__(self):
            super().__init__()
            self.w = numqi.sim.CircuitTorchWrapper(prog.circ)
            if prog.hp:
                self.hp = torch.nn.Parameter(torch.tensor([prog.params[p]['tag'] for p in prog.hp], dtype=torch.float64))
            if prog.hq:
                self.hq = torch.nn.Parameter(torch.tensor([[prog.params[p]['tag'] for p in row] for row in prog.hq], dtype=torch.float64))
            if prog.hi:
                self.hi = torch.nn.Parameter(torch.tensor([prog.params[p]['tag'] for p in prog.hi], dtype=torch.float64))
            for k, row in enumerate(prog.hl):
                # the leaf IS the argument: a 0-dim tensor for a one-parameter gate (like the element circ.P['p'][k]), a 3-vector for u3
                tmp = [prog.params[p]['tag'] for p in row]
                setattr(self, 'hl%d' % k, torch.nn.Parameter(torch.tensor(tmp[0] if len(tmp) == 1 else tmp, dtype=torch.float64)))
            if q0_mode == 'gen':
                self.q0p = torch.nn.Parameter(torch.tensor(A['q0p%d' % n].copy(), dtype=torch.float64))
            elif q0_mode == 'fix':
                self.q0c = torch.tensor(A['psi%d' % n].copy())
            else:
                tmp = np.zeros(2**n, dtype=np.complex128)
                tmp[0] = 1
                self.q0c = torch.tensor(tmp)
            self.O = torch.tensor(A['O%d' % n])
            self.phi = torch.tensor(A['phi%d' % n])
            self.loss_kind = 'O'

        def holders(self, shift=0.0):
            kw = {}
            if prog.hp:
                kw['p'] = self.hp + shift
            if prog.hq:
                kw['q'] = self.hq + shift
            for k in range(len(prog.hl)):
                kw['l%d' % k] = getattr(self, 'hl%d' % k) + shift
            return ((self.hi + shift,) if prog.hi else ()), kw

        def psi_from(self, q0):
            args, kw = self.holders()
            if args or kw:
                self.w.setP(*args, **kw)
            return self.w(q0)

        def psi(self):
            q0 = torch.complex(self.q0p[0], self.q0p[1]) if q0_mode == 'gen' else self.q0c.clone()
            return self.psi_from(q0)

        def forward(self):
            psi = self.psi()
            if self.loss_kind == 'O':
                return torch.vdot(psi, self.O @ psi).real
            tmp = torch.vdot(self.phi, psi)
            return (tmp * tmp.conj()).real
    return ProgModel()


def loss_value_grad(kind, psi, J, O, phi):
    """loss and its gradient from psi and the Jacobian d psi / d x (columns)"""
    if kind == 'O':
        Opsi = O @ psi
        return float(np.vdot(psi, Opsi).real), 2 * (Opsi.conj() @ J).real
    ov = np.vdot(phi, psi)
    return float(abs(ov)**2), 2 * (np.conj(ov) * (phi.conj() @ J)).real


def match_by_value(flat, tags):
    """position in `flat` of every tag (unique match within 1e-9) or None"""
    flat = np.asarray(flat, dtype=np.float64)
    pos = []
    for t in tags:
        idx = np.nonzero(np.abs(flat - t) < 1e-9)[0]
        if len(idx) != 1:
            return None
        pos.append(int(idx[0]))
    if len(set(pos)) != len(pos) or len(pos) != len(flat):
        return None
    return pos


def hist_json(hist):
    return [list(e) for e in hist]


def grad_key(cat):
    return 'sim.CircuitTorchWrapper/backward/wrong_gradient/' + cat


def build_prog(numqi, out, env, hist, count=True):
    """fresh Circuit + reference for the history; None if the history is outside the domain / rejected"""
    hl = hist_json(hist)
    prog = Prog(numqi, env)
    try:
        for ev in hist:
            prog.add(ev)
            if prog.status != 'ok':
                if count:
                    out.count('history_outside_domain[%s]' % prog.status)
                return None
        prog.finish()
    except Exception as e:  # noqa
        out.violation('sim.Circuit/build/%s/%s' % (type(e).__name__, '+'.join(sorted({ev_category(e_) for e_ in hist}))),
                      'building the circuit for history %s raised %s: %s' % (hl, type(e).__name__, str(e)[:200]), history=hl)
        return None
    n = prog_nq(prog.ops)
    if n == 0 or (prog.has_custom and n != 2):
        if count:
            out.count('history_outside_domain[custom_oracle_needs_2_qubits]')
        return None
    if prog.reused_placeholder:
        # documented precondition of CircuitTorchWrapper: 'PlaceHolder gate cannot be re-used'
        try:
            numqi.sim.CircuitTorchWrapper(prog.circ)
            out.violation('sim.CircuitTorchWrapper/reused_placeholder_gate_accepted', 'a re-used placeholder gate was accepted although the wrapper documents that it cannot be', history=hl)
        except AssertionError:
            if count:
                out.count('rejected_by_precondition')
        return None
    return prog


# ------------------------------------------------------------------------------------------------ cotangent forms / interleaving / input kinds
# additions whose oracle fires on the pinned tree (reported, numqi repair pending); the guarded oracle is skipped and counted
PENDING = set()  # interleaved_forward, unused_parameter, noncontig_cotangent_psd were repaired in numqi (known_findings.json); real_q0 was ruled outside the domain
# debugging aid for the repair: VERIF_C04_UNPEND=flag1,flag2 (or 'all') activates the guarded oracles without editing the module
_unpend = __import__('os').environ.get('VERIF_C04_UNPEND', '')
PENDING = set() if _unpend == 'all' else PENDING - set(_unpend.split(','))
COT_FORMS = ('conj', 'vdot', 'flip', 'slice', 'perm', 'expand')
INTERLEAVE = ('nograd_forward', 'second_wrapper')
Q0_KINDS = ('complex128_view', 'real64', 'complex64', 'conj_view')


def pending(out, flag):
    if flag in PENDING:
        out.count('pending/' + flag)
        return True
    return False


def cot_form(torch, form, psi, c):
    """loss = Re(c_eff . psi), written so that the cotangent reaches the hand-written backward in the given memory form -> (loss, c_eff)"""
    D = len(c)
    ct = torch.tensor(c)
    if form == 'conj':    # conjugate bit set on the incoming cotangent
        return (psi.conj() * ct).sum().real, c.conj()
    if form == 'vdot':
        return torch.vdot(psi, ct).real, c.conj()
    if form == 'flip':
        return (psi.flip(0) * ct).sum().real, c[::-1].copy()
    if form == 'slice':   # cotangent of a strided slice
        ce = np.zeros(D, dtype=np.complex128)
        ce[1::2] = c[:D // 2]
        return (psi[1::2] * ct[:D // 2]).sum().real, ce
    if form == 'perm':    # cotangent of a transposed view
        return (psi.reshape(2, D // 2).T.reshape(-1) * ct).sum().real, c.reshape(D // 2, 2).T.reshape(-1).copy()
    if form == 'expand':  # stride-0 (expanded) cotangent
        return psi.sum().real, np.ones(D, dtype=np.complex128)
    raise ValueError(form)


def _grad_vec(params, pos2):
    gk = np.concatenate([(v.grad.numpy().reshape(-1) if v.grad is not None else np.zeros(v.numel())) for v in params])
    return gk[pos2]


def run_extras(numqi, out, env, prog, model, n, q0_mode, x, theta, P, J_ref, kap, allcats, det, params, pos2, q0_ref):
    """point 'gen' only. Oracle: the gradient of Re(c_eff . psi) is Re(c_eff^T J_ref) whatever the memory form of the cotangent, whatever
    happened between the forward and its backward, and whatever tensor kind carried the initial state"""
    import torch
    A = atoms(env)
    D = 2**n
    c = A['c%d' % n]
    c1 = max(1.0, float(np.abs(c).sum()))
    tol = C_SAFE * EPS * kap * c1     # tol_J (see run_history) times the l1 norm of the cotangent it is contracted with
    site = 'sim.CircuitTorchWrapper/backward'
    hl = det['history']
    # key suffix: the reverse sweep has two code paths - built-in gate kinds and user gates with their own grad_backward
    cats = 'custom_gate' if prog.has_custom else 'builtin_gates'
    ok = True

    def backward_grad(loss):
        for v in params:
            v.grad = None
        loss.backward()
        return _grad_vec(params, pos2)

    def compare(key, what, g, g_exp, tol_, **extra):
        if not np.all(np.isfinite(g)) or np.abs(g - g_exp).max() > tol_:
            j = int(np.argmax(np.nan_to_num(np.abs(g - g_exp), nan=np.inf)))
            out.violation(key, '%s for history %s, init=%s: component %d delivered %.12g, true %.12g' % (what, hl, q0_mode, j, g[j], g_exp[j]), delivered=g, expected=g_exp, tol=tol_, cotangent=c, **extra, **det)
            return False
        return True
    # ---- (C) memory forms of the cotangent
    for form in COT_FORMS:
        out.trans()
        try:
            loss, ce = cot_form(torch, form, model.psi(), c)
            g = backward_grad(loss)
        except Exception as e:  # noqa
            out.violation('%s/cotangent[%s]/%s/%s' % (site, form, type(e).__name__, cats), 'backward of the loss form %r for history %s raised %s: %s (at %s)' % (form, hl, type(e).__name__, str(e)[:200], core.exc_site(e)), loss_form=form, **det)
            ok = False
            continue
        ok &= compare('%s/cotangent[%s]/wrong_gradient' % (site, form), 'gradient of the loss form %r' % form, g, (ce @ J_ref).real, tol, loss_form=form)
        out.outcome(('cot', n, form, np.round(g, 6)), nontrivial=bool(np.abs(g).max() > 1e-9))
    # ---- (D) something happens between forward(theta) and its backward
    ct = torch.tensor(c)
    for inter in INTERLEAVE:
        if prog.has_custom and pending(out, 'interleaved_forward'):
            continue
        out.trans()
        try:
            loss = (model.psi() * ct).sum().real
            with torch.no_grad():
                if inter == 'nograd_forward':
                    numqi.optimize.set_model_flat_parameter(model, theta + 1.0)
                    model.psi()
                    # torch's own saved tensors alias the parameters: they must hold theta again when the first backward runs
                    numqi.optimize.set_model_flat_parameter(model, theta)
                else:
                    w2 = numqi.sim.CircuitTorchWrapper(prog.circ)
                    for v in w2.parameters():
                        v.add_(1.0)
                    args, kw = model.holders(shift=1.0)
                    if args or kw:
                        w2.setP(*args, **kw)
                    w2(torch.tensor(A['psi%d' % n].copy()))
            g = backward_grad(loss)
        except Exception as e:  # noqa
            out.violation('%s/interleaved[%s]/%s/%s' % (site, inter, type(e).__name__, cats), 'forward(theta), %s at theta+1, backward for history %s raised %s: %s (at %s)' % (inter, hl, type(e).__name__, str(e)[:200], core.exc_site(e)), interleaved=inter, **det)
            ok = False
            continue
        ok &= compare('%s/interleaved[%s]/wrong_gradient/%s' % (site, inter, cats), 'gradient at theta after forward(theta), %s at theta+1, backward' % inter, g, (c @ J_ref).real, tol, interleaved=inter)
        out.outcome(('inter', n, inter, np.round(g, 6)), nontrivial=bool(np.abs(g).max() > 1e-9))
    # ---- (E) tensor kind of the initial state (a differentiable input of the wrapper)
    if q0_mode != 'gen':
        return ok
    eps32 = float(np.finfo(np.float32).eps)
    for kind in Q0_KINDS:
        if kind == 'real64':
            # ruled outside the domain: the simulator's state is a complex vector (every caller in the library passes complex
            # tensors); a real-dtype tensor that requires grad cannot receive the complex cotangent of the hand-written backward
            out.count('outside_domain/real_dtype_trainable_initial_state')
            continue
        qv = q0_ref
        if kind == 'complex128_view':
            leaf = torch.tensor(np.stack([qv, 1j * qv], axis=1), requires_grad=True)
            q0 = leaf[:, 0]
        elif kind == 'real64':
            qv = np.ascontiguousarray(q0_ref.real).astype(np.complex128)
            leaf = torch.tensor(qv.real.copy(), requires_grad=True)
            q0 = leaf
        elif kind == 'complex64':
            leaf = torch.tensor(q0_ref.astype(np.complex64), requires_grad=True)
            qv = leaf.detach().numpy().astype(np.complex128)
            q0 = leaf
        else:
            leaf = torch.tensor(qv.conj(), requires_grad=True)
            q0 = leaf.conj()
        out.trans()
        try:
            psi_t = model.psi_from(q0)
            g = backward_grad((psi_t * ct).sum().real)[:P]
            gq = leaf.grad.resolve_conj().numpy().copy() if leaf.grad is not None else None
        except Exception as e:  # noqa
            out.violation('sim.CircuitTorchWrapper/initial_state[%s]/%s' % (kind, type(e).__name__), 'forward/backward with a %s initial state for history %s raised %s: %s (at %s)' % (kind, hl, type(e).__name__, str(e)[:200], core.exc_site(e)), q0_kind=kind, **det)
            ok = False
            continue
        psi_k, J_k = ref_forward_jac(prog.ops, n, x, qv, True)
        v = c @ J_k[:, P:P + D]           # loss = Re(v . q0): torch convention d/dRe + i d/dIm = conj(v); real input: Re v
        gq_exp = {'complex128_view': np.stack([v.conj(), 0 * v], axis=1), 'real64': v.real, 'complex64': v.conj(), 'conj_view': v}[kind]
        # complex64: in-place gates (custom oracle) keep the state in the input dtype and the float64 gradient is rounded to the dtype of the
        # input: every tolerance of this kind is scaled by eps(float32) / eps(float64)
        r32 = eps32 / EPS if kind == 'complex64' else 1.0
        if np.abs(psi_t.detach().numpy() - psi_k).max() > C_SAFE * EPS * kap * r32:
            out.violation('sim.CircuitTorchWrapper/initial_state[%s]/forward_mismatch' % kind, 'forward state for a %s initial state differs from the reference (history %s)' % (kind, hl), q0_kind=kind, **det)
            ok = False
            continue
        if P:
            ok &= compare('sim.CircuitTorchWrapper/initial_state[%s]/wrong_gradient/%s' % (kind, cats), 'parameter gradient with a %s initial state' % kind, g, (c @ J_k[:, :P]).real, tol * r32, q0_kind=kind)
        if gq is None or gq.shape != gq_exp.shape:
            out.violation('sim.CircuitTorchWrapper/initial_state[%s]/no_gradient' % kind, 'no gradient / wrong shape delivered to a %s initial state that requires grad (history %s)' % (kind, hl), q0_kind=kind, **det)
            ok = False
            continue
        tq = tol * r32
        gq_r, ge_r = real_components(gq, 'c'), real_components(gq_exp, 'c')
        ok &= compare('sim.CircuitTorchWrapper/initial_state[%s]/wrong_input_gradient' % kind, 'gradient w.r.t. a %s initial state' % kind, gq_r, ge_r, tq, q0_kind=kind)
        out.outcome(('q0kind', n, kind, np.round(gq_r, 5)), nontrivial=bool(np.abs(gq_r).max() > 1e-9))
    return ok


def run_history(numqi, out, env, hist, q0_modes, points, jac, extras=False):
    import torch
    A = atoms(env)
    hl = hist_json(hist)
    prog = build_prog(numqi, out, env, hist)
    if prog is None:
        return
    n = prog_nq(prog.ops)
    P = len(prog.params)
    D = 2**n
    cats = [p['cat'] + ('/shared' if p['nocc'] > 1 else '') for p in prog.params]
    ok_all = True
    for i_mode, q0_mode in enumerate(q0_modes):
        if P == 0 and q0_mode != 'gen':
            out.count('no_differentiable_input')
            continue
        if i_mode > 0:
            # a fresh Circuit per model: CircuitTorchWrapper.forward writes the current parameters back into custom gate objects
            prog = build_prog(numqi, out, env, hist, count=False)
        det0 = dict(history=hl, num_qubit=n, init_state=q0_mode)
        try:
            model = make_model(numqi, prog, n, q0_mode, A)
            flat0 = numqi.optimize.get_model_flat_parameter(model)
        except Exception as e:  # noqa
            site = core.exc_site(e)
            out.violation('sim.CircuitTorchWrapper/setup/%s' % type(e).__name__, 'CircuitTorchWrapper / get_model_flat_parameter for history %s raised %s: %s (at %s)' % (hl, type(e).__name__, str(e)[:200], site), **det0)
            ok_all = False
            continue
        tags = [p['tag'] for p in prog.params]
        q0tags = list(A['q0p%d' % n].reshape(-1)) if q0_mode == 'gen' else []
        pos = match_by_value(flat0, tags + q0tags)
        if pos is None:
            out.violation('sim.CircuitTorchWrapper/parameters/not_one_per_trainable_argument',
                          'the model parameters %s are not exactly the initial values of the trainable arguments %s' % (np.round(flat0, 6).tolist(), np.round(tags, 6).tolist()), **det0)
            ok_all = False
            continue
        pos = np.array(pos)
        NP = len(pos)
        allcats = cats + ['init_state'] * len(q0tags)
        q0_ref = (A['q0p%d' % n][0] + 1j * A['q0p%d' % n][1]) if q0_mode == 'gen' else (A['psi%d' % n] if q0_mode == 'fix' else np.eye(D)[0].astype(np.complex128))
        q0n2 = max(1.0, float(np.vdot(q0_ref, q0_ref).real))
        hf = numqi.optimize.hf_model_wrapper(model)
        O, phi = A['O%d' % n], A['phi%d' % n]
        On = max(1.0, float(np.linalg.norm(O, 2)))
        nocc = [max(1, p['nocc']) for p in prog.params]
        # K: bound on the frequency of psi in one parameter (sum over the occurrences; pi for the oracle phase exp(-i pi theta))
        Kfreq = [nocc[j] * (np.pi if prog.params[j]['cat'].startswith('custom') else 1.0) for j in range(P)] + [1.0] * len(q0tags)
        L = len(prog.ops)
        # decision tolerance c*eps*kappa: the forward and the reverse sweep apply 3 L gate maps (each output entry a sum of <= 8
        # products of unit-modulus-bounded numbers), the operator gradient is a contraction over 2^n terms; everything scales with
        # ||q0||^2 ||O|| (loss) resp. ||q0|| (Jacobian) and with the number of occurrences times the derivative bound pi of a gate.
        kap = (24 * L + D) * q0n2 * max(Kfreq)
        tol_J = C_SAFE * EPS * kap
        tol_g = C_SAFE * EPS * kap * On * 2
        for point in points:
            if point != 'gen' and P == 0:
                continue
            x = np.array(tags, dtype=np.float64) if point == 'gen' else np.full(P, 0.0 if point == 'zero' else np.pi / 2)
            theta = flat0.copy()
            theta[pos[:P]] = x
            out.state()
            det = dict(point=point, theta_flat=theta, **det0)
            psi_ref, J_ref = ref_forward_jac(prog.ops, n, x, q0_ref, q0_mode == 'gen')
            # ---- (B) the flat-parameter bridge, two losses; the second call sees the stale .grad of the first
            res = {}
            for lk in ('O', 'phi'):
                model.loss_kind = lk
                out.trans()
                try:
                    fval, grad = hf(theta.copy())
                except Exception as e:  # noqa
                    site = core.exc_site(e)
                    out.violation('sim.CircuitTorchWrapper/backward/%s/%s' % (type(e).__name__, '+'.join(sorted(set(cats))) or 'init_state'),
                                  'hf_model_wrapper(model)(theta) for history %s raised %s: %s (at %s)' % (hl, type(e).__name__, str(e)[:200], site), loss=lk, **det)
                    ok_all = False
                    res = None
                    break
                res[lk] = (fval, np.asarray(grad, dtype=np.float64))
            if res is None:
                continue
            # ---- forward value of the model's own forward
            with torch.no_grad():
                psi_impl = model.psi().numpy().copy()
            if np.abs(psi_impl - psi_ref).max() > tol_J:
                out.violation('sim.CircuitTorchWrapper/forward/mismatch', 'forward state for history %s at point %s differs from the embedded reference by %.3g' % (hl, point, np.abs(psi_impl - psi_ref).max()),
                              observed=psi_impl, expected=psi_ref, **det)
                ok_all = False
                continue
            # ---- finite differences of the model's own forward (psi level), all parameters
            J_fd = np.zeros_like(J_ref)
            with torch.no_grad():
                for j in range(NP):
                    tp, tm = theta.copy(), theta.copy()
                    tp[pos[j]] += H_FD
                    tm[pos[j]] -= H_FD
                    numqi.optimize.set_model_flat_parameter(model, tp)
                    a = model.psi().numpy().copy()
                    numqi.optimize.set_model_flat_parameter(model, tm)
                    b = model.psi().numpy().copy()
                    J_fd[:, j] = (a - b) / (2 * H_FD)
                numqi.optimize.set_model_flat_parameter(model, theta)
            # central difference: truncation h^2/6 |psi'''| <= h^2/6 K^3 ||q0||, rounding ~ eps ||q0|| / h (c = 1e3)
            tol_fd = np.array([(H_FD**2 / 6) * k**3 + C_SAFE * EPS / H_FD for k in Kfreq]) * np.sqrt(q0n2)
            bad_fd = np.abs(J_fd - J_ref).max(axis=0) > tol_fd
            if bad_fd.any():
                raise OracleDisagreement('C04 prog: analytic reference Jacobian and finite differences of an agreeing forward differ: history %s point %s cols %s err %s'
                                         % (hl, point, np.nonzero(bad_fd)[0].tolist(), np.abs(J_fd - J_ref).max(axis=0).tolist()))
            for lk in ('O', 'phi'):
                fval, grad = res[lk]
                f_ref, g_ref = loss_value_grad(lk, psi_ref, J_ref, O, phi)
                if grad.shape != (NP,) or not np.all(np.isfinite(grad)):
                    out.violation('optimize.hf_model_wrapper/grad/shape_or_nonfinite', 'hf_model_wrapper returned a gradient of shape %s / non-finite for %d parameters' % (grad.shape, NP), observed=grad, loss=lk, **det)
                    ok_all = False
                    continue
                if abs(fval - f_ref) > tol_g:
                    out.violation('optimize.hf_model_wrapper/fval/mismatch', 'hf_model_wrapper fval %.12g != loss of the reference state %.12g' % (fval, f_ref), loss=lk, **det)
                    ok_all = False
                g_impl = grad[pos]
                err = np.abs(g_impl - g_ref)
                for j in np.nonzero(err > tol_g)[0]:
                    ok_all = False
                    out.violation(grad_key(allcats[j]),
                                  'd loss[%s] / d parameter %d (%s) for history %s, init=%s, point=%s: delivered %.12g, true %.12g (finite difference of the forward: %.12g)'
                                  % (lk, j, allcats[j], hl, q0_mode, point, g_impl[j], g_ref[j], loss_value_grad(lk, psi_ref, J_fd, O, phi)[1][j]),
                                  loss=lk, parameter=int(j), delivered=g_impl, expected=g_ref, tol=tol_g, **det)
                out.outcome((n, lk, np.round(g_impl, 6)), nontrivial=bool(np.abs(g_impl).max() > 1e-9))
            # ---- (A) full Jacobian through loss.backward(): complete real cotangent basis {Re psi_i, Im psi_i}
            params = [v for _, v in sorted(model.named_parameters(), key=lambda kv: kv[0])]
            mine = np.concatenate([v.detach().numpy().reshape(-1) for v in params])
            pos2 = match_by_value(mine, list(theta[pos]))
            if pos2 is None and point == 'gen':
                raise OracleDisagreement('harness: cannot match own flattening')
            if point == 'gen' and extras:
                ok_all &= run_extras(numqi, out, env, prog, model, n, q0_mode, x, theta, P, J_ref, kap, allcats, det, params, np.array(pos2), q0_ref)
            if jac:
                if pos2 is not None:
                    pos2 = np.array(pos2)
                    J_impl = np.zeros((2 * D, NP))
                    psi_t = model.psi()
                    comp = torch.view_as_real(psi_t).reshape(-1)  # Re psi_0, Im psi_0, Re psi_1, ...
                    for k in range(2 * D):
                        for v in params:
                            v.grad = None
                        out.trans()
                        comp[k].backward(retain_graph=True)
                        gk = np.concatenate([(v.grad.numpy().reshape(-1) if v.grad is not None else np.zeros(v.numel())) for v in params])
                        J_impl[k] = gk[pos2]
                    J_exp = np.stack([J_ref.real, J_ref.imag], axis=1).reshape(2 * D, NP)
                    errJ = np.abs(J_impl - J_exp).max(axis=0)
                    for j in np.nonzero(errJ > tol_J)[0]:
                        ok_all = False
                        out.violation(grad_key(allcats[j]) + '/jacobian',
                                      'd psi / d parameter %d (%s) via backward of the cotangent basis for history %s, init=%s, point=%s deviates by %.3g' % (j, allcats[j], hl, q0_mode, point, errJ[j]),
                                      parameter=int(j), delivered=J_impl[:, j], expected=J_exp[:, j], tol=tol_J, **det)
    if ok_all:
        out.trace()


def run_prog(case, out, env):
    import numqi
    evs = event_list(case['nq'], case['level'])
    depth = case['depth']
    if case['first'] is None:
        hists = [(e,) for e in evs[case['lo']:case['hi']]]
    else:
        hists = ((evs[case['first']],) + tail for tail in itertools.product(evs, repeat=depth - 1))
    for h in hists:
        run_history(numqi, out, env, h, case['q0'], case['points'], case['jac'], case.get('extras', False))
    out.sample = {'kind': 'prog', 'nq': case['nq'], 'depth': depth, 'level': case['level'], 'alphabet': len(evs), 'points': case['points'], 'init_states': case['q0'],
                  'example_history': hist_json([evs[case['first'] or 0]] + [evs[-6]] * (depth - 1))}


# ------------------------------------------------------------------------------------------------ PSD matrix functions
def herm_basis(d, field):
    """complete real basis of the Hermitian (field 'c') / real symmetric (field 'r') d x d matrices"""
    B = []
    for a in range(d):
        for b in range(a, d):
            m = np.zeros((d, d), dtype=np.complex128 if field == 'c' else np.float64)
            if a == b:
                m[a, a] = 1
                B.append(m)
            else:
                m[a, b] = m[b, a] = 1
                B.append(m.copy())
                if field == 'c':
                    m[a, b], m[b, a] = 1j, -1j
                    B.append(m)
    return B


def psd_spectra(A, d):
    """name -> (eigenvalues, in_domain)"""
    sp = A['spec%d' % d]
    ret = {'gen': (sp, True)}
    if d == 1:
        ret.update({'x1e3': (sp * 1e3, True), 'x1e-3': (sp * 1e-3, True), 'tiny8': (np.array([1e-8]), True), 'rank-1': (np.array([0.0]), False)})
        return ret
    # a tiny positive eigenvalue: positive definite, hence inside the domain (the tolerance carries the condition number)
    for nm, v in (('tiny8', 1e-8), ('tiny12', 1e-12)):
        e = sp.copy()
        e[0] = v
        ret[nm] = (e, True)
    if d >= 3:   # ... next to an exact zero: rank-deficient, observed only
        e = sp.copy()
        e[0], e[1] = 0.0, 1e-8
        ret['zero+tiny8'] = (e, False)
    e = sp.copy()
    e[1] = e[0]
    ret['deg2' if d > 2 else 'degall'] = (e, True)
    if d >= 3:
        e = sp.copy()
        e[1] = e[2] = e[0]
        ret['deg3' if d > 3 else 'degall'] = (e, True)
    if d >= 4:
        ret['degall'] = (np.full(d, sp[1]), True)
        e = sp.copy()
        e[1], e[3] = e[0], e[2]
        ret['deg2+2'] = (e, True)
    e = sp.copy()
    e[1] = e[0] + 1e-6
    ret['near'] = (e, True)
    ret['x1e3'] = (sp * 1e3, True)
    ret['x1e-3'] = (sp * 1e-3, True)
    e = sp.copy()
    e[0] = 0.0
    ret['rank-1'] = (e, False)
    if d >= 3:
        e = sp.copy()
        e[0] = e[1] = 0.0
        ret['rank-2'] = (e, False)
    return ret


def psd_matrix(A, d, field, spec_name, basis):
    ev, dom = psd_spectra(A, d)[spec_name]
    if basis == 'eye' or d == 1:
        U = np.eye(d)
    else:
        U = A[('U' if basis == 'U' else 'W') + field + str(d)]
    M = (U * ev) @ U.conj().T
    M = (M + M.conj().T) / 2
    M = np.ascontiguousarray(M.real) if field == 'r' else M.astype(np.complex128)
    return M, ev, dom


def sylvester_solve(S, R):
    """X with S X + X S = R  (row-major vec: vec(S X) = (S kron 1) vec X, vec(X S) = (1 kron S^T) vec X)"""
    d = len(S)
    K = np.kron(S, np.eye(d)) + np.kron(np.eye(d), S.T)
    return np.linalg.solve(K, R.reshape(-1)).reshape(d, d)


def ref_root_chain(M, s):
    w, V = np.linalg.eigh(M)
    w = np.maximum(w, 0)
    return [(V * w**(0.5**k)) @ V.conj().T for k in range(1, s + 1)]


def ref_psd_fun(fun, M):
    """fun = ('sqrtm',) | ('repeat', s) | ('logm', s, m). Returns value, differential(dM) (closure)"""
    s = 1 if fun[0] == 'sqrtm' else fun[1]
    chain = ref_root_chain(M, s)

    def droot(dM):
        X = dM
        for S in chain:
            X = sylvester_solve(S, X)
        return X
    if fun[0] in ('sqrtm', 'repeat'):
        return chain[-1], droot
    node, weight = np.polynomial.legendre.leggauss(fun[2])
    alpha = weight * 2**(s - 1)
    beta = (node + 1) / 2
    T = chain[-1]
    d = len(M)
    eye = np.eye(d)
    Minv = [np.linalg.inv((1 - b) * eye + b * T) for b in beta]
    val = sum(a * (Mi @ (T - eye)) for a, Mi in zip(alpha, Minv))

    def dlog(dM):
        dT = droot(dM)
        return sum(a * (Mi @ dT - b * (Mi @ dT @ Mi @ (T - eye))) for a, b, Mi in zip(alpha, beta, Minv))
    return val, dlog


def impl_psd_fun(numqi, fun):
    op = numqi._torch_op
    if fun[0] == 'sqrtm':
        return op.PSDMatrixSqrtm.apply
    if fun[0] == 'repeat':
        return lambda x: op._PSDMatrixSqrtmRepeat.apply(x, fun[1])
    return op.PSDMatrixLogm(num_sqrtm=fun[1], pade_order=fun[2])


def real_components(x, field):
    """flatten to real components: complex -> (..., Re, Im) interleaved like torch.view_as_real"""
    x = np.asarray(x)
    if field == 'c':
        return np.stack([x.real, x.imag], axis=-1).reshape(-1)
    return x.real.reshape(-1)


def fun_name(fun):
    return {'sqrtm': 'PSDMatrixSqrtm', 'repeat': '_PSDMatrixSqrtmRepeat', 'logm': 'PSDMatrixLogm'}[fun[0]]


def run_psd_frame(case, out, env):
    """gradient of X -> Re tr(K^dagger f(X X^dagger)) through the library's custom backward, for rank-deficient X X^dagger"""
    import numqi
    import torch
    d, field, fun = case['d'], case['field'], tuple(case['fun'])
    fn = impl_psd_fun(numqi, fun)
    site = '_torch_op/' + fun_name(fun) + '/frame'
    s_rep = 1 if fun[0] == 'sqrtm' else fun[1]
    p = 2.0 ** (-s_rep) - 1.0
    rng = env.rng('C04', 'psd_frame', d, field)
    cplx = field == 'c'

    def gen(*shape):
        x = rng.normal(size=shape)
        return x + 1j * rng.normal(size=shape) if cplx else x

    def closed(X):
        G = X.conj().T @ X
        w, v = np.linalg.eigh(G)
        return X @ ((v * w ** p) @ v.conj().T) @ X.conj().T
    K = gen(d, d)
    for r in range(1, d):
        frames = [('generic', gen(d, r)), ('identity_block', np.eye(d, r).astype(np.complex128 if cplx else np.float64))]
        z = gen(d, r)
        z[-1] = 0
        frames.append(('zero_last_row', z))
        z2 = gen(d, r)
        z2[0] = 0
        frames.append(('zero_first_row', z2))
        for name, X0 in frames:
            out.state()
            det = dict(function=fun_name(fun), args=list(fun[1:]), d=d, r=r, field=field, frame=name, X=X0)
            Xt = torch.tensor(X0, requires_grad=True)
            try:
                A = Xt @ Xt.conj().T
                val = fn(A)
                loss = torch.real(torch.sum(torch.tensor(K).conj() * val))
                g, = torch.autograd.grad(loss, Xt)
                out.trans()
            except Exception as e:
                out.violation('%s/%s' % (site, type(e).__name__), '%s raised %s on A = X X^dagger (d=%d, r=%d, %s): %s' % (fun_name(fun), type(e).__name__, d, r, name, str(e)[:150]), **det)
                continue
            vnp = val.detach().numpy()
            vref = closed(X0)
            # forward: the null eigenvalues of A are O(eps) noise (clamped at 0), and lambda -> lambda^(1/2^s) is Hoelder continuous with
            # exponent 1/2^s only: tolerance 1e3 * eps^(1/2^s)
            tol_f = 1e3 * EPS ** (2.0 ** (-s_rep)) * max(1.0, np.abs(vref).max())
            if not np.all(np.isfinite(vnp)) or np.abs(vnp - vref).max() > tol_f:
                out.violation(site + '/forward_mismatch', '%s(X X^dagger) differs from X (X^dagger X)^p X^dagger by %.3g (d=%d, r=%d, %s)' % (fun_name(fun), np.abs(vnp - vref).max(), d, r, name), **det)
                continue
            gi = g.detach().numpy()
            if not np.all(np.isfinite(gi)):
                out.violation(site + '/gradient_not_finite', 'gradient w.r.t. X is not finite (d=%d, r=%d, %s)' % (d, r, name), **det)
                continue

            def L(X):
                return float(np.real(np.sum(K.conj() * closed(X))))
            # reference: central differences of the closed form, h = 1e-6 (truncation ~1e-12, rounding ~1e-10)
            h = 1e-6
            gref = np.zeros(X0.shape, dtype=np.complex128)
            for i in range(d):
                for j in range(r):
                    E = np.zeros_like(X0)
                    E[i, j] = 1
                    gr = (L(X0 + h * E) - L(X0 - h * E)) / (2 * h)
                    gim = (L(X0 + 1j * h * E) - L(X0 - 1j * h * E)) / (2 * h) if cplx else 0.0
                    gref[i, j] = gr + 1j * gim
            # torch convention for complex leaves: grad = dL/dRe + i dL/dIm
            gcmp = gi if cplx else gi.real
            gr_ = gref if cplx else gref.real
            scale = max(1.0, np.abs(gref).max())
            if s_rep >= 2:
                # A^(1/2^s), s >= 2: the O(eps) noise in the null eigenvalues enters the range/null cross terms as eps^(1/2^s) (1e-4 for s=2,
                # 1e-2 for s=3) - the derivative itself is too ill-conditioned to be compared; finiteness and the forward value are checked
                out.count('skipped_ill_conditioned[repeat>=2 frame gradient value]')
                out.trace()
                continue
            # s = 1: cross terms G_ij/(s_i+s_j) with s_i = sqrt(O(eps)) noise: relative error sqrt(eps)=1.5e-8 -> c*sqrt(eps) = 1.5e-5; finite
            # differences add 1e-9. Tolerance 1e-4 (a dropped cross term is O(1)).
            if np.abs(gcmp - gr_).max() > 1e-4 * scale:
                out.violation(site + '/wrong_gradient', 'gradient of X -> Re tr(K^dagger %s(X X^dagger)) differs from central differences of the closed form by %.3g (scale %.3g; d=%d, r=%d, frame %s)'
                              % (fun_name(fun), np.abs(gcmp - gr_).max(), scale, d, r, name), **det)
            out.trace()
            out.outcome((fun, d, r, field, name, np.round(gref, 5)), nontrivial=bool(np.abs(gref).max() > 1e-6))
    out.sample = {'kind': 'psd_frame', 'function': fun_name(fun), 'd': d, 'field': field}


PSD_COT_FORMS = ('mat_T', 'mat_first', 'batch_swap', 'batch_mat_mix', 'slice', 'conj', 'expand')


def psd_cot_form(form, v, nbatch):
    """the same view operation for a torch tensor and a numpy array (numpy: a writable view); None if the form needs more batch axes"""
    nd = nbatch + 2
    is_np = isinstance(v, np.ndarray)
    perm = (lambda *a: v.transpose(*a)) if is_np else (lambda *a: v.permute(*a))
    if form == 'mat_T':
        return perm(*range(nbatch), nd - 1, nd - 2)
    if form == 'mat_first':
        return perm(nd - 2, nd - 1, *range(nbatch)) if nbatch >= 1 else None
    if form == 'batch_swap':
        return perm(1, 0, 2, 3) if nbatch == 2 else None
    if form == 'batch_mat_mix':
        return perm(0, 2, 1, 3) if nbatch == 2 else None
    if form == 'slice':
        return v[..., ::2, 1:]
    raise ValueError(form)


def run_psd(case, out, env):
    import numqi
    import torch
    A = atoms(env)
    d, field, fun = case['d'], case['field'], tuple(case['fun'])
    f32 = case.get('dtype') == 'f32'
    # input dtype float32 / complex64: every tolerance below is the float64 one with eps(float32) in place of eps(float64)
    eps = float(np.finfo(np.float32).eps) if f32 else EPS
    B = herm_basis(d, field)
    nB = len(B)
    fn = impl_psd_fun(numqi, fun)
    site = '_torch_op/' + fun_name(fun)
    s_rep = 1 if fun[0] == 'sqrtm' else fun[1]
    for batch in case['batches']:
        # batch: (shape, [ (spec_name, basis) ... ])
        shape, elems = tuple(batch[0]), [tuple(e) for e in batch[1]]
        mats, in_dom, conds = [], True, []
        for spec_name, basis in elems:
            M, ev, dom = psd_matrix(A, d, field, spec_name, basis)
            mats.append(M)
            in_dom = in_dom and dom
            conds.append(ev.max() / max(ev.min(), 1e-300))
        nb = len(mats)
        A0 = np.stack(mats).reshape(shape + (d, d))
        det = dict(function=fun_name(fun), args=list(fun[1:]), d=d, field=field, batch_shape=list(shape), spectra=[e[0] for e in elems], bases=[e[1] for e in elems], input=A0,
                   dtype='float32' if f32 else 'float64')
        out.state()
        t = torch.zeros(nb, nB, dtype=torch.float64, requires_grad=True)
        Bt = torch.tensor(np.stack(B))
        At = torch.tensor(A0) + torch.einsum('bk,kij->bij', t.to(Bt.dtype), Bt).reshape(shape + (d, d))
        if f32:
            At = At.to(torch.complex64 if field == 'c' else torch.float32)
        try:
            val = fn(At)
            comp = (torch.view_as_real(val) if field == 'c' else val).reshape(-1)
            J_impl = np.zeros((comp.numel(), nb * nB))
            for k in range(comp.numel()):
                out.trans()
                g, = torch.autograd.grad(comp[k], t, retain_graph=True)
                J_impl[k] = g.numpy().reshape(-1)
        except Exception as e:  # noqa
            if not in_dom:
                out.count('outside_math_domain')
                out.count('outside_math_domain_raised[%s]' % type(e).__name__)
                continue
            out.violation('%s/%s' % (site, type(e).__name__), '%s forward/backward raised %s: %s' % (fun_name(fun), type(e).__name__, str(e)[:200]), **det)
            continue
        if not in_dom:
            out.count('outside_math_domain')
            out.count('outside_math_domain_gradient_finite' if np.all(np.isfinite(J_impl)) else 'outside_math_domain_gradient_nonfinite')
            out.outcome(('outside', fun, d, field, bool(np.all(np.isfinite(J_impl)))), nontrivial=False)
            continue
        val_np = val.detach().numpy().astype(np.complex128).reshape(nb, d, d)
        ncomp = (2 if field == 'c' else 1) * d * d
        J_ref = np.zeros((nb * ncomp, nb * nB))
        val_ref = np.zeros((nb, d, d), dtype=np.complex128)
        for b in range(nb):
            v, dfun = ref_psd_fun(fun, mats[b])
            val_ref[b] = v
            for k in range(nB):
                J_ref[b * ncomp:(b + 1) * ncomp, b * nB + k] = real_components(dfun(B[k]), field)
        # tolerance c*eps*kappa: the spectral factors lambda^(1/2^k) carry the relative error eps*cond(A) of the smallest eigenvalue,
        # every Jacobian entry is a sum of d^2 products of such factors (bounded by |J|_max); the Pade stage forms
        # 2^(s-1) * (T - 1) with T = A^(1/2^s) -> 1, i.e. amplifies absolute errors of T by 2^s.
        kap = d * d * max(conds) * (2**s_rep if fun[0] == 'logm' else 1.0)
        Jmax = max(1.0, float(np.abs(J_ref).max()))
        tol = C_SAFE * eps * kap * Jmax
        vmax = max(1.0, float(np.abs(val_ref).max()))
        if not np.all(np.isfinite(J_impl)):
            out.violation(site + '/backward/nonfinite/' + '+'.join(sorted({e[0] for e in elems})), '%s backward returns NaN/Inf on a positive definite input' % fun_name(fun), delivered=J_impl, **det)
            continue
        if C_SAFE * eps * kap >= 0.1:
            # a wrong rule changes the Jacobian by O(|J|_max); a derived tolerance of >= 0.1 |J|_max cannot separate that from rounding:
            # only finiteness was decided (tiny eigenvalue 1e-12; Pade logarithm of a float32 input)
            out.count('skipped_ill_conditioned[c*eps*kappa >= 0.1]')
            out.outcome(('undecided', fun, d, field, f32), nontrivial=False)
            continue
        if np.abs(val_np - val_ref).max() > C_SAFE * eps * kap * vmax:
            out.violation(site + '/forward/mismatch', '%s forward differs from the reference by %.3g' % (fun_name(fun), np.abs(val_np - val_ref).max()), observed=val_np, expected=val_ref, **det)
            continue
        # guard: central differences of the implementation's own forward along every basis direction
        scale = min(float(np.abs(m).max()) for m in mats)
        h = 1e-5 * scale
        lam_min = min(float(np.linalg.eigvalsh(m)[0]) for m in mats)
        J_fd = np.full_like(J_ref, np.nan)
        if f32 or h >= lam_min / 100:
            # the guard validates the REFERENCE; float32 forwards are too coarse for it (the same reference is guarded in the float64 case)
            # and a step that is not small against the smallest eigenvalue leaves the PSD cone
            out.count('fd_guard_not_applicable[%s]' % ('float32' if f32 else 'step >= lambda_min/100'))
        else:
            with torch.no_grad():
                for b in range(nb):
                    for k in range(nB):
                        dA = np.zeros((nb, d, d), dtype=A0.dtype)
                        dA[b] = B[k]
                        dA = dA.reshape(A0.shape)
                        vp = fn(torch.tensor(A0 + h * dA)).numpy()
                        vm = fn(torch.tensor(A0 - h * dA)).numpy()
                        J_fd[:, b * nB + k] = real_components((vp - vm) / (2 * h), field)
            # truncation h^2/6 |f'''(lambda)| |dA|^3: f''' = 2 / lambda^3 (log), 3/8 lambda^(-5/2) (square root; higher roots are smaller),
            # 2 d^(3/2) covers the non-commutative divided differences; rounding eps kappa |f| / h
            k3 = 2 * d**1.5 * max(lam_min**-3.0, lam_min**-2.5)
            tol_fd = (h * h / 6) * k3 + C_SAFE * EPS * kap * vmax / h
            if np.abs(J_fd - J_ref).max() > tol_fd:
                raise OracleDisagreement('C04 psd: analytic reference and finite differences of an agreeing forward differ: %s d=%d %s %s err=%.3g tol=%.3g'
                                         % (fun, d, field, elems, np.abs(J_fd - J_ref).max(), tol_fd))
        err = np.abs(J_impl - J_ref)
        if err.max() > tol:
            k, j = np.unravel_index(np.argmax(err), err.shape)
            b_out, b_in = k // ncomp, j // nB
            cls = 'cross_batch' if b_out != b_in else ('degenerate_spectrum' if any(e[0].startswith('deg') or e[0] == 'near' for e in elems) else 'generic_spectrum')
            out.violation('%s/backward/wrong_gradient/%s' % (site, cls),
                          '%s%s: d out[%d] / d (direction %d) delivered %.12g, true %.12g, finite difference %.12g (d=%d %s, batch %s, spectra %s)'
                          % (fun_name(fun), tuple(fun[1:]), k, j, J_impl[k, j], J_ref[k, j], J_fd[k, j], d, field, shape, [e[0] for e in elems]),
                          delivered=J_impl, expected=J_ref, tol=tol, **det)
        out.outcome((fun, d, field, f32, np.round(J_impl, 5)), nontrivial=bool(np.abs(J_impl).max() > 1e-9))
        # ---- memory forms of the cotangent: the output is permuted / transposed / sliced / conjugated before a generic linear loss.
        # The backward is linear in the cotangent: the gradient must be the same contraction of the basis Jacobian delivered above.
        nv = nb * d * d
        W = ((A['g'][:nv] + 1j * A['g2'][:nv]) if field == 'c' else A['g'][:nv].astype(np.float64)).reshape(shape + (d, d))
        for form in PSD_COT_FORMS:
            Wfull = np.zeros_like(W)
            if form == 'conj':
                if field != 'c':
                    continue
                lossf = lambda v_: (v_.conj() * torch.tensor(W)).sum().real  # noqa
                Wfull = W.conj()
            elif form == 'expand':
                lossf = lambda v_: v_.sum().real if field == 'c' else v_.sum()  # noqa
                Wfull[...] = 1
            else:
                view = psd_cot_form(form, Wfull, len(shape))
                if view is None or view.size == 0:
                    continue
                Wv = np.ascontiguousarray(psd_cot_form(form, W, len(shape)))
                view[...] = Wv
                lossf = lambda v_: ((psd_cot_form(form, v_, len(shape)) * torch.tensor(Wv)).sum().real if field == 'c' else (psd_cot_form(form, v_, len(shape)) * torch.tensor(Wv)).sum())  # noqa
            if form in ('batch_swap', 'batch_mat_mix') and fun[0] != 'logm' and pending(out, 'noncontig_cotangent_psd'):
                continue
            out.trans()
            # loss = Re sum(val * Wfull) = sum_k w_k comp_k with w = real components of conj(Wfull)
            w_eff = real_components(Wfull.conj(), field)
            try:
                g, = torch.autograd.grad(lossf(val), t, retain_graph=True)
            except Exception as e:  # noqa
                out.violation('%s/backward/cotangent[%s]/%s' % (site, form, type(e).__name__), '%s: backward of a %s output raised %s: %s' % (fun_name(fun), form, type(e).__name__, str(e)[:200]), cotangent_form=form, **det)
                continue
            g = g.numpy().reshape(-1)
            g_exp = w_eff @ J_impl
            tol_c = tol * max(1.0, float(np.abs(w_eff).sum()))
            if not np.all(np.isfinite(g)) or np.abs(g - g_exp).max() > tol_c:
                out.violation('%s/backward/cotangent[%s]/wrong_gradient' % (site, form), '%s: the gradient of a linear loss of the %s output differs from the same contraction of the basis Jacobian by %.3g'
                              % (fun_name(fun), form, np.abs(g - g_exp).max()), cotangent_form=form, delivered=g, expected=g_exp, tol=tol_c, **det)
            out.outcome(('cot', fun, d, field, form, np.round(g, 5)), nontrivial=bool(np.abs(g).max() > 1e-9))
        out.trace()
    out.sample = {'kind': 'psd', 'function': fun_name(fun), 'args': list(fun[1:]), 'd': d, 'field': field, 'batches': case['batches'][:2], 'dtype': 'float32' if f32 else 'float64'}


def psd_batches(d, tier, f32=False):
    if d == 1:
        single = [[[], [[nm, 'eye']]] for nm in (('gen', 'x1e3') if f32 else ('gen', 'x1e3', 'x1e-3', 'tiny8', 'rank-1'))]
        return single + [[[2], [['gen', 'eye'], ['x1e3', 'eye']]], [[2, 2], [['gen', 'eye'], ['x1e3', 'eye'], ['x1e-3', 'eye'], ['gen', 'eye']]]]
    dg = 'deg2' if d > 2 else 'degall'
    if f32:
        return [[[], [['gen', 'U']]], [[], [[dg, 'U']]], [[], [['near', 'W']]], [[], [['x1e3', 'eye']]], [[2], [['gen', 'U'], [dg, 'W']]],
                [[2, 2], [['gen', 'U'], [dg, 'W'], ['near', 'U'], ['x1e3', 'W']]]]
    names = ['gen', 'deg2' if d > 2 else 'degall', 'near', 'x1e3', 'x1e-3', 'rank-1', 'tiny8', 'tiny12']
    if d >= 3:
        names += ['zero+tiny8']
    if d >= 3:
        names += ['deg3' if d > 3 else 'degall', 'rank-2']
    if d >= 4:
        names += ['degall', 'deg2+2']
    single = [[[], [[nm, bs]]] for nm in names for bs in (('U', 'eye') if tier == 'quick' else ('U', 'W', 'eye'))]
    dg = 'deg2' if d > 2 else 'degall'
    multi = [[[1], [['gen', 'U']]], [[2], [['gen', 'U'], [dg, 'W']]], [[2], [[dg, 'U'], [dg, 'eye']]], [[1, 2], [['near', 'W'], ['gen', 'eye']]],
             [[2, 2], [['gen', 'U'], [dg, 'W'], ['near', 'U'], ['x1e3', 'W']]], [[2], [['gen', 'U'], ['rank-1', 'eye']]]]
    return single + multi


# ------------------------------------------------------------------------------------------------ Knill-Laflamme inner product
def kl_sequences(n):
    """every operator sequence of length 1..2: (ordered target tuple of size 1..2, generic non-Hermitian operator)"""
    tuples = [t for k in (1, 2) for t in itertools.permutations(range(n), k)]
    seqs = [[(t, 'A')] for t in tuples]
    seqs += [[(t1, 'A'), (t2, 'B')] for t1 in tuples for t2 in tuples]
    # the empty sequence (E = identity) and sequences of length 3 (every ordered pair wiring in the middle, fixed outer operators)
    seqs += [[]]
    seqs += [[((0,), 'A'), (t2, 'B'), ((n - 1, 0), 'A')] for t2 in tuples]
    return seqs


def run_kl(case, out, env):
    import numqi
    import torch
    A = atoms(env)
    n, K = case['n'], case['K']
    D = 2**n
    opmat = {('A', 1): A['M1'], ('B', 1): A['N1'], ('A', 2): A['M2'], ('B', 2): A['M2'].T.copy()}
    seqs = kl_sequences(n)[case['lo']:case['hi']]
    q_np = (A['g'][:K * D] + 1j * A['g2'][:K * D]).reshape(K, D)
    op_list = [[(list(t), opmat[(nm, len(t))]) for t, nm in seq] for seq in seqs]
    E = []
    for seq in seqs:
        W = np.eye(D, dtype=np.complex128)
        for t, nm in seq:  # applied in list order: the last one is the leftmost factor
            W = ref.embed(opmat[(nm, len(t))], list(t), n) @ W
        E.append(W)
    site = 'qec/knill_laflamme_inner_product'
    det = dict(n=n, logical_dim=K, sequences=[[(list(t), nm) for t, nm in s_] for s_ in seqs], A1=A['M1'], B1=A['N1'], A2=A['M2'], B2='A2.T', q0=q_np)
    out.state()
    tq = torch.tensor(np.stack([q_np.real, q_np.imag]), dtype=torch.float64, requires_grad=True)
    try:
        val = numqi.qec.knill_laflamme_inner_product(torch.complex(tq[0], tq[1]), op_list)
        val_numpy_path = numqi.qec.knill_laflamme_inner_product(q_np.copy(), op_list)
        comp = torch.view_as_real(val).reshape(-1)
        J_impl = np.zeros((comp.numel(), 2 * K * D))
        for k in range(comp.numel()):
            out.trans()
            g, = torch.autograd.grad(comp[k], tq, retain_graph=True)
            J_impl[k] = g.numpy().reshape(-1)
    except Exception as e:  # noqa
        out.violation('%s/%s' % (site, type(e).__name__), 'knill_laflamme_inner_product forward/backward raised %s: %s' % (type(e).__name__, str(e)[:200]), **det)
        return
    # reference: f[e,a,b] = <q_a| E_e |q_b>
    val_ref = np.stack([q_np.conj() @ W @ q_np.T for W in E])
    J_ref = np.zeros((len(E), K, K, 2, 2, K, D))  # [e,a,b,(re,im) of output, (re,im) of input, c, k]
    for e_, W in enumerate(E):
        Wq = W @ q_np.T          # [k, b]
        qW = q_np.conj() @ W     # [a, k]
        for c in range(K):
            d_re = np.zeros((K, K, D), dtype=np.complex128)  # derivative w.r.t. Re q[c,k]
            d_im = np.zeros((K, K, D), dtype=np.complex128)
            d_re[c, :, :] += Wq.T             # a == c : conj(dq_a) -> e_k^T W q_b
            d_im[c, :, :] += -1j * Wq.T
            d_re[:, c, :] += qW               # b == c
            d_im[:, c, :] += 1j * qW
            J_ref[e_, :, :, 0, 0, c, :] = d_re.real
            J_ref[e_, :, :, 1, 0, c, :] = d_re.imag
            J_ref[e_, :, :, 0, 1, c, :] = d_im.real
            J_ref[e_, :, :, 1, 1, c, :] = d_im.imag
    J_ref = J_ref.reshape(len(E) * K * K * 2, 2 * K * D)
    # tolerance c*eps*kappa: <= 2 gate applications (4 terms each) + one contraction over 2^n terms, magnitudes ||E||_2 ||q||^2
    opn = max(float(np.linalg.norm(W, 2)) for W in E)
    qn = float(np.linalg.norm(q_np))
    # (sequences of length 3: 3 applications)
    tol = C_SAFE * EPS * (max(8, 4 * max(len(s_) for s_ in seqs)) + D) * max(1.0, opn) * max(1.0, qn * qn)
    vn = val.detach().numpy()
    if vn.shape != val_ref.shape or np.abs(vn - val_ref).max() > tol or np.abs(np.asarray(val_numpy_path) - val_ref).max() > tol:
        out.violation(site + '/forward/mismatch', 'knill_laflamme_inner_product forward (torch / numpy path) differs from <q_a|E|q_b>', observed=vn, expected=val_ref, **det)
        return
    err = np.abs(J_impl - J_ref)
    if not np.all(np.isfinite(J_impl)) or err.max() > tol:
        k, j = np.unravel_index(np.argmax(np.nan_to_num(err, nan=np.inf)), err.shape)
        e_ = k // (K * K * 2)
        cls = {0: 'no_op', 1: 'one_op', 2: 'two_ops', 3: 'three_ops'}[len(seqs[e_])]
        out.violation('%s/backward/wrong_gradient/%s' % (site, cls),
                      'knill_laflamme_inner_product backward: d out[%d] / d q[%d] delivered %.12g, true %.12g for the sequence %s (n=%d, logical dim %d)'
                      % (k, j, J_impl[k, j], J_ref[k, j], [(list(t), nm) for t, nm in seqs[e_]], n, K), delivered=J_impl, expected=J_ref, tol=tol, **det)
    out.outcome((n, K, case['lo'], np.round(J_impl, 5)), nontrivial=bool(np.abs(J_impl).max() > 1e-9))
    # ---- memory forms of the cotangent (the backward is linear in it): same contraction of the basis Jacobian delivered above
    nv = len(E) * K * K
    W = (A['g'][:nv] + 1j * A['g2'][:nv]).reshape(len(E), K, K)
    Wt = torch.tensor(W)
    forms = {'conj': (lambda v_: (v_.conj() * Wt).sum().real, W.conj()),                                    # conjugate bit set
             'transpose': (lambda v_: (v_.transpose(1, 2) * Wt).sum().real, W.transpose(0, 2, 1)),            # non-contiguous
             'flip_ops': (lambda v_: (v_.flip(0) * Wt).sum().real, W[::-1]),
             'expand': (lambda v_: v_.sum().real, np.ones_like(W))}
    for form, (lossf, Wfull) in forms.items():
        out.trans()
        w_eff = real_components(np.conj(Wfull), 'c')      # loss = Re sum(val * Wfull)
        try:
            g, = torch.autograd.grad(lossf(val), tq, retain_graph=True)
        except Exception as e:  # noqa
            out.violation('%s/backward/cotangent[%s]/%s' % (site, form, type(e).__name__), 'backward of a %s output raised %s: %s' % (form, type(e).__name__, str(e)[:200]), cotangent_form=form, **det)
            continue
        g = g.numpy().reshape(-1)
        g_exp = w_eff @ J_impl
        tol_c = tol * max(1.0, float(np.abs(w_eff).sum()))
        if not np.all(np.isfinite(g)) or np.abs(g - g_exp).max() > tol_c:
            out.violation('%s/backward/cotangent[%s]/wrong_gradient' % (site, form), 'the gradient of a linear loss of the %s output differs from the same contraction of the basis Jacobian by %.3g' % (form, np.abs(g - g_exp).max()),
                          cotangent_form=form, delivered=g, expected=g_exp, tol=tol_c, **det)
        out.outcome(('cot', n, K, case['lo'], form, np.round(g, 5)), nontrivial=bool(np.abs(g).max() > 1e-9))
    out.trace()
    out.sample = {'kind': 'kl', 'n': n, 'logical_dim': K, 'sequences': det['sequences'][:3]}


# ------------------------------------------------------------------------------------------------ flat-parameter bridge to scipy
BRIDGE_SHAPES = {'b': (2,), 'a': (2, 2), 'w': (), 'u': (2,)}


def bridge_poly(x, Wd, Wc):
    """f(x) = sum_i Wd_i x_i^2 / 2 + sum_{i<j} Wc_ij x_i x_j (Wc strictly upper triangular): gradient Wd x + (Wc + Wc^T) x"""
    return float(0.5 * np.dot(Wd, x * x) + x @ Wc @ x), Wd * x + (Wc + Wc.T) @ x


def _scatter(pos, vals):
    ret = np.zeros(len(pos))
    ret[pos] = vals
    return ret


def run_bridge(case, out, env):
    import numqi
    import torch
    A = atoms(env)
    order, frozen, stale, custom = case['order'], set(case['frozen']), case['stale'], case['custom']
    f32, unused = case.get('dtype') == 'f32', case.get('unused', False)
    if unused and pending(out, 'unused_parameter'):
        return
    tdt = torch.float32 if f32 else torch.float64
    # float32 parameters: the loss is evaluated in float32 at the float32-rounded parameters, eps(float32) in every tolerance
    eps = float(np.finfo(np.float32).eps) if f32 else EPS
    rnd = (lambda v_: np.asarray(v_, dtype=np.float32).astype(np.float64)) if f32 else (lambda v_: np.asarray(v_, dtype=np.float64))
    sizes = {k: int(np.prod(v)) if v else 1 for k, v in BRIDGE_SHAPES.items()}
    # canonical (harness) variable order: a (4), b (2), w (1) [, u (2): trainable, registered, NOT used by the loss]; initial values = pairwise separated tags
    canon = ['a', 'b', 'w'] + (['u'] if unused else [])
    order = list(order[:1]) + (['u'] if unused else []) + list(order[1:])
    off = {}
    c = 0
    for k in canon:
        off[k] = c
        c += sizes[k]
    tags = rnd(A['theta'][:c])
    c_used = c - (sizes['u'] if unused else 0)
    Wd = rnd(1.0 + A['const'][:c])
    Wc = rnd(np.triu(A['g'][:c * c].reshape(c, c), k=1))
    Wd[c_used:] = 0
    Wc[c_used:] = 0
    Wc[:, c_used:] = 0

    class Sub(torch.nn.Module):
        def __init__(self, v):
            super().__init__()
            self.w = torch.nn.Parameter(torch.tensor(v, dtype=tdt), requires_grad='w' not in frozen)

    class BModel(torch.nn.Module):
        def __init__(self):
            super().__init__()
            for k in order:
                v = tags[off[k]:off[k] + sizes[k]].reshape(BRIDGE_SHAPES[k])
                if k == 'w':
                    self.c = Sub(v)
                else:
                    setattr(self, k, torch.nn.Parameter(torch.tensor(v, dtype=tdt), requires_grad=k not in frozen))
            self.Wd = torch.tensor(Wd[:c_used], dtype=tdt)
            self.Wc = torch.tensor(Wc[:c_used, :c_used], dtype=tdt)
            self.n_custom_backward = 0

        def forward(self):
            x = torch.concat([self.a.reshape(-1), self.b.reshape(-1), self.c.w.reshape(-1)])
            return 0.5 * torch.dot(self.Wd, x * x) + x @ self.Wc @ x
    model = BModel()
    if custom:
        def grad_backward(loss):
            model.n_custom_backward += 1
            loss.backward()
        model.grad_backward = grad_backward
    det = dict(registration_order=order, frozen=sorted(frozen), stale_grad=stale, custom_grad_backward=custom, initial_values=tags, parameter_dtype='float32' if f32 else 'float64', unused_parameter=unused)
    out.state()
    site = 'optimize/hf_model_wrapper'
    try:
        flat0 = numqi.optimize.get_model_flat_parameter(model)
        train = [k for k in canon if k not in frozen]
        ttags = np.concatenate([tags[off[k]:off[k] + sizes[k]] for k in train])
        pos = match_by_value(flat0, list(ttags))
        if pos is None:
            out.violation('optimize/get_model_flat_parameter/not_the_trainable_parameters', 'flat parameter vector %s is not a permutation of the trainable values %s' % (flat0.tolist(), ttags.tolist()), **det)
            return
        pos = np.array(pos)
        tidx = np.concatenate([np.arange(off[k], off[k] + sizes[k]) for k in train])  # canonical index of the j-th trainable tag
        hf = numqi.optimize.hf_model_wrapper(model)
        if stale:
            for v in model.parameters():
                if v.requires_grad:
                    v.grad = torch.full_like(v, 7.5)
        x_full = tags.copy()
        prev = None
        for rep, scale in enumerate((1.0, -0.7, -0.7)):
            theta = flat0.astype(np.float64) * scale + 0.1 * rep     # scipy hands float64 to the wrapper whatever the parameter dtype
            x_full[tidx] = rnd(theta[pos])
            f_ref, g_full = bridge_poly(x_full, Wd, Wc)
            out.trans()
            fval, grad = hf(theta.copy())
            # exact polynomial of <= c^2 terms with |coefficients| <= 8, |x| <= 7: kappa = c^2 * 8 * 49
            tol = C_SAFE * eps * c * c * 8 * 49
            d2 = dict(call=rep, theta=theta, **det)
            if abs(fval - f_ref) > tol:
                out.violation(site + '/fval/mismatch', 'hf(theta) returned fval %.12g, the loss at theta is %.12g' % (fval, f_ref), **d2)
            g = np.asarray(grad)
            if g.shape != theta.shape or g.dtype != theta.dtype:
                out.violation(site + '/grad/shape_or_dtype', 'gradient has shape %s dtype %s for theta of shape %s dtype %s' % (g.shape, g.dtype, theta.shape, theta.dtype), **d2)
                return
            if np.abs(g[pos] - g_full[tidx]).max() > tol:
                dev = g[pos] - g_full[tidx]
                cls = 'wrong_order_or_value'
                if prev is not None and np.abs(dev - prev).max() <= tol:
                    cls = 'accumulates_over_calls'
                elif stale and rep == 0 and np.abs(dev - 7.5).max() <= tol:
                    cls = 'stale_grad_not_cleared'
                out.violation(site + '/grad/' + cls, 'hf(theta)[1] = %s, true gradient in the same ordering = %s' % (g.tolist(), _scatter(pos, g_full[tidx]).tolist()), **d2)
            prev = g_full[tidx]
            # the same gradient through the public flat-gradient reader (exactly the values hf returned, in the same order)
            try:
                g2 = np.asarray(numqi.optimize.get_model_flat_grad(model))
                if g2.shape != g.shape or np.abs(g2.astype(np.float64) - g).max() > 0:
                    out.violation('optimize/get_model_flat_grad/differs_from_hf_gradient', 'get_model_flat_grad(model) = %s after hf(theta) returned %s' % (g2.tolist(), g.tolist()), **d2)
            except Exception as e:  # noqa
                if core.exc_site(e) is None:
                    raise
                out.violation('optimize/get_model_flat_grad/%s' % type(e).__name__, 'get_model_flat_grad raised %s: %s' % (type(e).__name__, str(e)[:200]), **d2)
            if np.abs(numqi.optimize.get_model_flat_parameter(model) - theta).max() > (eps * np.abs(theta).max() if f32 else 0):
                out.violation(site + '/parameters_not_set', 'after hf(theta) the model parameters are not theta', **d2)
            out.trans()
            f2 = hf(theta.copy(), tag_grad=False)
            if not isinstance(f2, float) or abs(f2 - f_ref) > tol:
                out.violation(site + '/tag_grad_false', 'hf(theta, tag_grad=False) returned %r, expected the float %.12g' % (f2, f_ref), **d2)
            out.outcome((tuple(order), tuple(sorted(frozen)), rep, np.round(g, 6)), nontrivial=bool(np.abs(g).max() > 1e-9))
        for k in frozen:
            v = (model.c.w if k == 'w' else getattr(model, k)).detach().numpy().reshape(-1)
            if np.abs(v - tags[off[k]:off[k] + sizes[k]]).max() > 0:
                out.violation(site + '/frozen_parameter_modified', 'the frozen parameter %s was overwritten' % k, **det)
        if custom and model.n_custom_backward != 3:
            out.violation(site + '/custom_grad_backward_not_used', 'model.grad_backward was called %d times for 3 gradient evaluations' % model.n_custom_backward, **det)
    except Exception as e:  # noqa
        if core.exc_site(e) is None:
            raise
        out.violation('%s/%s' % (site, type(e).__name__), 'flat-parameter bridge raised %s: %s' % (type(e).__name__, str(e)[:200]), **det)
        return
    out.trace()
    out.sample = {'kind': 'bridge', **{k: v for k, v in det.items() if k != 'initial_values'}}


# ------------------------------------------------------------------------------------------------ entropies built on the Pade logarithm
def run_entropy(case, out, env):
    import numqi
    import torch
    A = atoms(env)
    d, field, method = case['d'], case['field'], tuple(case['method'])
    fun = ('logm', method[1], method[2])
    B = herm_basis(d, field)
    nB = len(B)
    Bt = torch.tensor(np.stack(B))
    site = 'utils'
    for spec_name in case['spectra']:
        M, ev, _ = psd_matrix(A, d, field, spec_name, 'U')
        M2, ev2, _ = psd_matrix(A, d, field, 'gen', 'W')
        F, dF = ref_psd_fun(fun, M)
        F2, _ = ref_psd_fun(fun, M2)
        kap = d * d * (ev.max() / ev.min()) * 2**method[1]
        det = dict(d=d, field=field, method=list(method), spectrum=spec_name, input=M, other=M2)
        w, V = np.linalg.eigh(M)
        logM_exact = (V * np.log(w)) @ V.conj().T

        def impl(f):
            t = torch.zeros(nB, dtype=torch.float64, requires_grad=True)
            X = torch.tensor(M) + torch.einsum('k,kij->ij', t.to(Bt.dtype), Bt)
            val = f(X)
            g, = torch.autograd.grad(val, t)
            return float(val), g.numpy()
        tests = []
        # S(rho) = -tr(rho log rho) with the Pade logarithm
        tests.append(('get_von_neumann_entropy', lambda X: numqi.utils.get_von_neumann_entropy(X, method),
                      -np.trace(M.conj().T @ F).real, np.array([-(np.trace(b.conj().T @ F) + np.trace(M.conj().T @ dF(b))).real for b in B])))
        # S(rho2 || sigma) differentiated w.r.t. sigma
        rho2 = torch.tensor(M2)
        c0 = float(np.sum(ev2 * np.log(ev2)))
        tests.append(('get_relative_entropy[d sigma]', lambda X: numqi.utils.get_relative_entropy(rho2, X, None, method),
                      c0 - np.trace(M2.conj().T @ F).real, np.array([-np.trace(M2.conj().T @ dF(b)).real for b in B])))
        tests.append(('get_relative_entropy[d sigma, given tr_rho_log_rho]', lambda X: numqi.utils.get_relative_entropy(rho2, X, 0.25, method),
                      0.25 - np.trace(M2.conj().T @ F).real, np.array([-np.trace(M2.conj().T @ dF(b)).real for b in B])))
        # S(rho || sigma2) differentiated w.r.t. rho: -Re<rho, logPade(sigma2)> + sum lambda log lambda (exact eigenvalues)
        tests.append(('get_relative_entropy[d rho]', lambda X: numqi.utils.get_relative_entropy(X, rho2, None, method),
                      float(np.sum(w * np.log(w))) - np.trace(M.conj().T @ F2).real,
                      np.array([(-np.trace(b.conj().T @ F2) + np.trace(b @ (logM_exact + np.eye(d)))).real for b in B])))
        for name, f, v_ref, g_ref in tests:
            out.state()
            out.trans()
            try:
                v, g = impl(f)
            except Exception as e:  # noqa
                out.violation('%s/%s/%s' % (site, name.split('[')[0], type(e).__name__), '%s raised %s: %s' % (name, type(e).__name__, str(e)[:200]), **det)
                continue
            # same amplification as the logm Jacobian (see run_psd), contracted with a matrix of norm <= |M|_F |log|
            scale = max(1.0, float(np.abs(g_ref).max()), float(np.linalg.norm(M)) * float(np.abs(F).max()), float(np.linalg.norm(M2)) * float(np.abs(F).max()))
            tol = C_SAFE * EPS * kap * scale
            if abs(v - v_ref) > tol:
                out.violation('%s/%s/forward/mismatch' % (site, name.split('[')[0]), '%s = %.12g, reference %.12g' % (name, v, v_ref), **det)
                continue
            if not np.all(np.isfinite(g)) or np.abs(g - g_ref).max() > tol:
                out.violation('%s/%s/wrong_gradient' % (site, name), '%s: delivered gradient %s, true %s' % (name, g.tolist(), g_ref.tolist()), delivered=g, expected=g_ref, tol=tol, **det)
            out.outcome((name, d, field, spec_name, np.round(g, 6)), nontrivial=bool(np.abs(g).max() > 1e-9))
        # batched entropy
        out.state()
        out.trans()
        t = torch.zeros(2, nB, dtype=torch.float64, requires_grad=True)
        X = torch.tensor(np.stack([M, M2])) + torch.einsum('bk,kij->bij', t.to(Bt.dtype), Bt)
        try:
            val = numqi.utils.get_von_neumann_entropy(X, method)
            gb = np.stack([torch.autograd.grad(val[i], t, retain_graph=True)[0].numpy() for i in range(2)])
            _, dF2 = ref_psd_fun(fun, M2)
            exp = np.zeros((2, 2, nB))
            exp[0, 0] = tests[0][3]
            exp[1, 1] = np.array([-(np.trace(b.conj().T @ F2) + np.trace(M2.conj().T @ dF2(b))).real for b in B])
            if val.shape != (2,) or np.abs(gb - exp).max() > C_SAFE * EPS * kap * max(1.0, np.abs(exp).max()):
                out.violation('utils/get_von_neumann_entropy/wrong_gradient/batched', 'batched entropy gradient differs from the per-sample gradient', delivered=gb, expected=exp, **det)
        except Exception as e:  # noqa
            out.violation('utils/get_von_neumann_entropy/%s/batched' % type(e).__name__, 'batched get_von_neumann_entropy raised %s: %s' % (type(e).__name__, str(e)[:200]), **det)
        out.trace()
    out.sample = {'kind': 'entropy', 'd': d, 'field': field, 'method': list(method), 'spectra': case['spectra']}


# ------------------------------------------------------------------------------------------------ variational models (losses)
def richardson_gradient(f, x, h):
    """4th-order central differences with an a-posteriori error estimate.
    D(h) = (f(x+h) - f(x-h)) / 2h = f' + c2 h^2 + c4 h^4 + ...;  R(h) = (4 D(h/2) - D(h)) / 3 = f' + O(h^4).
    Levels h, h/2, h/4, h/8 give R0, R1, R2 with errors shrinking by 16 per level in the asymptotic regime.
    Returns R2, e1 = |R0 - R1|, e2 = |R1 - R2| (e2 >= 15 x the truncation error of R2 when asymptotic) and max |f|."""
    n = len(x)
    D = np.zeros((4, n))
    fmax = 0.0
    for j in range(n):
        for i in range(4):
            hh = h / 2**i
            xp, xm = x.copy(), x.copy()
            xp[j] += hh
            xm[j] -= hh
            a, b = f(xp), f(xm)
            fmax = max(fmax, abs(a), abs(b))
            D[i, j] = (a - b) / (2 * hh)
    R = [(4 * D[i + 1] - D[i]) / 3 for i in range(3)]
    return R[2], np.abs(R[0] - R[1]), np.abs(R[1] - R[2]), fmax


def model_factory(numqi, name, cfg, A):
    """-> (torch module whose forward() is the loss, description)"""
    import torch
    if name == 'to_stiefel_polar':
        dim, rank, field, batch = cfg
        npar = dim * rank * (2 if field == 'c' else 1)
        C = (A['g2'][200:200 + dim * rank] + 1j * A['g'][250:250 + dim * rank]).reshape(dim, rank)  # not proportional to any lattice point

        class M(torch.nn.Module):
            def __init__(self):
                super().__init__()
                self.theta = torch.nn.Parameter(torch.zeros((npar,) if batch is None else (batch, npar), dtype=torch.float64))
                self.C = torch.tensor(C if field == 'c' else C.real)

            def forward(self):
                Q = numqi.manifold.to_stiefel_polar(self.theta, dim, rank)
                tmp = (Q.conj() * self.C).sum(dim=(-2, -1))
                tmp = tmp.real if field == 'c' else tmp
                return tmp.sum() if batch is None else (tmp * torch.arange(1, batch + 1, dtype=torch.float64)).sum()
        return M()
    if name == 'Stiefel[polar]':
        dim, rank, field, batch = cfg
        C = (A['g2'][200:200 + dim * rank] + 1j * A['g'][250:250 + dim * rank]).reshape(dim, rank)

        class M2(torch.nn.Module):
            def __init__(self):
                super().__init__()
                self.manifold = numqi.manifold.Stiefel(dim, rank, batch_size=batch, method='polar', dtype=torch.complex128 if field == 'c' else torch.float64)
                self.C = torch.tensor(C if field == 'c' else C.real)

            def forward(self):
                tmp = (self.manifold().conj() * self.C).sum(dim=(-2, -1))
                tmp = tmp.real if field == 'c' else tmp
                return tmp if batch is None else (tmp * torch.arange(1, batch + 1, dtype=torch.float64)).sum()
        return M2()
    if name == 'AutodiffCHAREE':
        dA, dB, num_state, kind = cfg
        m = numqi.entangle.AutodiffCHAREE((dA, dB), num_state, distance_kind=kind)
        m.set_dm_target(ref_dm(A, dA * dB, None))
        return m
    if name == 'PureBosonicExt':
        dA, dB, kext, kind = cfg
        m = numqi.entangle.PureBosonicExt(dA, dB, kext, distance_kind=kind)
        m.set_dm_target(ref_dm(A, dA * dB, None))
        return m
    if name == 'VarQEC':
        nq, K, loss_type, shared = cfg
        circ = numqi.sim.Circuit(default_requires_grad=True)
        g0 = None
        for q in range(nq):
            g = circ.u3(q, (0.1, 0.2, 0.3))
            g0 = g0 or g
        for q in range(nq):
            circ.cu3(q, (q + 1) % nq, (0.1, 0.2, 0.3))
        for q in range(nq):
            circ.ry(q, 0.3)
        if shared:
            circ.append_gate(g0, nq - 1)
        return numqi.qec.VarQEC(circ, K, numqi.qec.make_error_list(nq, 2), loss_type=loss_type)
    if name == 'VarQECUnitary':
        nq, K, loss_type = cfg
        return numqi.qec.VarQECUnitary(nq, K, numqi.qec.make_error_list(nq, 2), loss_type=loss_type)
    if name in ('EntanglementFormationModel', 'ConcurrenceModel'):
        dA, dB, num_term, rank = cfg
        m = getattr(numqi.entangle, name)(dA, dB, num_term, rank)
        rho = ref_dm(A, dA * dB, rank)
        m.set_density_matrix(rho)
        return m
    if name == 'DensityMatrixGMEModel':
        dims, num_ensemble, rank, cprank = cfg
        m = numqi.entangle.DensityMatrixGMEModel(tuple(dims), num_ensemble, rank=rank, CPrank=cprank)
        m.set_density_matrix(ref_dm(A, int(np.prod(dims)), rank))
        return m
    if name == 'QueryGroverQuantumModel':
        nq, fractional = cfg
        circ = numqi.sim.Circuit(default_requires_grad=True)
        circ.register_custom_gate('oracle', numqi.query.FractionalGroverOracle if fractional else numqi.query.GroverOracle)
        for _ in range(2):
            for q in range(nq):
                circ.ry(q, 0.1)
                circ.rx(q, 0.2)
            for q in range(nq - 1):
                circ.cnot(q, q + 1)
            if fractional:
                circ.oracle(nq, 0.3)
            else:
                circ.oracle(nq)
        for q in range(nq):
            circ.ry(q, 0.1)
        return numqi.query.QueryGroverQuantumModel(circ)
    raise ValueError(name)


def ref_dm(A, d, rank):
    """deterministic generic density matrix of the given rank built from the atoms"""
    rank = d if rank is None else rank
    X = (A['g'][:d * rank] + 1j * A['g2'][100:100 + d * rank]).reshape(d, rank)
    rho = X @ X.conj().T
    return rho / np.trace(rho).real


MODEL_CONFIGS = {
    'quick': [
        ('to_stiefel_polar', (3, 2, 'c', None)), ('to_stiefel_polar', (4, 2, 'r', None)), ('to_stiefel_polar', (3, 3, 'c', None)), ('to_stiefel_polar', (4, 3, 'c', 2)),
        ('VarQEC', (3, 2, 'L2', False)), ('VarQEC', (3, 2, 'L2', True)), ('VarQECUnitary', (3, 2, 'L2')),
        ('EntanglementFormationModel', (2, 2, 4, None)), ('EntanglementFormationModel', (2, 3, 4, 2)),
        ('ConcurrenceModel', (2, 2, 4, None)), ('DensityMatrixGMEModel', ((2, 2), 4, 2, 1)), ('DensityMatrixGMEModel', ((2, 2), 3, 3, 2)),
        ('QueryGroverQuantumModel', (2, False)), ('QueryGroverQuantumModel', (2, True)),
    ],
}
MODEL_CONFIGS['thorough'] = MODEL_CONFIGS['quick'] + [
    ('to_stiefel_polar', (4, 4, 'c', None)), ('to_stiefel_polar', (5, 2, 'r', 3)), ('VarQEC', (3, 2, 'L1', False)), ('VarQEC', (4, 2, 'L2', True)), ('VarQEC', (3, 1, 'L2', False)),
    ('VarQECUnitary', (3, 3, 'L2')), ('VarQECUnitary', (4, 2, 'L1')), ('EntanglementFormationModel', (3, 2, 6, None)), ('ConcurrenceModel', (2, 3, 5, 3)),
    ('DensityMatrixGMEModel', ((2, 2, 2), 4, 2, 1)), ('DensityMatrixGMEModel', ((2, 3), 4, 4, 2)), ('QueryGroverQuantumModel', (3, True)),
    # models on the Pade logarithm / the polar square root that the first list does not reach (tiny sizes)
    # (relative entropy: the model state must have full rank - num_state >= dA dB product states, kext >= 4 for 2x2 - else log(sigma) is outside the domain)
    ('AutodiffCHAREE', (2, 2, 5, 'ree')), ('AutodiffCHAREE', (2, 2, 2, 'gellmann')), ('PureBosonicExt', (2, 2, 4, 'ree')), ('PureBosonicExt', (2, 2, 2, 'gellmann')),
    ('VarQEC', (3, 3, 'L2', False)), ('Stiefel[polar]', (3, 2, 'c', None)), ('Stiefel[polar]', (3, 2, 'r', 2)),
]
MODEL_POINTS = ['g*0.5', 'g*2', 'g2', 'ramp']


def run_model(case, out, env):
    import numqi
    import torch
    A = atoms(env)
    name, cfg = case['model'], case['cfg']
    cfg = tuple(tuple(c) if isinstance(c, list) else c for c in cfg)
    site = 'model/' + name
    det0 = dict(model=name, config=list(cfg))
    try:
        model = model_factory(numqi, name, cfg, A)
        p = len(numqi.optimize.get_model_flat_parameter(model))
        hf = numqi.optimize.hf_model_wrapper(model)
    except Exception as e:  # noqa
        if core.exc_site(e) is None:
            raise
        out.violation('%s/setup/%s' % (site, type(e).__name__), 'constructing %s%s raised %s: %s' % (name, cfg, type(e).__name__, str(e)[:200]), **det0)
        return
    for pt in case['points']:
        if pt == 'g*0.5':
            x = 0.5 * A['g'][:p]
        elif pt == 'g*2':
            x = 2 * A['g'][:p]
        elif pt == 'g2':
            x = A['g2'][:p].copy()
        else:
            x = 0.3 + 2.5 * np.arange(p) / max(1, p - 1) * (1 + 0.1 * np.cos(np.arange(p)))
        det = dict(point=pt, theta=x, **det0)
        out.state()
        out.trans()
        try:
            fval, grad = hf(x.copy())
            fval2, grad2 = hf(x.copy())
            R, e1, e2, fmax = richardson_gradient(lambda y: hf(y, tag_grad=False), x, H_RICH)
        except Exception as e:  # noqa
            if core.exc_site(e) is None:
                raise
            out.violation('%s/%s' % (site, type(e).__name__), '%s%s at point %s raised %s: %s' % (name, cfg, pt, type(e).__name__, str(e)[:200]), **det)
            continue
        if not (fval == fval2 and np.array_equal(grad, grad2)):
            out.violation(site + '/second_call_differs', 'two consecutive hf(theta) calls return different (fval, grad)', first=grad, second=grad2, **det)
        # oracle uncertainty (a posteriori). rounding of one difference quotient at the finest step: c * eps * max|f| / (h/8); the
        # Richardson combination (4 D(h/8) - D(h/4)) / 3 amplifies it by <= 4/3 + 2/3 * ... < 2. truncation: e2 = |R1 - R2| is 15x the
        # truncation error of R2 in the asymptotic regime; the regime is certified by the observed contraction e2 <= e1 / 4
        # (expected 1/16): where it is not certified the forward is too rough at this lattice point for the oracle to decide.
        rnd = 2 * C_SAFE * EPS * max(1.0, fmax) / (H_RICH / 8)
        u = e2 + rnd
        gmax = max(1.0, float(np.abs(R).max()))
        if not np.all(np.isfinite(R)) or np.any(e2 > e1 / 4 + rnd) or u.max() > 1e-6 * gmax:
            out.count('skipped_ill_conditioned')
            continue
        if not np.all(np.isfinite(grad)):
            out.violation(site + '/nonfinite_gradient', '%s%s delivers NaN/Inf at a smooth point' % (name, cfg), delivered=grad, oracle=R, **det)
            continue
        bad = np.abs(grad - R) > 2 * u
        if bad.any():
            j = int(np.argmax(np.abs(grad - R) - 2 * u))
            names = [k for k, v in sorted(model.named_parameters(), key=lambda kv: kv[0]) if v.requires_grad for _ in range(v.numel())]
            out.violation('%s/wrong_gradient/%s' % (site, names[j] if j < len(names) else '?'),
                          '%s%s at point %s: d loss / d theta[%d] (%s) delivered %.12g, 4th-order central difference of the forward %.12g +- %.2g'
                          % (name, cfg, pt, j, names[j] if j < len(names) else '?', grad[j], R[j], u[j]), delivered=grad, oracle=R, uncertainty=u, **det)
        out.outcome((name, cfg, pt, np.round(grad, 6)), nontrivial=bool(np.abs(grad).max() > 1e-9))
        out.trace()
    out.sample = {'kind': 'model', 'model': name, 'config': list(cfg), 'points': case['points']}


# ------------------------------------------------------------------------------------------------ engine interface
def prepare(env):
    atoms(env)
    selftest_reference()


def _prog_cases(cfg, info):
    cases = []
    for nq, level, depth, q0, points, jac, *rest in cfg:
        extras = bool(rest and rest[0])
        evs = event_list(nq, level)
        info.append({'nq': nq, 'alphabet': level, 'events': len(evs), 'depth': depth, 'histories': len(evs)**depth, 'init_states': q0, 'points': points, 'full_jacobian': jac, 'cotangent_forms_interleaving_input_kinds': extras})
        if depth == 1:
            for lo in range(0, len(evs), 12):
                cases.append({'kind': 'prog', 'nq': nq, 'level': level, 'depth': 1, 'first': None, 'lo': lo, 'hi': min(lo + 12, len(evs)), 'q0': q0, 'points': points, 'jac': jac, 'extras': extras})
        else:
            for i in range(len(evs)):
                cases.append({'kind': 'prog', 'nq': nq, 'level': level, 'depth': depth, 'first': i, 'q0': q0, 'points': points, 'jac': jac, 'extras': extras})
    return cases


def build_cases(tier, seed):
    quick = tier == 'quick'
    cases, info = [], {}
    info['programs'] = []
    allp = ['gen', 'zero', 'pi2']
    if quick:
        cfg = [(3, 'full', 1, ['zero', 'fix', 'gen'], allp, True, True), (3, 'medium', 2, ['fix'], ['gen'], False), (2, 'tiny', 3, ['fix'], ['gen'], False),
               (2, 'tiny', 2, ['fix', 'gen'], ['gen'], False, True),
               (3, 'ext', 1, ['zero', 'fix', 'gen'], allp, True, True), (4, 'ext', 1, ['zero', 'fix', 'gen'], allp, True, True), (3, 'ext_s', 2, ['fix'], ['gen'], False, True)]
    else:
        cfg = [(3, 'full', 1, ['zero', 'fix', 'gen'], allp, True, True), (3, 'full', 2, ['zero', 'fix'], allp, False), (3, 'full', 2, ['gen'], ['gen'], False),
               (2, 'tiny', 3, ['zero', 'fix', 'gen'], allp, False, True), (3, 'reduced', 3, ['fix'], ['gen'], False),
               (3, 'ext', 1, ['zero', 'fix', 'gen'], allp, True, True), (4, 'ext', 1, ['zero', 'fix', 'gen'], allp, True, True),
               (3, 'ext', 2, ['zero', 'fix', 'gen'], allp, False, True), (4, 'ext', 2, ['fix', 'gen'], ['gen'], False, True),
               (3, 'reduced', 2, ['fix', 'gen'], ['gen'], False, True)]
    cases += _prog_cases(cfg, info['programs'])
    funs = [('sqrtm',), ('repeat', 1), ('repeat', 2), ('repeat', 3)]
    funs += [('logm', 6, 8), ('logm', 4, 6)] if quick else [('logm', ns, m) for ns in (4, 5, 6) for m in (6, 8)]
    info['psd'] = {'functions': [list(f) for f in funs], 'd': [1, 2, 3, 4], 'fields': ['c', 'r'], 'batches_per_config': {d: len(psd_batches(d, tier)) for d in (1, 2, 3, 4)},
                   'cotangent_forms': list(PSD_COT_FORMS)}
    for fun in funs:
        for d in (1, 2, 3, 4):
            for field in ('c', 'r'):
                cases.append({'kind': 'psd', 'fun': list(fun), 'd': d, 'field': field, 'batches': psd_batches(d, tier)})
    # float32 / complex64 inputs (tolerances with eps(float32))
    funs32 = [('sqrtm',), ('repeat', 2), ('logm', 4, 6)] if quick else funs
    d32 = (2, 3) if quick else (1, 2, 3, 4)
    info['psd_float32'] = {'functions': [list(f) for f in funs32], 'd': list(d32), 'fields': ['c', 'r'], 'batches_per_config': {d: len(psd_batches(d, tier, True)) for d in d32}}
    for fun in funs32:
        for d in d32:
            for field in ('c', 'r'):
                cases.append({'kind': 'psd', 'fun': list(fun), 'd': d, 'field': field, 'dtype': 'f32', 'batches': psd_batches(d, tier, True)})
    # rank-deficient PSD inputs reached through a frame: A = X X^dagger with X of shape (d, r), r < d. The composite X -> f(X X^dagger)
    # is differentiable (f(A) = X (X^dagger X)^p X^dagger) although f itself is not differentiable at the zero eigenvalues.
    for fun in [('sqrtm',), ('repeat', 1), ('repeat', 2), ('repeat', 3)]:
        for d in (2, 3, 4):
            for field in ('c', 'r'):
                cases.append({'kind': 'psd_frame', 'fun': list(fun), 'd': d, 'field': field})
    info['psd_frame'] = 'A = X X^dagger, X in {generic, [1_r;0], generic with an exactly zero row} for every d in 2..4, r in 1..d-1; gradient w.r.t. X against central differences of the closed form'
    info['kl'] = []
    for n in (2, 3):
        ns = len(kl_sequences(n))
        for K in (1, 2, 4):
            info['kl'].append({'n': n, 'logical_dim': K, 'sequences': ns})
            step = 5
            for lo in range(0, ns, step):
                cases.append({'kind': 'kl', 'n': n, 'K': K, 'lo': lo, 'hi': min(lo + step, ns)})
    nb = 0
    for order in itertools.permutations(['a', 'b', 'w']):
        for r in range(0, 3):
            for frozen in itertools.combinations(['a', 'b', 'w'], r):
                for stale in (False, True):
                    for custom in (False, True):
                        for dtype in ('f64', 'f32'):
                            for unused in (False, True):
                                cases.append({'kind': 'bridge', 'order': list(order), 'frozen': list(frozen), 'stale': stale, 'custom': custom, 'dtype': dtype, 'unused': unused})
                                nb += 1
    info['bridge'] = {'configurations': nb, 'calls_per_configuration': 6, 'parameter_dtypes': ['float64', 'float32'], 'unused_trainable_parameter': [False, True]}
    methods = [('pade', 6, 8)] if quick else [('pade', 6, 8), ('pade', 4, 6), ('pade', 5, 8)]
    info['entropy'] = {'methods': [list(m) for m in methods], 'd': [2, 3, 4], 'fields': ['c', 'r']}
    for m in methods:
        for d in (2, 3, 4):
            for field in ('c', 'r'):
                spectra = ['gen', 'deg2' if d > 2 else 'degall', 'near'] + (['deg3' if d > 3 else 'degall'] if d >= 3 else [])
                cases.append({'kind': 'entropy', 'd': d, 'field': field, 'method': list(m), 'spectra': spectra})
    info['models'] = {'configurations': [[n_, list(c_)] for n_, c_ in MODEL_CONFIGS[tier]], 'points': MODEL_POINTS}
    for n_, c_ in MODEL_CONFIGS[tier]:
        for pt in MODEL_POINTS:
            cases.append({'kind': 'model', 'model': n_, 'cfg': list(c_), 'points': [pt]})
    info['exhaustive'] = True
    return cases, info


def run_case(case, out, env):
    kind = case['kind']
    {'prog': run_prog, 'psd': run_psd, 'psd_frame': run_psd_frame, 'kl': run_kl, 'bridge': run_bridge, 'entropy': run_entropy, 'model': run_model}[kind](case, out, env)
