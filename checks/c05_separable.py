"""C05 - entanglement criteria never flag a separable state (DESIGN.md section 4 / C05).

Mode H, explicit-state search: a state is a convex mixture of product states reached from a pure product state by
*mix-in* events  rho -> (1-w) rho + w sigma  (sigma from the complete product alphabet of the local alphabets,
w in {1/2, 0.1, 1e-6}).  Every reachable state within the depth bound is separable by construction; every criterion is an
invariant evaluated at every state (states are deduplicated by the rounded matrix).  Structured corners (many-term full-rank
mixtures, repeated terms, nearly parallel vectors, diagonal states, analytic families on their separable ranges incl. end
points) are separate case kinds.  The symmetric-extension SDPs are evaluated on a declared sub-alphabet under a hard
wall-clock cap per case.

Audit wave: local-unitary and party-permutation events on the structured states; structured-only dimension lists (non-
palindromic tripartite, four parties, dimA=4); 'history' cases (dimension lists of equal size back to back in one process);
option / container variants (check_variants); SDP grid k=1..5, mixed batches with Bell states, input / output forms,
is_ABk_symmetric_ext_naive; unregularised (2,3) SDP states in thorough.
"""
import itertools

import numpy as np

from mc import core

PROPERTY = 'C05'
GUARD = ['numqi.entangle', 'numqi.utils']  # argument-immutability oracle (mc.seams.ImmutabilityGuard)
GUARD_LAYOUT = ['numqi.entangle._misc', 'numqi.entangle.eof', 'numqi.entangle.measure.get_gme_2qubit', 'numqi.entangle.ppt.is_ppt', 'numqi.entangle.ppt.is_generalized_ppt', 'numqi.utils']  # memory-layout metamorphic oracle: eigenvalue-based functions only (SDP / LP optima differ by solver tolerance)
LEVEL = 'model_checking'
RULE = ('state = separable density matrix reached by mix-in events from a pure product state of the local alphabets (key = rounded '
        'matrix); all event sequences up to the depth bound are enumerated; transition = evaluation of one criterion on one state; '
        'invariant: every criterion accepts, every closed-form measure is finite and zero; non-trivial = distinct mixed (rank>=2) states. '
        'Further events on the structured states: local unitaries {Fourier/H, phase/S, generic}^(x)n and party permutations (images re-checked with the '
        'permuted dims). Structured-only dimension lists (2,2,3),(3,2,2),(2,2,2,2),(4,2),(3,4). Histories: dimension lists of equal total size '
        'evaluated back to back in one process (all orders of the (2,2,3) permutations, (2,3)<->(3,2), (2,4)<->(4,2)). Option / container axes at the '
        'structured, family, history, initial and a strided third of the level-1 bipartite states: is_generalized_ppt return_info (same tag, all '
        'bipartitions listed, norms <= 1+eps) and eps in {default,1e-6}; dim as list / ndarray / np.int64 tuple; real states as float64. '
        'SDP: is_ABk_symmetric_ext over k in 1..5 x boson x ppt on (2,2), batches interleaving Bell states through the reused Problem, single-item / '
        'list / return_info / use_tqdm forms (returned blocks PSD, normalised, reproducing rho), is_ABk_symmetric_ext_naive (2d/1d index kinds)')
ASSUMPTIONS = [
    'every explored state is separable by construction (convex mixture of explicit product projectors)',
    'closed-form measures: |value| <= 1e-6 counts as zero (square roots amplify eps to ~1e-8); negativity <= 1e-9',
    'SDP criteria: declared sub-alphabet; a case over the wall-clock cap is listed as capped and never counted as pass; cvxpy SolverError escaping the library = solver_failed (listed)',
    'generic atoms of the local alphabets are drawn once from VERIF_SEED',
    'matrices returned by the SDP functions are compared within 1e-3 (SCS stopping rule eps_abs=eps_rel=1e-4 on data and solutions of norm <= 1, x5 for equilibration); the irrep coefficients of numqi.group.symext are trusted when the marginal of the returned blocks is rebuilt',
    'Bell-state positions of the mixed batches are recorded, not judged (C05 speaks about separable inputs only)',
    'local-unitary / permutation images are separable because the maps preserve product vectors; argument containers beyond tuple[int] (list, ndarray, np.int64) are accepted by the library code paths (hf_tuple_of_int / int()) and are held to the same verdict',
]
CASE_TIMEOUT = 300
CHUNK = 1
LU_STRIDES = (1, 7)  # structured equal-weight mixtures that are also fed through the local-unitary / party-permutation events

WEIGHTS = [0.5, 0.1, 1e-6]
PENDING = set()  # additions whose oracle fires on the unchanged tree (reported, waiting for the repair of numqi)


# ------------------------------------------------------------------------------------------------ alphabets
def local_alphabet(d, rng, n_generic):
    vs = []
    eye = np.eye(d, dtype=np.complex128)
    for i in range(d):
        vs.append(eye[i])
    if d == 2:
        for v in ([1, 1], [1, -1], [1, 1j], [1, -1j]):
            vs.append(np.array(v, dtype=np.complex128) / np.sqrt(2))
    else:
        w = np.exp(2j * np.pi / d)
        for k in range(d):
            vs.append(np.array([w ** (k * j) for j in range(d)]) / np.sqrt(d))
    for _ in range(n_generic):
        v = rng.normal(size=d) + 1j * rng.normal(size=d)
        vs.append(v / np.linalg.norm(v))
    return vs


def product_alphabet(dims, env, n_generic=1):
    locs = [local_alphabet(d, env.rng('C05', 'local', i, d), n_generic) for i, d in enumerate(dims)]
    prods = []
    for combo in itertools.product(*locs):
        v = combo[0]
        for u in combo[1:]:
            v = np.kron(v, u)
        prods.append(v)
    return prods


_ALPHA = {}


def get_alpha(dims, env):
    k = (tuple(dims), env.seed)
    if k not in _ALPHA:
        vs = product_alphabet(dims, env)
        _ALPHA[k] = [np.outer(v, v.conj()) for v in vs]
    return _ALPHA[k]


def skey(rho):
    return (np.round(rho.real, 9) + 0.0).tobytes() + (np.round(rho.imag, 9) + 0.0).tobytes()


# ------------------------------------------------------------------------------------------------ the invariant
def check_state(nq, out, rho, dims, label, with_lu=None, variants=False):
    """all non-SDP criteria on one separable state; variants=True adds the option values / argument containers
    (check_variants); with_lu=env adds the local-unitary and party-permutation images of the state (lu_perm_images)"""
    dims = tuple(dims)
    N = rho.shape[0]
    E = nq.entangle

    def guard(name, fn):
        out.trans()
        try:
            with np.errstate(all='ignore'):
                return True, fn()
        except Exception as e:
            out.violation('%s/raises_%s' % (name, type(e).__name__), '%s raised %r on a separable state of dims %s (%s)' % (name, e, dims, label), rho=rho, dims=dims)
            return False, None

    ok, v = guard('is_ppt', lambda: E.is_ppt(rho, dims))
    if ok and not bool(v):
        out.violation('is_ppt/flags_separable', 'is_ppt rejects a separable state of dims %s (%s)' % (dims, label), rho=rho, dims=dims)
    ok, v = guard('is_generalized_ppt', lambda: E.is_generalized_ppt(rho, dims))
    if ok and not bool(v):
        out.violation('is_generalized_ppt/flags_separable', 'is_generalized_ppt rejects a separable state of dims %s (%s)' % (dims, label), rho=rho, dims=dims)
    ok, v = guard('check_reduction_witness', lambda: E.check_reduction_witness(rho, dims))
    if ok and not bool(v):
        out.violation('check_reduction_witness/flags_separable', 'reduction criterion rejects a separable state of dims %s (%s)' % (dims, label), rho=rho, dims=dims)
    if len(dims) == 2 and dims[0] == dims[1]:
        ok, v = guard('check_swap_witness', lambda: E.check_swap_witness(rho))
        if ok and not bool(v):
            out.violation('check_swap_witness/flags_separable', 'swap witness rejects a separable state of dims %s (%s)' % (dims, label), rho=rho, dims=dims)
    if len(dims) == 2:
        ok, v = guard('get_negativity', lambda: E.get_negativity(rho, dims))
        if ok:
            if not np.isfinite(v):
                out.violation('get_negativity/not_finite', 'negativity of a separable state is %r (%s)' % (v, label), rho=rho, dims=dims)
            elif abs(v) > 1e-9:
                out.violation('get_negativity/nonzero_on_separable', 'negativity %.3g of a separable state (%s)' % (v, label), rho=rho, dims=dims)
    if dims == (2, 2):
        for name, fn in (('get_concurrence_2qubit', E.get_concurrence_2qubit), ('get_eof_2qubit', E.get_eof_2qubit), ('get_gme_2qubit', E.get_gme_2qubit)):
            ok, v = guard(name, lambda fn=fn: fn(rho))
            if ok:
                v = float(np.real(v)) if np.ndim(v) == 0 else np.nan
                if not np.isfinite(v):
                    out.violation('%s/not_finite' % name, '%s of a separable two-qubit state is %r (%s)' % (name, v, label), rho=rho)
                elif abs(v) > 1e-6:
                    out.violation('%s/nonzero_on_separable' % name, '%s = %.3g on a separable two-qubit state (%s)' % (name, v, label), rho=rho)
    if variants and 'variants' not in PENDING:
        check_variants(nq, out, rho, dims, label, guard)
    if with_lu:
        for rho2, dims2, label2 in lu_perm_images(rho, dims, with_lu):
            check_state(nq, out, rho2, dims2, '%s; %s' % (label, label2), variants=False)
            out.count('lu_or_permuted_states')
    out.state()


def gppt_partition_count(n):
    """number of index bipartitions of the 2n tensor legs listed by the generalized partial-transpose criterion
    (Chen & Wu 2002): the trivial one, all subsets of 1..n-1 legs, and the unordered halves"""
    from math import comb
    return 1 + sum(comb(2 * n, x) for x in range(1, n)) + comb(2 * n, n) // 2


def check_variants(nq, out, rho, dims, label, guard):
    """option values and argument containers of the non-SDP criteria: every form must give the verdict 'passes' too
    (the plain tuple / complex128 / default-eps call has been judged by check_state already)"""
    E = nq.entangle
    n = len(dims)
    # --- is_generalized_ppt: return_info and eps
    for eps_name, kw in (('default', {}), ('1e-6', {'eps': 1e-6})):
        eps = kw.get('eps', 1e-10)
        ok, v = guard('is_generalized_ppt[return_info]', lambda: E.is_generalized_ppt(rho, dims, return_info=True, **kw))
        if ok:
            good = isinstance(v, tuple) and len(v) == 2
            out.check(good, 'is_generalized_ppt/return_info/not_a_pair', 'return_info=True does not return (tag, info) (%s)' % label, rho=rho, dims=dims)
            if good:
                tag, info = v
                out.check(bool(tag), 'is_generalized_ppt/return_info/flags_separable', 'is_generalized_ppt(return_info=True, eps=%s) rejects a separable state of dims %s (%s)' % (eps_name, dims, label), rho=rho, dims=dims)
                norms = [float(x[2]) for x in info]
                out.check(len(norms) == gppt_partition_count(n), 'is_generalized_ppt/return_info/partition_count',
                          '%d norms listed for %d parties, %d index bipartitions exist (%s)' % (len(norms), n, gppt_partition_count(n), label), rho=rho, dims=dims)
                out.check(all(np.isfinite(x) and x <= 1 + eps for x in norms), 'is_generalized_ppt/return_info/norm_above_one',
                          'largest listed nuclear norm %.17g > 1+eps on a separable state of dims %s (%s)' % (max(norms), dims, label), rho=rho, dims=dims)
                legs = [tuple(sorted(tuple(x[0]) + tuple(x[1]))) for x in info]
                out.check(all(l == tuple(range(2 * n)) for l in legs), 'is_generalized_ppt/return_info/not_a_partition', 'a listed index pair is not a partition of the %d legs (%s)' % (2 * n, label), dims=dims)
                out.outcome((dims, 'gppt_info', len(norms), round(max(norms), 6)), nontrivial=max(norms) > 1 - 1e-6)
        if kw:
            ok, v = guard('is_generalized_ppt[eps]', lambda: E.is_generalized_ppt(rho, dims, **kw))
            if ok:
                out.check(bool(v), 'is_generalized_ppt/eps/flags_separable', 'is_generalized_ppt(eps=%s) rejects a separable state of dims %s (%s)' % (eps_name, dims, label), rho=rho, dims=dims)
    # --- argument containers: dim as list / ndarray / tuple of np.int64; rho as float64 when it is real
    forms = [('dim=list', rho, list(dims)), ('dim=ndarray', rho, np.array(dims)), ('dim=int64', rho, tuple(np.int64(x) for x in dims))]
    if np.iscomplexobj(rho) and not np.any(rho.imag):
        forms.append(('rho=float64', np.ascontiguousarray(rho.real, dtype=np.float64), dims))
        out.count('real_dtype_states')
    for fname, r_, d_ in forms:
        fns = [('is_ppt', lambda: E.is_ppt(r_, d_)), ('is_generalized_ppt', lambda: E.is_generalized_ppt(r_, d_)),
               ('check_reduction_witness', lambda: E.check_reduction_witness(r_, d_))]
        if n == 2:
            fns.append(('get_negativity', lambda: E.get_negativity(r_, d_)))
        if fname == 'rho=float64':
            if n == 2 and dims[0] == dims[1]:
                fns.append(('check_swap_witness', lambda: E.check_swap_witness(r_)))
            if dims == (2, 2):
                fns += [('get_concurrence_2qubit', lambda: E.get_concurrence_2qubit(r_)), ('get_eof_2qubit', lambda: E.get_eof_2qubit(r_)), ('get_gme_2qubit', lambda: E.get_gme_2qubit(r_))]
        for name, fn in fns:
            ok, v = guard('%s[%s]' % (name, fname), fn)
            if not ok:
                continue
            if name.startswith('get_'):
                v = float(np.real(v)) if np.ndim(v) == 0 else np.nan
                tol = 1e-9 if name == 'get_negativity' else 1e-6  # the bounds of check_state
                out.check(np.isfinite(v) and abs(v) <= tol, '%s/argument_form/nonzero_on_separable' % name, '%s = %r with %s on a separable state of dims %s (%s)' % (name, v, fname, dims, label), rho=rho, dims=dims)
            else:
                out.check(bool(v), '%s/argument_form/flags_separable' % name, '%s with %s rejects a separable state of dims %s (%s)' % (name, fname, dims, label), rho=rho, dims=dims)


def generic_unitary(d, rng):
    q, r = np.linalg.qr(rng.normal(size=(d, d)) + 1j * rng.normal(size=(d, d)))
    return q * (np.diagonal(r) / np.abs(np.diagonal(r)))


def local_unitary_menu(d, rng):
    """{H, S, generic} for a qubit; {Fourier, clock phases, generic} for d > 2"""
    w = np.exp(2j * np.pi / d)
    F = np.array([[w ** (j * k) for k in range(d)] for j in range(d)]) / np.sqrt(d)
    S = np.diag([np.exp(0.5j * np.pi * k * k / max(d - 1, 1)) for k in range(d)])
    return [F, S, generic_unitary(d, rng)]


def party_permutations(n):
    perms = [p for p in itertools.permutations(range(n)) if p != tuple(range(n))]
    if n >= 4:  # generators and the reversal only
        perms = [tuple(range(1, n)) + (0,), (1, 0) + tuple(range(2, n)), tuple(range(n - 1, -1, -1)), (0, 2, 1) + tuple(range(3, n))]
    return perms


def lu_perm_images(rho, dims, env):
    """local-unitary and party-permutation events (DESIGN C05): images of a separable state are separable"""
    n = len(dims)
    N = rho.shape[0]
    menus = [local_unitary_menu(d, env.rng('C05', 'lu', i, d)) for i, d in enumerate(dims)]
    combos = [(0,) * n, (1,) * n, (2,) * n, tuple(i % 3 for i in range(n)), tuple((i + 1) % 3 for i in range(n))]
    for c in combos:
        U = np.ones((1, 1), dtype=np.complex128)
        for i, k in enumerate(c):
            U = np.kron(U, menus[i][k])
        r2 = U @ rho @ U.conj().T
        yield (r2 + r2.conj().T) / 2, dims, 'LU %s' % (c,)
    for p in party_permutations(n):
        r2 = rho.reshape(dims + dims).transpose(p + tuple(n + i for i in p)).reshape(N, N)
        yield np.ascontiguousarray(r2), tuple(dims[i] for i in p), 'parties permuted %s' % (p,)


def mix(rho, sigma, w):
    return (1 - w) * rho + w * sigma


# ------------------------------------------------------------------------------------------------ cases
DIMS_QUICK = [(2, 2), (2, 3), (3, 2), (3, 3), (2, 4), (2, 2, 2), (2, 3, 2)]


DIMS_EXTRA = [(2, 2, 3), (3, 2, 2), (2, 2, 2, 2), (4, 2), (3, 4)]
# ordered dimension lists of equal total size evaluated back to back in one process, caches cleared only at the start;
# the first list is revisited at the end
HISTORIES = ([((2, 3), (3, 2)), ((3, 2), (2, 3)), ((2, 4), (4, 2)), ((4, 2), (2, 4)), ((2, 4), (2, 2, 2), (4, 2)), ((3, 4), (2, 2, 3), (2, 3, 2), (3, 2, 2))]
             + [tuple(p) for p in itertools.permutations([(2, 2, 3), (2, 3, 2), (3, 2, 2)])])


def build_cases(tier, seed):
    cases = []
    info = {'dims': [list(d) for d in DIMS_QUICK], 'weights': WEIGHTS}
    depth = {}
    for dims in DIMS_QUICK:
        nalpha = int(np.prod([{2: 7, 3: 7, 4: 9}[d] for d in dims]))
        if tier == 'quick':
            depth[dims] = 2 if dims == (2, 2) else 1
        else:
            depth[dims] = 3 if dims == (2, 2) else (2 if len(dims) == 2 else 1)
        # one case per (initial product state): enumerates all event sequences below it
        for i in range(nalpha):
            cases.append({'kind': 'search', 'dims': list(dims), 'init': i, 'depth': depth[dims]})
        cases.append({'kind': 'structured', 'dims': list(dims)})
    # ---- dimension lists without a search: structured states only (non-SDP criteria; non-palindromic, 4 parties, dimA=4)
    for dims in DIMS_EXTRA:
        cases.append({'kind': 'structured', 'dims': list(dims)})
    info['dims_structured_only'] = [list(d) for d in DIMS_EXTRA]
    # ---- call histories across dimension lists inside one process (caches keyed too coarsely)
    for seq in HISTORIES:
        cases.append({'kind': 'history', 'seq': [list(d) for d in seq]})
    info['histories'] = [[list(d) for d in seq] for seq in HISTORIES]
    info['depth'] = {str(k): v for k, v in depth.items()}
    info['second_level_weights'] = [0.5] if tier == 'quick' else [0.5, 1e-6]
    info['quick_menu_reduction'] = 'quick: tripartite level-1 events use every 3rd product state and w in {1/2,1e-6}; (2,2) level-2 events use every 3rd product state with w=1/2; thorough uses the full menus'
    info['third_level'] = 'thorough, (2,2) only: events restricted to every 5th product state with w=1/2 (stride-reduced menu)'
    for fam in ('werner', 'isotropic', 'horodecki'):
        cases.append({'kind': 'family', 'family': fam})
    # ---- SDP sub-alphabet
    sdp = []
    for k, boson, ppt in ((2, False, False), (2, True, False), (2, False, True), (3, False, False), (3, True, False), (3, True, True)):
        n22 = 49
        step = 7
        for lo in range(0, n22, step):
            sdp.append({'kind': 'sdp', 'dims': [2, 2], 'k': k, 'boson': boson, 'ppt': ppt, 'lo': lo, 'hi': lo + step, 'reg': 0.0,
                        'weights': [0.5, 1e-6] if tier == 'quick' else WEIGHTS})
    # the rest of the k x boson x ppt grid (k=1: the state itself / plain PPT; k=4,5; the two k=2,3 combinations left out above)
    grid_rest = [(k, b, p) for k in (1, 2, 3, 4, 5) for b in (False, True) for p in (False, True)
                 if (k, b, p) not in ((2, False, False), (2, True, False), (2, False, True), (3, False, False), (3, True, False), (3, True, True))]
    for k, boson, ppt in grid_rest:
        if tier == 'quick':
            sdp.append({'kind': 'sdp', 'dims': [2, 2], 'k': k, 'boson': boson, 'ppt': ppt, 'lo': 0, 'hi': 0, 'inits': list(range(0, 49, 8)), 'jstride': 3, 'reg': 0.0, 'weights': [0.5, 1e-6]})
        else:
            for lo in range(0, 49, 7):
                sdp.append({'kind': 'sdp', 'dims': [2, 2], 'k': k, 'boson': boson, 'ppt': ppt, 'lo': lo, 'hi': lo + 7, 'jstride': 2, 'reg': 0.0, 'weights': [0.5, 1e-6]})
    info['sdp_grid_rest'] = {'combinations': [list(x) for x in grid_rest], 'states': 'quick: initial states 0,8,..,48 x partners 0,3,..,48 x w in {1/2,1e-6}; thorough: all initial states x partners 0,2,..,48 x w in {1/2,1e-6}'}
    grid_all = [(k, b, p) for k in (1, 2, 3, 4, 5) for b in (False, True) for p in (False, True)]
    for k, boson, ppt in grid_all:
        sdp.append({'kind': 'sdp_batch', 'dims': [2, 2], 'k': k, 'boson': boson, 'ppt': ppt})
    for k, boson, ppt in [x for x in grid_all if x[0] in (2, 3)]:
        sdp.append({'kind': 'sdp_forms', 'dims': [2, 2], 'k': k, 'boson': boson, 'ppt': ppt})
    for dims in ([2, 2], [2, 3], [3, 2]):
        for index_kind in ('2d', '1d'):
            for k in ((2, 3) if dims == [2, 2] else (2,)):
                sdp.append({'kind': 'sdp_naive', 'dims': dims, 'k': k, 'index_kind': index_kind})
    info['sdp_batch'] = 'per (k,boson,ppt), (2,2): batches [Bell,sep,Bell,sep] and [sep,Bell] through one reused cvxpy Problem; separable positions must answer True, Bell positions are recorded'
    info['sdp_forms'] = 'per (k,boson,ppt) with k=2,3, (2,2), 14-state slice: single 2-d rho (scalar result), list input, return_info=True (blocks PSD, normalised, reproduce rho), use_tqdm=True'
    info['sdp_naive'] = 'is_ABk_symmetric_ext_naive index_kind 2d/1d: k=2,3 on (2,2) (14-state slice), k=2 on (2,3),(3,2) (4 three-term mixtures, with 0 and 10% white noise); verdict True and the returned extension is PSD, normalised, reduces to rho'
    big = [((2, 3), 2, False, False), ((2, 3), 2, True, False), ((3, 3), 2, True, False)]
    if tier == 'thorough':
        big += [((2, 3), 2, True, True), ((2, 3), 3, True, False), ((3, 3), 2, False, False), ((3, 2), 2, True, False), ((2, 4), 2, True, False)]
    for dims, k, boson, ppt in big:
        for lo in range(0, 4 if tier == 'quick' else 24, 2):
            sdp.append({'kind': 'sdp_big', 'dims': list(dims), 'k': k, 'boson': boson, 'ppt': ppt, 'lo': lo, 'hi': lo + 2, 'reg': 1e-3})
    # boundary states (no regularisation) beyond two qubits: rank-3 mixtures of products, same configurations as the regularised ones
    # (probe: the solver needs seconds only in the thin band reg ~ 1e-3, exact boundary states take < 0.1 s)
    for dims, k, boson, ppt in big:
        for lo in range(0, 4 if tier == 'quick' else 12, 2):
            sdp.append({'kind': 'sdp_big', 'dims': list(dims), 'k': k, 'boson': boson, 'ppt': ppt, 'lo': lo, 'hi': lo + 2, 'reg': 0.0})
    info['sdp_boundary_larger'] = 'unregularised rank-3 mixtures of products for the same (dims,k,boson,ppt) list: %d states each' % (4 if tier == 'quick' else 12)
    cases += sdp
    info['sdp'] = {'(2,2)': 'all states of depth <= 1 (weights %s) for k=2,3 x {plain, boson, +PPT}' % ([0.5, 1e-6] if tier == 'quick' else WEIGHTS),
                   'larger': [str(b) for b in big], 'regularisation_of_larger': 1e-3, 'cap_s': CASE_TIMEOUT}
    info['exhaustive'] = True
    info['note'] = 'exhaustive within the stated depth / weight / alphabet bounds; SDP criteria only on the declared sub-alphabet'
    return cases, info


def run_case(case, out, env):
    import numqi
    kind = case['kind']
    if kind == 'search':
        dims = tuple(case['dims'])
        A = get_alpha(dims, env)
        rho0 = A[case['init']]
        seen = set()
        w2 = [0.5] if env.tier == 'quick' else [0.5, 1e-6]

        def visit(rho, label, variants=False):
            k = skey(rho)
            if k in seen:
                out.count('merged_states')
                return False
            seen.add(k)
            check_state(numqi, out, rho, dims, label, variants=variants)
            ev = np.linalg.eigvalsh(rho)
            out.outcome((dims, np.round(ev, 7)), nontrivial=bool((ev > 1e-9).sum() >= 2))
            return True
        visit(rho0, 'init=%d' % case['init'], variants=True)
        var1 = len(dims) == 2  # option / container variants at level 1: bipartite lists, w=1/2, every 3rd product state (cost: ~17 wrapped calls per state)
        quick = env.tier == 'quick'
        tri = len(dims) >= 3
        lvl1 = list(range(0, len(A), 3)) if (quick and tri) else list(range(len(A)))
        w1 = [0.5, 1e-6] if (quick and tri) else WEIGHTS
        lvl2 = list(range(0, len(A), 3)) if quick else list(range(len(A)))
        if case['depth'] >= 1:
            for j in lvl1:
                sg = A[j]
                for w in w1:
                    r1 = mix(rho0, sg, w)
                    new = visit(r1, 'init=%d;mix(%d,%g)' % (case['init'], j, w), variants=var1 and w == 0.5 and j % 3 == 0)
                    if new and case['depth'] >= 2:
                        for j2 in lvl2:
                            sg2 = A[j2]
                            for wb in w2:
                                r2 = mix(r1, sg2, wb)
                                new2 = visit(r2, 'init=%d;mix(%d,%g);mix(%d,%g)' % (case['init'], j, w, j2, wb))
                                if new2 and case['depth'] >= 3 and w == 0.5 and wb == 0.5:
                                    for j3 in range(0, len(A), 5):
                                        visit(mix(r2, A[j3], 0.5), 'init=%d;mix(%d,%g);mix(%d,%g);mix(%d,0.5)' % (case['init'], j, w, j2, wb, j3))
        out.trace()
        out.sample = {'kind': 'search', 'dims': list(dims), 'init': case['init'], 'depth': case['depth'], 'distinct_states': len(seen)}
    elif kind == 'structured':
        dims = tuple(case['dims'])
        A = get_alpha(dims, env)
        N = int(np.prod(dims))
        n = len(A)
        # equal-weight mixtures of 1..2*N terms taken with fixed strides through the product alphabet
        for stride in (1, 3, 7, 11):
            for nterm in range(1, 2 * N + 1):
                idx = [(stride * t + nterm) % n for t in range(nterm)]
                rho = sum(A[i] for i in idx) / nterm
                check_state(numqi, out, rho, dims, 'equal mixture stride=%d terms=%d' % (stride, nterm), variants=True, with_lu=env if stride in LU_STRIDES else None)
                out.outcome((dims, stride, nterm), nontrivial=nterm > 1)
        # repeated terms
        rho = (A[1] + A[1] + A[2]) / 3
        check_state(numqi, out, rho, dims, 'repeated terms', variants=True, with_lu=env)
        # nearly parallel product vectors (angle 1e-6) and geometric weights
        locs = [np.eye(d, dtype=np.complex128) for d in dims]
        for eps_ in (1e-6, 1e-3):
            vs = []
            for sgn in (1, -1):
                v = np.ones(1, dtype=np.complex128)
                for L in locs:
                    u = L[0] + sgn * eps_ * L[1]
                    v = np.kron(v, u / np.linalg.norm(u))
                vs.append(v)
            rho = 0.5 * np.outer(vs[0], vs[0].conj()) + 0.5 * np.outer(vs[1], vs[1].conj())
            check_state(numqi, out, rho, dims, 'nearly parallel eps=%g' % eps_, variants=True, with_lu=env)
            out.outcome((dims, 'parallel', eps_), nontrivial=True)
        # computational-basis mixtures (diagonal states on the boundary of the state space) and the maximally mixed state
        for nb in range(1, N + 1):
            p = np.zeros(N)
            p[:nb] = (np.arange(nb) + 1.0)
            p /= p.sum()
            check_state(numqi, out, np.diag(p).astype(np.complex128), dims, 'diagonal rank %d' % nb, variants=True, with_lu=env)
            out.outcome((dims, 'diag', nb), nontrivial=nb > 1)
        check_state(numqi, out, np.eye(N, dtype=np.complex128) / N, dims, 'maximally mixed', variants=True)
        check_state(numqi, out, np.eye(N) / N, dims, 'maximally mixed (real dtype)')
        out.trace()
        out.sample = {'kind': 'structured', 'dims': list(dims)}
    elif kind == 'family':
        fam = case['family']
        if fam == 'werner':
            for d in (2, 3):
                F = np.zeros((d * d, d * d))
                for i in range(d):
                    for j in range(d):
                        F[i * d + j, j * d + i] = 1
                for a in np.concatenate([np.linspace(-1, 1 / d, 9), [1 / d - 1e-9]]):
                    rho = (np.eye(d * d) - a * F) / (d * d - d * a)
                    check_state(numqi, out, rho.astype(np.complex128), (d, d), 'werner d=%d alpha=%.9g' % (d, a), variants=True, with_lu=env)
                    out.outcome(('werner', d, round(float(a), 9)), nontrivial=True)
        elif fam == 'isotropic':
            for d in (2, 3):
                phi = np.eye(d).reshape(-1) / np.sqrt(d)
                P = np.outer(phi, phi)
                for a in np.concatenate([np.linspace(-1 / (d * d - 1), 1 / (d + 1), 9), [1 / (d + 1) - 1e-9]]):
                    rho = (1 - a) / (d * d) * np.eye(d * d) + a * P
                    check_state(numqi, out, rho.astype(np.complex128), (d, d), 'isotropic d=%d alpha=%.9g' % (d, a), variants=True, with_lu=env)
                    out.outcome(('isotropic', d, round(float(a), 9)), nontrivial=True)
        else:
            # Horodecki 1997 families at their separable end points (b=0,1 for 2x4; a=0,1 for 3x3), built from the paper's formulas
            for b in (0.0, 1.0):
                rho = horodecki_2x4(b)
                check_state(numqi, out, rho.astype(np.complex128), (2, 4), 'horodecki2x4 b=%g' % b, variants=True, with_lu=env)
                out.outcome(('h24', b), nontrivial=True)
            for a in (0.0, 1.0):
                rho = horodecki_3x3(a)
                check_state(numqi, out, rho.astype(np.complex128), (3, 3), 'horodecki3x3 a=%g' % a, variants=True, with_lu=env)
                out.outcome(('h33', a), nontrivial=True)
        out.trace()
        out.sample = {'kind': 'family', 'family': fam}
    elif kind == 'history':
        from mc import seams
        seams.clear_numqi_caches()
        seq = [tuple(d) for d in case['seq']]
        seq = seq + [seq[0]]
        for pos, dims in enumerate(seq):
            A = get_alpha(dims, env)
            n = len(A)
            N = int(np.prod(dims))
            for stride, nterm in ((1, 1), (5, 2), (3, N), (7, 2 * N)):
                idx = [(stride * t + nterm) % n for t in range(nterm)]
                rho = sum(A[i] for i in idx) / nterm
                check_state(numqi, out, rho, dims, 'history %s position %d: equal mixture stride=%d terms=%d' % (seq, pos, stride, nterm), variants=True)
                out.outcome((pos, dims, stride, nterm), nontrivial=pos > 0 and nterm > 1)
        out.trace()
        out.sample = {'kind': 'history', 'seq': [list(d) for d in seq]}
    elif kind in ('sdp', 'sdp_big'):
        import cvxpy
        dims = tuple(case['dims'])
        A = get_alpha(dims, env)
        N = int(np.prod(dims))
        states = []
        labels = []
        if kind == 'sdp':
            # 'inits' / 'jstride': reduced depth-1 slice (declared in info) used for the outer part of the k x boson x ppt grid
            for i in case.get('inits', range(case['lo'], min(case['hi'], len(A)))):
                states.append(A[i])
                labels.append('init=%d' % i)
                for j in range(0, len(A), case.get('jstride', 1)):
                    for w in case['weights']:
                        states.append(mix(A[i], A[j], w))
                        labels.append('init=%d;mix(%d,%g)' % (i, j, w))
        else:
            n = len(A)
            for t in range(case['lo'], case['hi']):
                i, j, l = (5 * t + 1) % n, (11 * t + 3) % n, (17 * t + 7) % n
                rho = (A[i] + A[j] + A[l]) / 3
                states.append((1 - case['reg']) * rho + case['reg'] * np.eye(N) / N)
                labels.append('regularised mixture of products %d,%d,%d' % (i, j, l))
        uniq = {}
        for s_, l_ in zip(states, labels):
            uniq.setdefault(skey(s_), (s_, l_))
        states = [v[0] for v in uniq.values()]
        labels = [v[1] for v in uniq.values()]
        name = 'is_ABk_symmetric_ext[k=%d,boson=%s,ppt=%s]' % (case['k'], case['boson'], case['ppt'])
        try:
            res = numqi.entangle.is_ABk_symmetric_ext(np.stack(states), dims, case['k'], use_ppt=case['ppt'], use_boson=case['boson'], use_tqdm=False)
        except cvxpy.error.SolverError:
            out.count('solver_failed')
            out.state(len(states))
            out.trans(1)
            return
        res = np.asarray(res)
        out.state(len(states))
        out.trans(len(states))
        for ok, s_, l_ in zip(res, states, labels):
            if not bool(ok):
                out.violation('is_ABk_symmetric_ext/flags_separable/k=%d,boson=%s,ppt=%s' % (case['k'], case['boson'], case['ppt']),
                              '%s answers False (entangled) for a separable state of dims %s (%s)' % (name, dims, l_), rho=s_, dims=dims)
                break
        out.outcome((dims, case['k'], case['boson'], case['ppt'], case['lo'], int(res.sum())), nontrivial=True)
        out.trace()
        out.sample = {'kind': kind, 'dims': list(dims), 'k': case['k'], 'states': len(states), 'first': labels[0]}
    elif kind == 'sdp_batch':
        run_sdp_batch(numqi, case, out, env)
    elif kind == 'sdp_forms':
        run_sdp_forms(numqi, case, out, env)
    elif kind == 'sdp_naive':
        run_sdp_naive(numqi, case, out, env)
    else:
        raise ValueError(kind)


# ------------------------------------------------------------------------------------------------ SDP: batches, forms, naive
# Residual bound for matrices returned by the solver. cvxpy's default for these Hermitian SDPs is SCS, which stops at a
# primal residual |Ax+s-b|_inf <= eps_abs + eps_rel*max(|Ax|,|s|,|b|) with eps_abs = eps_rel = 1e-4; the data (rho, trace 1)
# and the solution (trace 1, PSD) have entries <= 1, so 2e-4, times 5 for the equilibration SCS applies before it tests the
# residual and for the real embedding of Hermitian matrices: 1e-3.  Measured on the slices below: <= 2e-5.  A block that
# belongs to another item of the batch is off by O(0.1).
TOL_SDP = 1e-3


def bell_states():
    v = np.array([[1, 0, 0, 1], [1, 0, 0, -1], [0, 1, 1, 0], [0, 1, -1, 0]], dtype=np.complex128) / np.sqrt(2)
    return [np.outer(x, x.conj()) for x in v]


def slice14(A):
    """7 pure product states (every 8th of the 49) and 7 two-term mixtures with rotating weights"""
    n = len(A)
    idx = list(range(0, n, max(n // 6, 1)))[:7]
    states = [A[i] for i in idx]
    labels = ['init=%d' % i for i in idx]
    for t, i in enumerate(idx):
        j, w = (i + 10) % n, WEIGHTS[t % 3]
        states.append(mix(A[i], A[j], w))
        labels.append('init=%d;mix(%d,%g)' % (i, j, w))
    return states, labels


def sdp_call(out, key, fn):
    """(ok, value); a cvxpy SolverError escaping the library is listed as solver_failed, anything else is a violation"""
    import contextlib
    import io
    import cvxpy
    out.trans()
    try:
        with contextlib.redirect_stderr(io.StringIO()):  # progress bars
            return True, fn()
    except cvxpy.error.SolverError:
        out.count('solver_failed')
    except Exception as e:
        out.violation('%s/raises_%s' % (key, type(e).__name__), '%s raised %r on separable input' % (key, e))
    return False, None


def run_sdp_batch(nq, case, out, env):
    dims = tuple(case['dims'])
    k, boson, ppt = case['k'], case['boson'], case['ppt']
    kw = dict(use_ppt=ppt, use_boson=boson)
    tagk = 'k=%d,boson=%s,ppt=%s' % (k, boson, ppt)
    seps, labels = slice14(get_alpha(dims, env))
    bells = bell_states()
    record = []
    for t in range(7):
        s1, s2 = seps[7 + t], seps[t]
        for batch, pos in (([bells[t % 4], s1, bells[(t + 1) % 4], s2], (1, 3)), ([s2, bells[t % 4]], (0,)), ([s1, bells[(t + 2) % 4]], (0,))):
            ok, res = sdp_call(out, 'is_ABk_symmetric_ext[batch]', lambda: nq.entangle.is_ABk_symmetric_ext(np.stack(batch), dims, k, **kw))
            out.state(len(batch))
            if not ok:
                continue
            res = np.asarray(res)
            good = res.shape == (len(batch),)
            out.check(good, 'is_ABk_symmetric_ext/batch/result_shape', 'result of a batch of %d has shape %s' % (len(batch), res.shape), k=k)
            if good:
                for q in pos:
                    out.check(bool(res[q]), 'is_ABk_symmetric_ext/batch_with_entangled_items/flags_separable/' + tagk,
                              'is_ABk_symmetric_ext[%s] answers False at position %d (a separable state) of a batch whose other items are Bell states (t=%d, batch length %d)' % (tagk, q, t, len(batch)),
                              batch=np.stack(batch), dims=dims)
                record.append(tuple(int(bool(x)) for x in res))
    out.outcome((tagk, tuple(record)), nontrivial=any(0 in r for r in record))  # non-trivial: some Bell position answered False in between
    if not any(0 in r for r in record):
        out.count('sdp_batch_bell_items_all_accepted')  # expected only for k=1 without PPT
    out.trace()
    out.sample = {'kind': 'sdp_batch', 'k': k, 'boson': boson, 'ppt': ppt, 'verdicts': [list(r) for r in record[:3]]}


def rho_from_blocks(nq, blocks, dimA, dimB, k, boson):
    """the marginal on AB encoded by the irrep blocks, by the contraction the library states as its constraint
    (coefficients from numqi.group.symext: trusted here); also the weighted trace"""
    coeff, mult = nq.group.symext.get_symmetric_extension_irrep_coeff(dimB, k)
    if boson:
        coeff, mult = coeff[:1], mult[:1]
    if len(blocks) != len(coeff):
        return None, None
    rdm, tr = 0, 0.0
    for P, c, m in zip(blocks, coeff, mult):
        x = c.shape[0]
        if np.shape(P) != (dimA * x, dimA * x):
            return None, None
        rdm = rdm + np.einsum('arcs,rsbd->acbd', np.asarray(P).reshape(dimA, x, dimA, x), c)
        tr += m * np.trace(P).real
    return rdm.transpose(0, 2, 1, 3).reshape(dimA * dimB, dimA * dimB), tr


def check_blocks(nq, out, blocks, rho, dims, k, boson, tagk, label):
    good = isinstance(blocks, list) and all(isinstance(b, np.ndarray) and b.ndim == 2 for b in blocks)
    out.check(good, 'is_ABk_symmetric_ext/return_info/blocks_missing', 'return_info=True with verdict True returns %r instead of the list of blocks (%s)' % (type(blocks), label), rho=rho)
    if not good:
        return 0.0
    for b in blocks:
        herm = np.abs(b - b.conj().T).max()
        ev = np.linalg.eigvalsh((b + b.conj().T) / 2)
        out.check(herm <= TOL_SDP and ev[0] >= -TOL_SDP, 'is_ABk_symmetric_ext/return_info/block_not_psd', 'returned block: |B-B^+|=%.3g, smallest eigenvalue %.3g [%s] (%s)' % (herm, ev[0], tagk, label), rho=rho, block=b)
    rec, tr = rho_from_blocks(nq, blocks, dims[0], dims[1], k, boson)
    if rec is None:
        out.violation('is_ABk_symmetric_ext/return_info/block_shapes', 'blocks of shapes %s do not match the irreps [%s]' % ([np.shape(b) for b in blocks], tagk), rho=rho)
        return 0.0
    err = np.abs(rec - rho).max()
    out.check(err <= TOL_SDP and abs(tr - 1) <= TOL_SDP, 'is_ABk_symmetric_ext/return_info/blocks_do_not_reproduce_rho',
              'marginal of the returned blocks differs from rho by %.3g, weighted trace %.9g [%s] (%s)' % (err, tr, tagk, label), rho=rho, blocks=blocks)
    return float(err)


def run_sdp_forms(nq, case, out, env):
    dims = tuple(case['dims'])
    k, boson, ppt = case['k'], case['boson'], case['ppt']
    kw = dict(use_ppt=ppt, use_boson=boson)
    tagk = 'k=%d,boson=%s,ppt=%s' % (k, boson, ppt)
    f = nq.entangle.is_ABk_symmetric_ext
    states, labels = slice14(get_alpha(dims, env))
    out.state(len(states))
    key = 'is_ABk_symmetric_ext/%s/flags_separable/' + tagk
    worst = 0.0
    # single 2-d rho: scalar verdict
    for s_, l_ in zip(states, labels):
        ok, v = sdp_call(out, 'is_ABk_symmetric_ext[single]', lambda: f(s_, dims, k, **kw))
        if ok:
            out.check(np.ndim(v) == 0 and isinstance(v, (bool, np.bool_)), 'is_ABk_symmetric_ext/single/not_a_scalar_bool', 'a single 2-d rho returns %r' % (v,), rho=s_)
            out.check(np.ndim(v) == 0 and bool(v), key % 'single', 'single 2-d rho: verdict %r on a separable state (%s)' % (v, l_), rho=s_, dims=dims)
        ok, v = sdp_call(out, 'is_ABk_symmetric_ext[single,return_info]', lambda: f(s_, dims, k, return_info=True, **kw))
        if ok:
            good = isinstance(v, tuple) and len(v) == 2
            out.check(good, 'is_ABk_symmetric_ext/single_return_info/not_a_pair', 'single rho with return_info=True returns %r' % (type(v),), rho=s_)
            if good:
                out.check(bool(v[0]), key % 'single_return_info', 'single rho, return_info=True: verdict %r on a separable state (%s)' % (v[0], l_), rho=s_, dims=dims)
                if bool(v[0]):
                    worst = max(worst, check_blocks(nq, out, v[1], s_, dims, k, boson, tagk, l_))
    # list input, return_info on a batch, progress bar
    for form, call in (('list', lambda: f([x for x in states], dims, k, **kw)), ('list_of_lists', lambda: f([x.tolist() for x in states], dims, k, **kw)),
                       ('use_tqdm', lambda: f(np.stack(states), dims, k, use_tqdm=True, **kw))):
        ok, v = sdp_call(out, 'is_ABk_symmetric_ext[%s]' % form, call)
        if ok:
            v = np.asarray(v)
            out.check(v.shape == (len(states),) and bool(v.all()), key % form, 'input form %s: verdicts %s on separable states' % (form, v.tolist()), dims=dims)
    ok, v = sdp_call(out, 'is_ABk_symmetric_ext[batch,return_info]', lambda: f(np.stack(states), dims, k, return_info=True, **kw))
    if ok:
        good = isinstance(v, list) and len(v) == len(states) and all(isinstance(x, tuple) and len(x) == 2 for x in v)
        out.check(good, 'is_ABk_symmetric_ext/batch_return_info/not_a_list_of_pairs', 'batch with return_info=True returns %r' % (type(v),))
        if good:
            for (tag, blocks), s_, l_ in zip(v, states, labels):
                out.check(bool(tag), key % 'batch_return_info', 'batch, return_info=True: verdict %r on a separable state (%s)' % (tag, l_), rho=s_, dims=dims)
                if bool(tag):
                    worst = max(worst, check_blocks(nq, out, blocks, s_, dims, k, boson, tagk, l_))  # item i must carry the blocks of item i
    out.outcome((tagk, 'forms', round(worst, 7)), nontrivial=True)
    out.trace()
    out.sample = {'kind': 'sdp_forms', 'k': k, 'boson': boson, 'ppt': ppt, 'max_marginal_residual': worst}


def run_sdp_naive(nq, case, out, env):
    dims = tuple(case['dims'])
    dA, dB = dims
    k, index_kind = case['k'], case['index_kind']
    A = get_alpha(dims, env)
    N = dA * dB
    if dims == (2, 2):
        states, labels = slice14(A)
    else:
        states, labels = [], []
        n = len(A)
        # 3-term mixtures on the boundary and with 10% white noise (the solver needs seconds only in the thin band reg ~ 1e-3)
        for t in range(4):
            i, j, l = (5 * t + 1) % n, (11 * t + 3) % n, (17 * t + 7) % n
            for reg in (0.0, 0.1):
                states.append((1 - reg) * (A[i] + A[j] + A[l]) / 3 + reg * np.eye(N) / N)
                labels.append('mixture of products %d,%d,%d with white noise %g' % (i, j, l, reg))
    tagk = 'k=%d,index_kind=%s' % (k, index_kind)
    worst = 0.0
    for s_, l_ in zip(states, labels):
        out.state()
        ok, v = sdp_call(out, 'is_ABk_symmetric_ext_naive', lambda: nq.entangle.symext.is_ABk_symmetric_ext_naive(s_, dims, k, index_kind=index_kind))
        if not ok:
            continue
        good = isinstance(v, tuple) and len(v) == 2
        out.check(good, 'is_ABk_symmetric_ext_naive/not_a_pair', 'returns %r' % (type(v),), rho=s_)
        if not good:
            continue
        out.check(bool(v[0]), 'is_ABk_symmetric_ext_naive/flags_separable/' + tagk, 'is_ABk_symmetric_ext_naive[%s] answers False for a separable state of dims %s (%s)' % (tagk, dims, l_), rho=s_, dims=dims)
        if bool(v[0]):
            X = np.asarray(v[1])
            M = dB ** (k - 1)
            if X.shape != (N * M, N * M):
                out.violation('is_ABk_symmetric_ext_naive/extension_shape', 'extension of shape %s for dims %s k=%d' % (X.shape, dims, k), rho=s_)
                continue
            ev = np.linalg.eigvalsh((X + X.conj().T) / 2)
            marg = np.einsum('ikjk->ij', X.reshape(N, M, N, M))
            err = max(np.abs(marg - s_).max(), abs(np.trace(X).real - 1), np.abs(X - X.conj().T).max(), max(-ev[0], 0.0))
            # exchange B1 <-> B2 (the first two copies) leaves the extension invariant
            T = X.reshape((dA, dB, dB, dB ** (k - 2)) * 2).transpose(0, 2, 1, 3, 4, 6, 5, 7).reshape(N * M, N * M)
            err = max(err, np.abs(T - X).max())
            worst = max(worst, float(err))
            out.check(err <= TOL_SDP, 'is_ABk_symmetric_ext_naive/extension_invalid/' + tagk, 'returned extension violates PSD / trace / marginal / B1<->B2 symmetry by %.3g (%s)' % (err, l_), rho=s_, X=X)
    out.outcome((dims, tagk, round(worst, 7)), nontrivial=True)
    out.trace()
    out.sample = {'kind': 'sdp_naive', 'dims': list(dims), 'k': k, 'index_kind': index_kind, 'max_residual': worst}


def horodecki_2x4(b):
    """P. Horodecki, Phys. Lett. A 232 (1997) 333, eq. (32)"""
    rho = np.zeros((8, 8))
    for i in range(8):
        rho[i, i] = b
    rho[7, 7] = (1 + b) / 2
    rho[4, 4] = (1 + b) / 2
    for i, j in ((0, 5), (1, 6), (2, 7)):
        rho[i, j] = rho[j, i] = b
    rho[4, 7] = rho[7, 4] = np.sqrt(1 - b * b) / 2
    return rho / (7 * b + 1)


def horodecki_3x3(a):
    """P. Horodecki, Phys. Lett. A 232 (1997) 333, eq. (29)"""
    rho = np.zeros((9, 9))
    for i in range(9):
        rho[i, i] = a
    rho[6, 6] = (1 + a) / 2
    rho[8, 8] = (1 + a) / 2
    for i, j in ((0, 4), (0, 8), (4, 8)):
        rho[i, j] = rho[j, i] = a
    rho[6, 8] = rho[8, 6] = np.sqrt(1 - a * a) / 2
    return rho / (8 * a + 1)
